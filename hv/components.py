"""Correspondence for the pure selection components (coq/Model/Select.v): the real pyhms code paths are driven on generated
inputs (heavy ties, both directions, k from 0 past the size) and the model is evaluated on the same inputs by vm_compute;
outputs are compared key by key (fkey of the doubles).  Also the executable form of the component laws (monitors)."""
import random
import struct

import numpy as np

from .coqrun import run_cases
from .monitors import key

HEADER = ("From Coq Require Import ZArith List Bool. Import ListNotations. From HV Require Import Ord Select Pop.\nOpen Scope Z_scope.\n"
          "Definition popcase (table : list Z) (p : list (Z * option Z)) (new : list Z) (de : bool) : list Z :=\n"
          "  let f := fun g : Z => nth (Z.to_nat g) table 0 in let q := if de then de_trial Z.eqb p new else update_genome Z.eqb p new in\n"
          "  Z.of_nat (length (requests q)) :: map (fun r => match snd r with Some v => v | None => 0 end) (evaluate f q).\n"
          "Definition ob (o : option Z) : list Z := match o with Some b => [1; b] | None => [0] end.\n")


def fb(x):
    return struct.unpack("<Q", struct.pack("<d", float(x)))[0]


def k_(x):
    return key(fb(x))


def zl(xs):
    return "[" + "; ".join(f"({x})" if x < 0 else str(x) for x in xs) + "]"


def nl(xs):
    return "[" + "; ".join(str(int(x)) + "%nat" for x in xs) + "]"


def gen_fits(rng, n, ties):
    pool = [rng.choice([-3.0, -1.5, 0.0, 0.0, 1.0, 2.5, 1e-300, -1e-300, 7.0, float(rng.randint(-4, 4))]) for _ in range(max(2, n // 2))]
    out = []
    for _ in range(n):
        if rng.random() < ties:
            out.append(rng.choice(pool))
        else:
            out.append(rng.choice([rng.uniform(-10, 10), rng.gauss(0, 1e-9), rng.uniform(-1e6, 1e6), float("inf") if rng.random() < 0.03 else rng.random(),
                                   float("-inf") if rng.random() < 0.03 else -rng.random()]))
    return out


class _P:
    """a minimal Problem for driving Population / Individual code directly"""

    def __init__(self, mx):
        from pyhms.core.problem import FunctionProblem
        self.p = FunctionProblem(lambda x: float("nan"), np.array([[-1.0, 1.0]]), mx)


def gen_params(rng, ci):
    kind = ["topk", "best", "tournament", "sea", "de", "shade", "topk"][ci % 7]
    size = rng.choice([1, 2, 3, 4, 5, 8, 13, 24])
    fs = gen_fits(rng, size, rng.choice([0.0, 0.5, 0.9]))
    p = {"kind": kind, "mx": rng.random() < 0.5, "fs": fs}
    if kind == "topk":
        p["k"] = rng.randint(0, size + 2)
    elif kind == "tournament":
        p["pairs"] = [[rng.randrange(size), rng.randrange(size)] for _ in range(size)]
    elif kind == "sea":
        p["k_elites"] = rng.choice([0, 1, 1, 2, 3])
        p["off"] = gen_fits(rng, size, 0.5)
    elif kind in ("de", "shade"):
        p["ts"] = [f if rng.random() < 0.25 else t for f, t in zip(fs, gen_fits(rng, size, 0.5))]  # a quarter of exact ties with the parent
        p["npseed"] = rng.randrange(2 ** 31)
    return p


def mirror_params(p):
    q = dict(p)
    q["mx"] = not p["mx"]
    for k in ("fs", "off", "ts"):
        if k in p:
            q[k] = [-v for v in p[k]]
    return q


def run_case(p):
    """drives the real code path for one parameter set; returns the case dict (term for the model, impl keys, impl ids)"""
    from pyhms.core.individual import Individual
    from pyhms.core.population import Population
    from pyhms.demes.single_pop_eas import de as de_mod
    from pyhms.demes.single_pop_eas import sea as sea_mod
    kind, mx, fs = p["kind"], p["mx"], p["fs"]
    size = len(fs)
    prob = _P(mx).p
    G = np.arange(size, dtype=float).reshape(size, 1)  # genome = index, so individuals stay identifiable
    c = dict(p)
    if kind == "topk":
        k = p["k"]
        pop = Population(G.copy(), np.array(fs), prob)
        out = pop.topk(k)
        order = [int(i) for i in np.argsort(np.array(fs))]
        c.update(impl=[k_(v) for v in out.fitnesses], impl_ids=[int(g[0]) for g in out.genomes],
                 term=f"topk {str(mx).lower()} {k}%nat {zl([k_(v) for v in fs])} {nl(order)}")
    elif kind == "best":
        inds = [Individual(np.array([float(i)]), prob, f) for i, f in enumerate(fs)]
        b = max(inds)
        c.update(impl=[1, k_(b.fitness)], impl_ids=[int(b.genome[0])], term=f"ob (best_of {str(mx).lower()} {zl([k_(v) for v in fs])})")
    elif kind == "tournament":
        pop = Population(G.copy(), np.array(fs), prob)
        idx = np.array(p["pairs"])
        orig = np.random.randint
        np.random.randint = lambda *a, **kw: idx
        try:
            out = sea_mod.TournamentSelection()(pop)
        finally:
            np.random.randint = orig
        pairs = "[" + "; ".join(f"({zl([k_(fs[a]), k_(fs[b])])}, tournament_pick {str(mx).lower()} ({k_(fs[a])}) ({k_(fs[b])}))" for a, b in idx) + "]"
        c.update(impl=[k_(v) for v in out.fitnesses], impl_ids=[int(g[0]) for g in out.genomes],
                 term=f"map (fun pq => nth (snd pq) (fst pq) 0) {pairs}")
    elif kind == "sea":
        k_el, off = p["k_elites"], p["off"]
        par = Population(G.copy(), np.array(fs), prob)
        offp = Population(G.copy() + 100, np.array(off), prob)

        class S(sea_mod.BaseSEA):
            @classmethod
            def create(cls, **kw):
                return None
        sea = S([], k_el)
        out = sea.select_new_population(par, offp)
        o1 = [int(i) for i in np.argsort(np.array(fs))]
        elites = par.topk(k_el)
        merged = np.concatenate((np.array(off), elites.fitnesses))
        o2 = [int(i) for i in np.argsort(merged)]
        c.update(impl=[k_(v) for v in out.fitnesses], impl_ids=[int(g[0]) for g in out.genomes],
                 term=f"sea_select {str(mx).lower()} {k_el}%nat {zl([k_(v) for v in fs])} {zl([k_(v) for v in off])} {nl(o1)} {nl(o2)}")
    else:
        ts = p["ts"]
        parents = [Individual(np.array([float(i)]), prob, f) for i, f in enumerate(fs)]
        trial = Population(G.copy() + 100, np.array(ts), prob)
        if kind == "de":
            eng = de_mod.DE(use_dither=False, crossover_probability=0.9, f=0.5)
            eng._mutation = lambda pop: pop
            eng._crossover = lambda par, tr, prb: trial
        else:
            eng = de_mod.SHADE(memory_size=3, population_size=max(size, 1))
            eng._mutation = lambda pop, arch, f, pp: pop
            eng._crossover = lambda par, tr, prb: trial
        st = np.random.get_state()
        np.random.seed(p["npseed"])
        try:
            with np.errstate(all="ignore"):
                out = eng.run(parents)
        finally:
            np.random.set_state(st)
        c.update(impl=[k_(i.fitness) for i in out], impl_ids=[int(i.genome[0]) for i in out],
                 term=f"de_select {str(mx).lower()} {zl([k_(v) for v in ts])} {zl([k_(v) for v in fs])}")
    return c


def pop_case(rng):
    """Population.update_genome + evaluate (and the DE keep-fitness rule through the real Crossover) against Model/Pop.v"""
    from pyhms.core.population import Population
    from pyhms.core.problem import FunctionProblem
    from pyhms.demes.single_pop_eas import de as de_mod
    n, dim = rng.choice([1, 2, 4, 7, 12]), rng.choice([1, 2, 3])
    grid = [[float(rng.randint(-2, 2)) for _ in range(dim)] for _ in range(rng.randint(2, 6))]
    intern = {}

    def gid(g):
        t = tuple(float(x) for x in g)
        if t not in intern:
            intern[t] = len(intern)
        return intern[t]
    calls = []

    def obj(x):
        calls.append(tuple(float(v) for v in x))
        return float(sum((i + 1) * v * v - 0.5 * v for i, v in enumerate(x)))
    prob = FunctionProblem(obj, np.array([[-3.0, 3.0]] * dim), rng.random() < 0.5)
    G = np.array([rng.choice(grid) for _ in range(n)], dtype=float)
    Fv = np.array([obj(g) if rng.random() < 0.7 else np.nan for g in G], dtype=float)
    calls.clear()
    new = np.array([list(g) if rng.random() < 0.5 else rng.choice(grid) for g in G], dtype=float)
    de = rng.random() < 0.4
    pop = Population(G.copy(), Fv.copy(), prob)
    if de:
        # the real Crossover with every gene taken from the mutated population: new_fitness = where(all(new == old), old, nan)
        st = np.random.get_state()
        try:
            out = de_mod.Crossover()(pop, Population(new.copy(), np.full(n, np.nan), prob), 2.0)
        finally:
            np.random.set_state(st)
    else:
        out = pop.copy()
        out.update_genome(new.copy())
    ncall0 = len(calls)
    out.evaluate()
    ids_old, ids_new = [gid(g) for g in G], [gid(g) for g in new]
    table = [0] * len(intern)
    for t, i in intern.items():
        table[i] = k_(float(sum((j + 1) * v * v - 0.5 * v for j, v in enumerate(t))))
    rows = "[" + "; ".join(f"({i}, {'None' if np.isnan(f) else 'Some (' + str(k_(f)) + ')'})" for i, f in zip(ids_old, Fv)) + "]"
    impl = [len(calls) - ncall0] + [k_(f) for f in out.fitnesses]
    ok_genomes = [gid(g) for g in out.genomes] == ids_new
    untouched = np.array_equal(pop.genomes, G) and np.array_equal(pop.fitnesses, Fv, equal_nan=True)
    return {"kind": "pop-de" if de else "pop", "mx": prob.maximize, "fs": [float(x) for x in Fv], "impl": impl, "impl_ids": ids_new, "genomes_ok": ok_genomes, "parent_untouched": untouched,
            "true": [table[i] for i in ids_new], "term": f"popcase {zl(table)} {rows} {zl(ids_new)} {'true' if de else 'false'}"}


def gen_cases(rng, n):
    return [run_case(gen_params(rng, ci)) if ci % 8 != 7 else pop_case(rng) for ci in range(n)]


def mirror_check(rng, n):
    """C13 on the real code: the same component on (f, maximize) and on (-f, minimize) must select the same individuals"""
    viol, done = [], 0
    for ci in range(n):
        p = gen_params(rng, ci)
        a, b = run_case(p), run_case(mirror_params(p))
        done += 1
        ia, ib = a["impl_ids"], b["impl_ids"]
        if p["kind"] in ("topk", "sea"):
            # unstable tie order is allowed: the kept fitness multiset must agree
            same = sorted(x if a['mx'] else -x for x in a['impl']) == sorted(x if b['mx'] else -x for x in b['impl'])
        else:
            same = ia == ib
        if not same:
            viol.append({"key": f"C13/component/{p['kind']}", "what": f"{p['kind']} selects different individuals on (f, maximize) and (-f, minimize): "
                         f"indices {ia} vs {ib}; fitnesses {p['fs']}", "case": p, "replay_fn": "mirror"})
    return viol, done


def laws(c):
    """executable component laws on the implementation's output (the monitor); returns a description or None"""
    mx, fs, kind = c["mx"], c["fs"], c["kind"]
    if kind in ("pop", "pop-de"):
        if not c["genomes_ok"]:
            return "update_genome / crossover did not deliver the requested genomes"
        if not c["parent_untouched"]:
            return "the operator changed the arrays of the population it was given (history would be mutated in place)"
        if c["impl"][1:] != c["true"]:
            return f"after evaluate() some row does not carry the objective value of its genome: stored keys {c['impl'][1:]}, true {c['true']}"
        return None
    g = (lambda v: -k_(v)) if mx else k_
    if kind == "topk":
        kept = list(c["impl_ids"])
        if len(kept) != min(c["k"], len(fs)) or len(set(kept)) != len(kept):
            return f"topk({c['k']}) of {len(fs)} individuals returned {len(kept)} (distinct {len(set(kept))})"
        dropped = [i for i in range(len(fs)) if i not in kept]
        if any(g(fs[d]) < g(fs[a]) for d in dropped for a in kept):
            return f"topk({c['k']}, maximize={mx}) dropped an individual strictly better than one it kept: fitnesses {fs}, kept {kept}"
    elif kind == "best":
        b = c["impl_ids"][0]
        if any(g(f) < g(fs[b]) for f in fs):
            return f"max() returned fitness {fs[b]!r} but {fs} holds a strictly better one (maximize={mx})"
        if any(g(fs[i]) == g(fs[b]) for i in range(b)):
            return "max() did not return the first of the tied best individuals"
    elif kind == "tournament":
        for (a, b), w in zip(c["pairs"], c["impl_ids"]):
            if w not in (a, b) or g(fs[w]) > min(g(fs[a]), g(fs[b])):
                return f"tournament between fitnesses {fs[a]!r} and {fs[b]!r} selected {fs[w]!r} (maximize={mx})"
    elif kind == "sea":
        out = c["impl"]
        if len(out) != len(fs):
            return f"select_new_population returned {len(out)} individuals for {len(fs)} parents"
        if c["k_elites"] >= 1:
            bo = min((-x if mx else x) for x in out)
            bp = min(g(f) for f in fs)
            if bo > bp:
                return f"k_elites={c['k_elites']}: best fitness got worse (parents {fs}, offspring {c['off']}, maximize={mx})"
    else:
        out = c["impl"]
        if len(out) != len(fs):
            return f"{kind}: {len(out)} survivors for {len(fs)} parents"
        so = sorted((-x if mx else x) for x in out)
        sp = sorted(g(f) for f in fs)
        if any(a > b for a, b in zip(so, sp)):
            return f"{kind}: some k-th best fitness got worse (parents {fs}, trials {c['ts']}, maximize={mx})"
    return None


def run_components(ctx, n, tag, kinds=None, pid="C12"):
    rng = random.Random(ctx.seed + 4242)
    cases = gen_cases(rng, n)
    if kinds:
        cases = [c for c in cases if c["kind"] in kinds]
    violations, disagreements = [], []
    for c in cases:
        why = laws(c)
        if why:
            violations.append({"key": f"{pid}/component/{c['kind']}", "what": why, "case": {k: v for k, v in c.items() if k != "term"}, "replay_fn": "component"})
    model, err = run_cases(tag, HEADER, [c["term"] for c in cases])
    if model is None:
        disagreements.append({"what": "model evaluation failed: " + err[-400:]})
    else:
        for c, mo in zip(cases, model):
            if mo != c["impl"]:
                disagreements.append({"what": f"{c['kind']} (maximize={c['mx']}): implementation keys {c['impl']} model {mo}; fitnesses {c['fs']}",
                                      "case": {k: v for k, v in c.items() if k != "term"}})
    dist = {}
    for c in cases:
        dist[f"{c['kind']}/{'max' if c['mx'] else 'min'}"] = dist.get(f"{c['kind']}/{'max' if c['mx'] else 'min'}", 0) + 1
    nontrivial = len({(c["kind"], c["mx"], tuple(c["impl"])) for c in cases if len(set(c["fs"])) < len(c["fs"]) or len(c["fs"]) > 2})
    return {"violations": violations, "disagreements": disagreements[:10], "evaluations": len(cases), "distinct_nontrivial": nontrivial,
            "validated": len(cases) if model is not None else 0, "distribution": dist,
            "samples": [{k: v for k, v in c.items() if k in ("kind", "mx", "fs", "impl")} for c in cases[:3]]}
