"""Self-validation against seeded changes (/verif/seeded/<id>/): confirms each change (demo passes on the clean tree, fails with
the patch, the repository's test-suite passes with the patch) in a scratch worktree, then runs the property's check against the
patched worktree (VERIF_REPO) and records whether it reported a violation.   usage: python -m hv.seedtest [--confirm] [--check] [ids...]"""
import json
import os
import subprocess
import sys
import time

VERIF = os.path.dirname(os.path.dirname(os.path.abspath(__file__)))
PY = "/venv/bin/python"


def sh(cmd, cwd=None, env=None, timeout=1800):
    e = dict(os.environ)
    if env:
        e.update(env)
    r = subprocess.run(cmd, shell=True, cwd=cwd, env=e, capture_output=True, text=True, timeout=timeout)
    return r.returncode, r.stdout + r.stderr


def main():
    args = [a for a in sys.argv[1:] if not a.startswith("--")]
    do_confirm = "--confirm" in sys.argv or "--check" not in sys.argv
    do_check = "--check" in sys.argv or "--confirm" not in sys.argv
    ids = args or sorted(os.listdir(os.path.join(VERIF, "seeded")))
    for sid in ids:
        d = os.path.join(VERIF, "seeded", sid)
        if not os.path.exists(os.path.join(d, "patch.diff")):
            continue
        meta = json.load(open(os.path.join(d, "meta.json")))
        pid = meta.get("property", sid[:3])
        wt = f"/tmp/seedtest-{sid}"
        sh(f"git -C /repo worktree remove --force {wt}")
        rc, out = sh(f"git -C /repo worktree add -q --detach {wt} HEAD")
        try:
            rc, out = sh(f"git apply {d}/patch.diff", cwd=wt)
            if rc != 0:
                meta["confirmed"] = False
                meta["confirm_note"] = "patch does not apply: " + out[-300:]
                print(sid, "PATCH DOES NOT APPLY")
                continue
            if do_confirm:
                rc0, o0 = sh(f"{PY} {d}/demo.py", cwd="/tmp", env={"PYTHONPATH": "/repo", "PYTHONHASHSEED": "0"}, timeout=600)
                rc1, o1 = sh(f"{PY} {d}/demo.py", cwd="/tmp", env={"PYTHONPATH": wt, "PYTHONHASHSEED": "0"}, timeout=600)
                rct, ot = sh(f"{PY} -m pytest -q -p no:cacheprovider --timeout=900 -x 2>&1 | tail -3", cwd=wt, env={"PYTHONPATH": wt}, timeout=1200)
                passed = " passed" in ot and "failed" not in ot
                meta["confirmed"] = (rc0 == 0 and rc1 != 0 and passed)
                meta["what_i_ran"] = {"demo_on_clean_tree_exit": rc0, "demo_with_patch_exit": rc1, "test_suite_with_patch": ot.strip().splitlines()[-1] if ot.strip() else "",
                                      "demo_output_with_patch_tail": o1[-400:]}
                print(sid, "confirmed" if meta["confirmed"] else f"NOT CONFIRMED clean={rc0} patched={rc1} tests={passed}", flush=True)
            if do_check:
                t0 = time.time()
                rc, out = sh(f"./check {pid} --tier quick", cwd=VERIF, env={"VERIF_REPO": wt}, timeout=3000)
                lines = [ln for ln in out.splitlines() if ln.startswith("VIOLATION") or ln.startswith("KNOWN-FINDING")]
                meta["check"] = {"property": pid, "exit": rc, "lines": lines[:4], "wall_s": round(time.time() - t0, 1), "detected": rc != 0 and any(l.startswith("VIOLATION") for l in lines),
                                 "with_failing_input": any(l.startswith("VIOLATION") and "no-failing-input-found" not in l for l in lines)}
                print(sid, "check:", "DETECTED" if meta["check"]["detected"] else "MISSED", lines[:2], flush=True)
                if lines and lines[0].startswith("VIOLATION"):
                    rp = lines[0].split("replay=")[1].split()[0]
                    try:
                        rj = json.load(open(rp))
                        meta["check"]["what"] = str(rj.get("what", rj.get("no_longer_checks")))[:400]
                    except Exception:
                        pass
        finally:
            json.dump(meta, open(os.path.join(d, "meta.json"), "w"), indent=1)
            sh(f"git -C /repo worktree remove --force {wt}")
    # restore Gen/ for the real repository
    sh("./check C17 --tier quick", cwd=VERIF, timeout=900) if do_check else None


if __name__ == "__main__":
    main()
