"""Rewrites the seeded-changes table of DESIGN.md (between the SEEDED_TABLE markers) from seeded/*/meta.json.   usage: python -m hv.syncdesign"""
import io
import os
import re
from contextlib import redirect_stdout

from . import seedtable

VERIF = os.path.dirname(os.path.dirname(os.path.abspath(__file__)))
BEGIN, END = "<!-- SEEDED_TABLE_BEGIN -->", "<!-- SEEDED_TABLE_END -->"


def main():
    buf = io.StringIO()
    with redirect_stdout(buf):
        seedtable.main()
    p = os.path.join(VERIF, "DESIGN.md")
    s = open(p).read()
    block = BEGIN + "\n" + buf.getvalue().rstrip("\n") + "\n" + END
    if BEGIN in s:
        s = re.sub(re.escape(BEGIN) + r".*?" + re.escape(END), lambda m: block, s, flags=re.S)
    else:
        s = s.replace("__SEEDED_TABLE__", block)
    open(p, "w").write(s)


if __name__ == "__main__":
    main()
