"""Shared machinery of the checks: paths, translator driver, Coq build, gates, evidence, findings."""
import fcntl
import glob
import hashlib
import json
import os
import re
import subprocess
import sys
import time

VERIF = os.path.dirname(os.path.dirname(os.path.abspath(__file__)))
REPO = os.environ.get("VERIF_REPO", "/repo")
COQ = os.path.join(VERIF, "coq")
PY = "/venv/bin/python"
NCPU = int(os.environ.get("VERIF_JOBS", "16"))
GUARD = "PYHMS_VERIF_HOOKS"

COQ_DIRS = ["Base", "Model", "Gen", "Proofs", "Props"]
GATE_RE = re.compile(
    r"\b(Admitted|admit|Axiom|Axioms|Parameter|Parameters|Conjecture|Conjectures|Admit Obligations)\b|Unset Guard|bypass_check|type-in-type|impredicative-set|Unset Positivity|Unset Universe"
)
ALLOWED_AXIOMS = {
    # standard-library axioms that Flocq's correctness lemmas over R bring in (named in the trusted base)
    "ClassicalDedekindReals.sig_forall_dec",
    "ClassicalDedekindReals.sig_not_dec",
    "FunctionalExtensionality.functional_extensionality_dep",
    "Classical_Prop.classic",
}


def env_for_impl():
    e = dict(os.environ)
    e["PYTHONPATH"] = REPO
    e.setdefault("PYTHONHASHSEED", "0")
    e[GUARD] = "1"
    e["OMP_NUM_THREADS"] = "1"
    e["OPENBLAS_NUM_THREADS"] = "1"
    e["MKL_NUM_THREADS"] = "1"
    e["MPLBACKEND"] = "Agg"
    return e


def repo_hash():
    h = hashlib.sha256()
    for p in sorted(glob.glob(os.path.join(REPO, "pyhms", "**", "*.py"), recursive=True)):
        h.update(p.encode())
        h.update(open(p, "rb").read())
    return h.hexdigest()[:16]


class RunTimeout(Exception):
    pass


class time_limit:
    """per-run limit for harness workers: `seconds` of CPU time of the worker process (ITIMER_PROF: a run is not cut off because the
    machine is busy with something else), with a wall-clock backstop of 8 x seconds for a run that sleeps.  A run of the implementation
    that does not return is cut off and the monitors judge what was recorded up to that point; comparisons BETWEEN runs (twins, seeded
    repetitions) discard a pair in which a run was cut off."""

    def __init__(self, seconds):
        self.seconds = int(seconds)

    def __enter__(self):
        import signal

        def handler(signum, frame):
            raise RunTimeout(f"run did not finish within {self.seconds} s of CPU time")
        try:
            self.old = signal.signal(signal.SIGALRM, handler)
            self.oldp = signal.signal(signal.SIGPROF, handler)
            signal.setitimer(signal.ITIMER_PROF, self.seconds)
            signal.alarm(8 * self.seconds)
        except ValueError:   # not in the main thread
            self.old = None
        return self

    def __exit__(self, *a):
        import signal
        if self.old is not None:
            signal.setitimer(signal.ITIMER_PROF, 0)
            signal.alarm(0)
            signal.signal(signal.SIGALRM, self.old)
            signal.signal(signal.SIGPROF, self.oldp)
        return False


RUN_LIMIT = int(os.environ.get("VERIF_RUN_LIMIT", "60"))


# ----------------------------------------------------------------------------- translator
def regen():
    """Re-run every translator front end on REPO's current sources.  Returns (errors, translated).
    A front end that fails leaves a Gen file that does not compile, so that every dependent obligation
    is reported as broken (fail closed)."""
    sys.path.insert(0, VERIF)
    from hv.translate import FRONT_ENDS
    from hv.translate.core import Unsupported

    errors, translated = {}, {}
    os.makedirs(os.path.join(COQ, "Gen"), exist_ok=True)
    for name, fe in FRONT_ENDS.items():
        try:
            files, fns = fe.translate(REPO)
            translated[name] = fns
        except (Unsupported, SyntaxError, OSError, KeyError, IndexError, AttributeError, ValueError, TypeError) as ex:
            errors[name] = f"{type(ex).__name__}: {ex}"
            files = {f: f"(* GENERATION FAILED: {str(ex).replace('*)', '* )')} *)\nTranslation failed.\n" for f in fe.OUTPUTS}
        for f, txt in files.items():
            p = os.path.join(COQ, "Gen", f)
            old = open(p).read() if os.path.exists(p) else None
            if old != txt:
                with open(p + ".tmp", "w") as fh:
                    fh.write(txt)
                os.replace(p + ".tmp", p)
    return errors, translated


# ----------------------------------------------------------------------------- coq build
def write_coqproject():
    lines = [f"-Q {d} HV" for d in COQ_DIRS]
    files = []
    for d in COQ_DIRS:
        files += sorted(glob.glob(os.path.join(COQ, d, "*.v")))
    lines += [os.path.relpath(f, COQ) for f in files if not os.path.basename(f).startswith("cases_")]
    txt = "\n".join(lines) + "\n"
    p = os.path.join(COQ, "_CoqProject")
    if not os.path.exists(p) or open(p).read() != txt:
        open(p, "w").write(txt)
        return True
    return False


class Lock:
    def __init__(self, name):
        self.path = os.path.join(COQ, name)

    def __enter__(self):
        self.fh = open(self.path, "w")
        fcntl.flock(self.fh, fcntl.LOCK_EX)
        return self

    def __exit__(self, *a):
        fcntl.flock(self.fh, fcntl.LOCK_UN)
        self.fh.close()


def coq_build(targets, timeout=1500):
    """(ok, log).  Regenerates the Makefile when the file list changed; incremental make."""
    with Lock(".buildlock"):
        changed = write_coqproject()
        mk = os.path.join(COQ, "Makefile")
        if changed or not os.path.exists(mk):
            subprocess.run(["coq_makefile", "-f", "_CoqProject", "-o", "Makefile"], cwd=COQ, check=True,
                           stdout=subprocess.DEVNULL, stderr=subprocess.DEVNULL)
        try:
            r = subprocess.run(["make", "-j", str(NCPU), "-k"] + targets, cwd=COQ, capture_output=True, text=True, timeout=timeout)
            return r.returncode == 0, r.stdout + r.stderr
        except subprocess.TimeoutExpired as ex:
            return False, f"TIMEOUT after {timeout}s\n{ex.stdout or ''}"


def coqc_args():
    a = []
    for d in COQ_DIRS:
        a += ["-Q", d, "HV"]
    return a


def print_assumptions(props_file):
    """Re-run coqc on the (tiny) Props file and parse what Print Assumptions printed under each theorem."""
    with Lock(".buildlock"):
        r = subprocess.run(["coqc"] + coqc_args() + [props_file], cwd=COQ, capture_output=True, text=True, timeout=600)
    out = r.stdout
    res, cur = [], None
    src = open(os.path.join(COQ, props_file)).read()
    names = re.findall(r"Print Assumptions\s+([A-Za-z0-9_']+)\s*\.", src)
    blocks = re.split(r"(?m)^(?=Closed under the global context|Axioms:)", out)
    blocks = [b for b in blocks if b.startswith("Closed under") or b.startswith("Axioms:")]
    for i, nm in enumerate(names):
        b = blocks[i] if i < len(blocks) else "<<no output>>"
        if b.startswith("Closed"):
            res.append({"theorem": nm, "axioms": []})
        else:
            ax = re.findall(r"(?m)^([A-Za-z0-9_.']+)\s*:", b[len("Axioms:"):])
            res.append({"theorem": nm, "axioms": ax})
    return r.returncode == 0, res, out + r.stderr


def deps_closure(props_file):
    """all .v files of the development that props_file transitively requires"""
    seen, todo = set(), [props_file]
    index = {}
    for d in COQ_DIRS:
        for f in glob.glob(os.path.join(COQ, d, "*.v")):
            index[os.path.basename(f)[:-2]] = os.path.relpath(f, COQ)
    while todo:
        f = todo.pop()
        if f in seen:
            continue
        seen.add(f)
        try:
            txt = open(os.path.join(COQ, f)).read()
        except OSError:
            continue
        for m in re.finditer(r"From HV Require (?:Import|Export)?\s*([^.]*)\.", txt):
            for nm in m.group(1).split():
                if nm in index:
                    todo.append(index[nm])
    return sorted(seen)


STMT_RE = re.compile(r"(?m)^\s*(?:#\[[^\]]*\]\s*)?(?:Local\s+|Global\s+)?(Theorem|Lemma|Corollary|Example|Fact|Remark|Proposition)\s+([A-Za-z0-9_']+)")


def count_obligations(files):
    """statements with a proof in the given files; discharged = those whose file's .vo is up to date"""
    total, done, names = 0, 0, []
    for f in files:
        p = os.path.join(COQ, f)
        try:
            txt = open(p).read()
        except OSError:
            continue
        st = STMT_RE.findall(txt)
        total += len(st)
        vo = p[:-2] + ".vo"
        if os.path.exists(vo) and os.path.getmtime(vo) >= os.path.getmtime(p):
            done += len(st)
        names += [f"{f}:{n}" for _, n in st]
    return total, done, names


def gate(files):
    bad = []
    for f in files:
        try:
            txt = open(os.path.join(COQ, f)).read()
        except OSError:
            continue
        txt2 = re.sub(r"\(\*.*?\*\)", "", txt, flags=re.S)
        for m in GATE_RE.finditer(txt2):
            bad.append(f"{f}: {m.group(0)}")
    return bad


# ----------------------------------------------------------------------------- findings / evidence
def known_findings():
    p = os.path.join(VERIF, "known_findings.json")
    if not os.path.exists(p):
        return []
    return json.load(open(p))["findings"]


TRUSTED_BASE = [
    "Coq 8.16.1 kernel + coqc; vm_compute (no native_compute); coqchk in the thorough tier",
    "Flocq 4 (binary64 model) and, through its correctness lemmas over R, the standard-library axioms "
    "ClassicalDedekindReals.sig_forall_dec, ClassicalDedekindReals.sig_not_dec, FunctionalExtensionality.functional_extensionality_dep (only under the F64 theorems)",
    "hv/translate (python-ast -> Gallina translator and its binding tables); Python/numpy semantics of the translated subset; for the driver front end (tree.py and the "
    "deme run_metaepoch loops): the table saying which python construct is which primitive effect of coq/Model/DriverPrim.v, and the list of calls taken to touch no modelled state",
    "no OCaml extraction is used (no Extract Constant / Extract Inductive directives): every model evaluation is vm_compute inside coqc on generated cases_*.v files; the parsing of coqc's printed lists (hv/coqrun.py)",
    "the harness: recorders installed by patching from outside /repo, oracle derivation, abs(tree), monitors",
    "python semantics the translators rely on (stated, not proved): functools.total_ordering derives a > b as (not a < b and not a == b); list.index / in / == on Individuals use __eq__; "
    "the default pickle (dill) of an object graph without customisation hooks restores every attribute, shared objects once; np.argmin returns the first minimum; sorted() is stable",
]


def write_evidence(pid, tier, seed, level, coverage, assumptions, wall, violations):
    os.makedirs(os.path.join(VERIF, "evidence"), exist_ok=True)
    ev = {"property_id": pid, "tier": tier, "seed": int(seed), "level": level, "coverage": coverage,
          "assumptions": assumptions, "wall_s": round(wall, 2), "violations": int(violations)}
    p = os.path.join(VERIF, "evidence", f"{pid}.json")
    with open(p + ".tmp", "w") as fh:
        json.dump(ev, fh, indent=1, default=str)
    os.replace(p + ".tmp", p)
    return p


def write_replay(pid, seed, n, obj):
    d = os.path.join(VERIF, "replays")
    os.makedirs(d, exist_ok=True)
    p = os.path.join(d, f"{pid}-{seed}-{n}.json")
    with open(p, "w") as fh:
        json.dump(obj, fh, indent=1, default=str)
    return p
