"""Runs batches of generated configurations on the implementation in worker processes and applies monitors."""
import multiprocessing as mp
import os
import sys
import time

from . import common


def signature(r):
    spec = r["spec"]
    ev = r["events"]
    end = ev[-1] if ev and ev[-1]["e"] == "end" else None
    nd = len(end["snap"]["demes"]) if end else 0
    sprouts = sum(1 for e in ev if e["e"] == "new") - 1
    return (tuple(l["engine"] for l in spec["levels"]), spec["gsc"]["kind"], spec["sprout"].get("generator", spec["sprout"]["kind"]),
            spec["maximize"], spec["hibernation"], min(nd, 6), min(sprouts, 4), end["m"] if end else -1)


def _work(args):
    seed, mons, force, extra = args
    sys.path.insert(0, common.VERIF)
    from hv import gen, monitors, rec
    t0 = time.time()
    spec = gen.gen_spec(seed, **(force or {}))
    try:
        with common.time_limit(common.RUN_LIMIT):
            r = rec.run_spec(spec)
    except common.RunTimeout:
        # cut off outside the recorder's own handler (while the configuration was being built): nothing to judge
        return {"seed": seed, "spec": spec, "timed_out": True, "viol": {}, "sig": None, "stats": {}, "error": {"type": "RunTimeout"}}
    except Exception as ex:
        import traceback
        return {"seed": seed, "spec": spec, "crash": traceback.format_exc()[-1200:], "viol": {}, "sig": None, "stats": {}}
    viol = {}
    for m in mons:
        try:
            viol[m] = monitors.MONITORS[m](r)
        except Exception:
            import traceback
            viol[m] = [{"key": m + "/monitor-crash", "what": traceback.format_exc()[-800:]}]
    ev = r["events"]
    stats = {"events": len(ev), "evals": sum(1 for e in ev if e["e"] == "call"), "demes": sum(1 for e in ev if e["e"] == "new"),
             "rounds": sum(1 for e in ev if e["e"] == "round_b"), "consults": sum(1 for e in ev if e["e"] == "gsc"),
             "metaepochs": (ev[-1]["m"] if ev and ev[-1]["e"] == "end" else -1), "wall": round(time.time() - t0, 2)}
    res = {"seed": seed, "spec": spec, "error": r["error"], "viol": viol, "sig": signature(r), "stats": stats}
    if extra:
        for name, fn in extra.items():
            res[name] = fn(r)
    return res


def run_batch(seeds, mons, force=None, extra=None, workers=None):
    workers = workers or common.NCPU
    ctx = mp.get_context("fork")
    with ctx.Pool(workers, maxtasksperchild=50) as pool:
        return pool.map(_work, [(s, mons, force, extra) for s in seeds], chunksize=2)
