"""C11 — each generation is bred from the generation immediately before it."""
from . import _whole


def nontrivial(r):
    return any(l["gens"] >= 2 and l["engine"] not in ("Local", "LHS", "Sobol", "Custom") for l in r["spec"]["levels"])


_whole.install(globals(), "C11",
               text="History machine, every accepted event stream: every individual of a generation is an individual of the deme's preceding generation (same genome, fitness and evaluation) or "
                    "was evaluated by that deme after the preceding generation was completed; the machine rejects a generation that needs an older generation. Tie: every recorded run is "
                    "replayed — an individual with no such source makes the trace inexpressible (the witness) — and the monitor checks that every engine call was fed exactly the previous "
                    "generation (population engines) and that CMA-ES is told what it last asked.",
               note=_whole.HIST_NOTE,
               technique="Coq invariant of the history machine over all event streams + vm_compute trace replay + parent-feed monitor on real runs",
               front_ends=["driver"], quick=200, thorough=5000, nontrivial=nontrivial, machine_replay=False, hist_replay=True,
               forces=[(2, {"cap_evals": 900}), (1, {"cap_evals": 900, "height": 1, "engines": ["DE"]}), (1, {"cap_evals": 900, "height": 2, "engines": ["SEA", "SHADE"]}),
                       (1, {"cap_evals": 900, "height": 2, "engines": ["DEdither", "CMA"]}),
                       (1, {"cap_evals": 600, "height": 1, "engines": ["SEA"], "dim": 2, "levels_patch": [{"p_mutation": 0.1, "pop": 4, "gens": 1}], "gsc": {"kind": "MetaepochLimit", "n": 40}}),
                       (1, {"cap_evals": 900, "height": 2, "engines": ["DE", "Local"], "sprout": {"kind": "simple", "far": 0.0, "level_limit": 3}, "gsc": {"kind": "MetaepochLimit", "n": 6}}),
                       (1, {"cap_evals": 600, "height": 2, "engines": ["GAStyleSEA", "CMA"], "dim": 2, "levels_patch": [{"p_mutation": 0.1, "pop": 5, "gens": 1}], "gsc": {"kind": "MetaepochLimit", "n": 30}})])

# of the driver translator's obligations only the population-freshness analysis concerns this property: the translator refuses
# (Unsupported) a run_metaepoch in which an engine is fed anything but the deme's most recent generation
FRONT_END_FILTER = {"driver": "engine fed"}
