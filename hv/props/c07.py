"""C07 — the demes always form a well-formed tree; sprout seeds come from the parent."""
from . import _whole
from ..custom_engines import custom_engines


def nontrivial(r):
    return r["stats"].get("demes", 0) > 2


_whole.install(globals(), "C07",
               text="Machine invariant WFT for every accepted event stream: a root with no parent on level 0, every other deme has exactly one parent created before it on the level above "
                    "and started no earlier, levels below the configured height only, 0 <= started_at <= metaepoch counter, structure never rewritten; demes created by a round are children "
                    "of the deme their seed came from; ids (parent's id + number of demes already on the level) are unique. Tie: machine replay comparing level/parent/started_at/flags of every deme at every boundary; the monitor checks ids, engine classes, "
                    "child lists and that every seed is an individual of the parent's population at the moment of sprouting (and in the child's initial population); sessions of trees that "
                    "each register their own deme class for one user-defined level configuration class (config_class_to_deme_class) must build demes of the class their own tree registers.",
               note="The seed clauses are decided on real rounds by the monitor and by the history machine's strict HBegin events (seed = an individual of the parent's current generation); the machine replay compares the last component of every id string.",
               technique="Coq invariant (well-formed forest) over all event streams + vm_compute trace replay against the real package",
               front_ends=["driver", "ctor"], quick=240, thorough=6000, nontrivial=nontrivial, extra_checks=[custom_engines, _whole.make_sessions("C07", {"height": 2, "sprout": {"kind": "nbc", "gen_dist": 1.0, "trunc": 1.0, "fil_dist": 0.0, "level_limit": 4}, "gsc": {"kind": "MetaepochLimit", "n": 2}})],
               forces=[(2, None), (2, {"height": 3}), (1, {"height": 3, "objective_kind": "plateau", "engines": ["SEA", "SEA", "DE"]}),
                       (1, {"height": 2, "narrowing_boxes": True, "wrappers": "none", "box_style": "sym", "objective_kind": "funnel", "engines": ["SEA", "SEA"], "dim": 2, "levels_patch": [{}, {"sample_std": 3.0}]}),
                       (1, {"height": 3, "narrowing_boxes": True, "wrappers": "none", "box_style": "sym", "engines": ["DE", "SEA", "DE"], "dim": 2, "levels_patch": [{}, {"sample_std": 3.0}, {"sample_std": 3.0}]})])
