"""C13 — maximising f behaves exactly like minimising -f."""
import random
import time

from .. import components, twin

FRONT_ENDS = ["order", "nbc", "driver"]
FRONT_END_FILTER = {"driver": "CMA-ES must be told"}
EXPLANATION = "mirror theorems for every comparison-based component on fitness keys; real components called on both formulations; twin seeded runs for index-stable engines"
ASSUMPTIONS = ["NaN fitness is outside the property (pyhms draws a coin)", "CMA-ES / scipy / qmc / numpy generators are deterministic functions of their inputs and seeds (contract X8)"]


def run(ctx):
    t0 = time.time()
    rng = random.Random(ctx.seed + 13)
    viol, done = components.mirror_check(rng, ctx.n(700, 30000))
    comp = components.run_components(ctx, ctx.n(420, 12000), "C13-components", pid="C13")
    tw = twin.run_twins(ctx, ctx.n(90, 2500))
    r5 = r5s_check(ctx, ctx.n(40, 800))
    violations = viol + tw["violations"] + r5["violations"]
    return {"evaluations": done + comp["evaluations"] + tw["evaluations"] + r5["evaluations"], "distinct_nontrivial": comp["distinct_nontrivial"] + tw["distinct_nontrivial"],
            "traces_validated_against_impl": comp["validated"] + tw["evaluations"],
            "rule": "component twin calls on (f,max) and (-f,min) with heavy ties; model vs real operators under vm_compute; twin seeded whole runs on index-stable engine mixes "
                    "(DE, SHADE, CMA-ES, L-BFGS-B, LHS, Sobol; 1-3 levels; all mechanisms) compared genome by genome; non-trivial twin = at least one sprout",
            "samples": comp["samples"][:2] + tw["samples"][:2], "violations": violations, "disagreements": comp["disagreements"],
            "distribution": {"twins": tw["distribution"], "components": comp["distribution"]},
            "notes": {"mirror_component_pairs": done, "twin_runs": tw["evaluations"], "r5s_cases": r5["evaluations"]}}


def r5s_check(ctx, n):
    """R5S selection called directly on the same individuals posed both ways: the selected genomes must coincide"""
    import numpy as np
    from pyhms.core.individual import Individual
    from pyhms.core.problem import FunctionProblem
    from pyhms.utils.r5s import R5SSelection
    rng = random.Random(ctx.seed + 5)
    viol, done = [], 0
    for _ in range(n * 5):
        m = rng.randint(3, 30)
        dim = rng.choice([1, 2, 3])
        G = [[rng.uniform(-3, 3) for _ in range(dim)] for _ in range(m)]
        fs = [rng.choice([0.0, 1.0, 2.5]) if rng.random() < 0.3 else rng.uniform(-5, 5) for _ in range(m)]
        top_k, nn = rng.randint(1, 4), rng.choice([2, 5])
        out = []
        for mx in (True, False):
            prob = FunctionProblem(lambda x: float("nan"), np.array([[-3.0, 3.0]] * dim), mx)
            inds = [Individual(np.array(g), prob, (f if mx else -f)) for g, f in zip(G, fs)]
            try:
                sel = R5SSelection(top_k)(inds, nn)
            except Exception as ex:
                sel = None
            out.append(None if sel is None else [tuple(i.genome) for i in sel])
        done += 1
        if out[0] != out[1]:
            viol.append({"key": "C13/r5s", "what": f"R5SSelection({top_k})(n={nn}) selects different solutions on (f, maximize) and (-f, minimize): fitnesses {fs}", "replay_fn": "r5s",
                         "case": {"G": G, "fs": fs, "top_k": top_k, "n": nn}})
    return {"violations": viol[:5], "evaluations": done}


def replay(ctx, data):
    if data.get("kind") == "obligation-broken":
        return False, "obligation replay: " + "; ".join(map(str, data.get("no_longer_checks", [])))[:600]
    if data.get("replay_fn") == "r5s":
        return False, "r5s case: " + str(data.get("what"))[:400]
    if data.get("replay_fn") == "twin":
        return twin.replay_twin(ctx, data)
    p = data["case"]
    a, b = components.run_case(p), components.run_case(components.mirror_params(p))
    ok = a["impl_ids"] == b["impl_ids"] or sorted(a["impl"]) == sorted(-x for x in b["impl"])
    return ok, f"component {p['kind']}: indices {a['impl_ids']} vs {b['impl_ids']}"


MANIFEST = {
    "text": "Mirror theorems on fitness keys (fkey(-x) = -fkey(x) exactly) for ALL populations and tie patterns: ordering and worse_than, best-individual queries, tournament, top-k (the k "
            "best as a multiset for any two argsorts), DE/SHADE replacement index for index, DemeLimit, LevelLimit. Tie: the real components are called on both formulations and compared, "
            "the models are compared with the real operators under vm_compute, and twin seeded whole runs on index-stable engine mixes must visit identical genomes and build identical trees; "
            "R5S selection compared on twin trees.",
    "note": "NBC's mirror law is C15's; the descent direction of CMA-ES / L-BFGS-B is decided by the twin runs (the optimisers are external). SEA-family levels are excluded from whole-run "
            "twins as the property states (selection is not index-stable). Trusted: Coq kernel, vm_compute, the harness.",
    "technique": "Coq mirror theorems on pure selection/filter models + Individual's ordering and nearest-better clustering translated from the sources and proved to be the direction-aware models + differential twin calls and twin seeded runs on the real package",
}
