"""C06 — deme lifecycle: one metaepoch per step while active; stopping is final."""
from . import _whole


def nontrivial(r):
    return r["stats"].get("demes", 0) > 1 and r["stats"].get("metaepochs", 0) >= 2


_whole.install(globals(), "C06",
               text="Theorems over every accepted event stream: between metaepochs every deme has advanced by exactly one metaepoch iff it was active and awake when the metaepoch began "
                    "(ghost d_should/d_meta0), a deme created by a round is not scheduled in that metaepoch, the running deme is active and awake, and over any number of further steps an "
                    "inactive deme stays inactive with unchanged evaluation counter and history length. Tie: machine replay (the machine has no transition that re-activates a deme, runs an "
                    "inactive one, or skips an LSC/GSC verdict) + per-step monitors on the real run (stop causes, frozen histories, started_at).",
               note="'stops exactly when LSC/GSC/engine says so' is the machine's transition relation (accepted traces only) and is measured by the monitor; the verdicts of MetaepochLimit and of FitnessSteadiness (the latter in exact rational arithmetic over the recorded history, borderline cases not judged) are recomputed by the monitor independently of what the condition answered; the contents of histories are C02/C11.",
               technique="Coq invariants (exactly-once scheduling, frozen inactive demes) over all event streams + vm_compute trace replay against the real package",
               front_ends=["driver", "stops", "ctor"], quick=240, thorough=6000, nontrivial=nontrivial,
               forces=[(4, None), (1, {"height": 2, "engines": ["SEA", "Local"], "objective_kind": "zero", "levels_patch": [{}, {"method": "L-BFGS-B"}]}),
                       (1, {"height": 2, "engines": ["DE", "Local"], "objective_kind": "plateau", "levels_patch": [{}, {"method": "L-BFGS-B"}]}),
                       (1, {"height": 3, "hibernation": True}), (1, {"height": 2, "engines": ["SHADE", "SHADE"]}),
                       (1, {"height": 2, "engines": ["SHADE", "SHADE"], "levels_patch": [{"lsc": {"kind": "MetaepochLimit", "n": 3}}, {"lsc": {"kind": "MetaepochLimit", "n": 2}}]})])
