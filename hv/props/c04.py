"""C04 — the reported best is the true best of everything kept, and never gets worse."""
import random

import numpy as np

from . import _whole


def budgets(ctx, results):
    """minimize(): fun = min of everything fun returned; for a fixed seed a larger maxfun replays the smaller run's calls as a prefix
    and never yields a worse result"""
    import warnings
    warnings.filterwarnings("ignore")
    from pyhms import minimize
    rng = random.Random(ctx.seed + 404)
    viol, samples, n, nontriv = [], [], ctx.n(5, 50), 0
    for _ in range(n):
        dim = rng.choice([2, 2, 3])
        seed = rng.randint(0, 10 ** 6)
        lo, hi = rng.choice([(-5.0, 5.0), (-0.1, 0.2), (2.0, 30.0)])
        shift = [rng.uniform(lo, hi) for _ in range(dim)]
        off = rng.choice([0.0, 25.0, -3.0])
        bs = sorted({rng.choice([5, 20, 40]), rng.choice([60, 90, 150]), rng.choice([200, 333, 500])})
        prev = None
        for b in bs:
            log = []

            def fun(x, shift=shift, log=log, off=off):
                v = float(np.sum((np.asarray(x, dtype=float) - shift) ** 2)) + off
                log.append((tuple(np.asarray(x, dtype=float).tolist()), v))
                return v
            try:
                r = minimize(fun, [(lo, hi)] * dim, maxfun=b, seed=seed, log_level="critical")
            except Exception as ex:
                samples.append({"maxfun": b, "raised": repr(ex)[:150]})
                prev = None
                break
            case = {"replay_fn": "budgets", "dim": dim, "seed": seed, "box": [lo, hi], "shift": shift, "off": off, "budgets": bs}
            best = min(v for _, v in log) if log else None
            if log and float(r.fun) != best:
                viol.append({"key": "C04/minimize-fun", "what": f"minimize(maxfun={b}, seed={seed}).fun = {float(r.fun)!r} but the minimum of everything fun returned is {best!r}", **case})
            if log and abs(fun(np.array(r.x)) - float(r.fun)) > 0 and True:
                log.pop()
                viol.append({"key": "C04/minimize-x", "what": f"minimize(maxfun={b}).fun = {float(r.fun)!r} is not fun(x) for the returned x", **case})
            else:
                log.pop() if log else None
            if prev is not None:
                plog, pfun = prev
                if log[:len(plog)] != plog:
                    j = next((i for i, (a, c) in enumerate(zip(plog, log)) if a != c), min(len(plog), len(log)))
                    viol.append({"key": "C04/budget-prefix", "what": f"seed {seed}: the calls under maxfun={b} do not start with the {len(plog)} calls made under the smaller budget (first difference at call {j})", **case})
                if float(r.fun) > pfun:
                    viol.append({"key": "C04/budget-monotone", "what": f"seed {seed}: maxfun={b} gives fun={float(r.fun)!r}, worse than {pfun!r} under the smaller budget", **case})
                nontriv += 1
            prev = (list(log), float(r.fun))
        if len(samples) < 3 and prev:
            samples.append({"seed": seed, "budgets": bs, "final_fun": prev[1], "calls": len(prev[0])})
    return {"violations": viol, "evaluations": n, "distinct_nontrivial": nontriv, "samples": samples, "notes": {"minimize_budget_ladders": n}}


def _replay(ctx, data):
    return False, "budget ladder: " + str(data.get("what"))[:400]


budgets.replay_name, budgets.replay = "budgets", _replay


def cache_pairs(ctx, results):
    """use_cache=True: two problems with different objectives in one process, same seed and box: each run's reported best is the best value
    its own objective returned"""
    import copy
    from .. import gen, monitors, rec
    rng = random.Random(ctx.seed + 444)
    viol, n = [], ctx.n(6, 60)
    for _ in range(n):
        seed = rng.randrange(1, 2 ** 31)
        a = gen.gen_spec(seed, wrappers="cache", cap_evals=400, height=rng.choice([1, 2]), objective_kind=rng.choice(["sphere", "rastrigin"]))
        b = copy.deepcopy(a)
        b["objective"] = gen.gen_objective(random.Random(seed + 1), a["dim"], a["box"], a["maximize"], "funnel")
        for spec in (a, b):
            r = rec.run_spec(spec)
            for v in monitors.c04(r)[:1]:
                viol.append(dict(v, what=("use_cache=True, second problem in the same process: " if spec is b else "") + v["what"], seed=seed, spec=spec, replay_fn="cache"))
    return {"violations": viol[:4], "evaluations": 2 * n, "distinct_nontrivial": n, "notes": {"cached_problem_pairs": n}}


def _replay_cache(ctx, data):
    return False, "cache pair: " + str(data.get("what"))[:400]


cache_pairs.replay_name, cache_pairs.replay = "cache", _replay_cache


def nontrivial(r):
    return r["stats"].get("demes", 0) > 1 and r["stats"].get("metaepochs", 0) >= 2


_whole.install(globals(), "C04",
               text="Theorems: python's max over the kept individuals is a member no member strictly beats (first of the ties), both directions; history machine, every accepted event "
                    "stream: histories only grow, hence neither any deme's best nor the tree's best ever gets worse, and the tree's best dominates every individual of every deme; every "
                    "value an engine evaluates is stored or dominated by a stored one (top-k never drops a better individual, a rejected DE/SHADE trial is not better than its surviving "
                    "parent). Tie: history replay of recorded runs, a brute-force scan of the live tree at every boundary (member / dominance / monotonicity / best ever observed), and "
                    "minimize() budget ladders (fun = min of everything returned, call log of the smaller budget is a prefix, never a worse result).",
               note="The whole-run budget-prefix corollary is closed by the differential ladders (partial: the theorem covers the cutoff wrapper's forwarding law, C16). " + _whole.HIST_NOTE,
               technique="Coq theorems on best-of / selection models + history-machine invariant + vm_compute trace replay + brute-force monitor and budget ladders on the real package",
               front_ends=["accessors", "order"], quick=200, thorough=5000, nontrivial=nontrivial, machine_replay=False, hist_replay=True, extra_checks=[budgets, cache_pairs],
               forces=[(3, {"cap_evals": 900}), (1, {"cap_evals": 900, "looking_gsc": True}), (1, {"cap_evals": 900, "maximize": True}), (1, {"cap_evals": 900, "height": 2, "engines": ["SEA", "CMA"]}),
                       # objectives undefined (NaN) on part of the box, both directions: the best is the best NUMBER kept
                       (1, {"cap_evals": 600, "objective_kind": "nanhole", "box": [[-5.0, 5.0], [-5.0, 5.0]], "dim": 2, "maximize": True}),
                       (1, {"cap_evals": 600, "objective_kind": "nanhole", "box": [[-5.0, 5.0], [-5.0, 5.0]], "dim": 2, "maximize": False})])
