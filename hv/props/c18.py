"""C18 — hibernation suspends exactly the demes that did not sprout, and never stalls."""
from . import _whole
from .. import session


def nontrivial(r):
    return r["spec"]["hibernation"] and r["stats"].get("rounds", 0) >= 2


def sessions(ctx, results):
    r = session.run_sessions(ctx, ctx.n(16, 300), ["C18"])
    known = "C18/progress/all-active-demes-hibernating"
    return {"violations": [v for v in r["violations"] if v["key"].startswith("C18")], "evaluations": r["evaluations"], "distinct_nontrivial": 0, "notes": {"session_runs": r["evaluations"]}}


def _replay_session(ctx, data):
    return session.replay_session(ctx, data, ["C18"])


sessions.replay_name, sessions.replay = "session", _replay_session


_whole.install(globals(), "C18",
               text="Machine invariant HIB for every accepted event stream: with the option on, an active non-leaf deme hibernates iff it took part in the latest round and the round took no "
                    "sprout from it; newborn demes are awake; a sleeping deme's evaluation counter and history length are frozen; the running deme is awake; with the option off nobody ever "
                    "hibernates; awake active demes are always scheduled. The progress clause is REFUTED in Coq by a witness run (known finding D11: every active deme hibernating). Tie: "
                    "machine replay (flags compared at every boundary) + monitor on real runs.",
               note="Known finding C18/progress/all-active-demes-hibernating stays open (clauses 1+2 and 3 of the property conflict in that state).",
               technique="Coq invariant over all event streams + refutation witness by vm_compute + vm_compute trace replay against the real package",
               front_ends=["driver", "ctor"], quick=240, thorough=6000, nontrivial=nontrivial, extra_checks=[sessions],
               forces=[(3, {"hibernation": True}), (1, {"hibernation": False}), (2, {"hibernation": True, "height": 3})])
