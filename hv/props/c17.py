"""C17 — bound repair lands inside the box and only moves what it must."""
import math
import random
from fractions import Fraction

import numpy as np

from ..coqrun import run_cases
from ..floatutil import bits, canon, frombits, hexb, nextn

FRONT_ENDS = ["common"]
EXPLANATION = ("Theorems on all binary64 values about the definitions regenerated from apply_bounds (Gen/GenCommon.v); "
               "bit-exact differential run of the real apply_bounds against the model evaluated by vm_compute; "
               "monitors: in-box, in-box points unchanged, clip = nearest face, reflect/toroidal congruent to the exact wrap within an ulp envelope")
ASSUMPTIONS = [
    "domain: finite x, finite lower < upper with upper-lower and x-lower not overflowing (otherwise numpy itself yields NaN)",
    "the congruence of reflect/toroidal for doubles is measured (ulp envelope), the theorem covers box membership, identity inside and clip",
]
METHODS = ["clip", "reflect", "toroidal"]
COQ_M = {"clip": "MClip", "reflect": "MReflect", "toroidal": "MToroidal"}

BOXES = [(-0.1, 0.2), (0.1, 0.3), (-5.12, 5.12), (0.0, 1.0), (-1.0, 1.0), (6.3 - 3 * math.ulp(6.3), 6.3), (1.0, nextn(1.0, 1)),
         (-1e300, 1e300), (1e-310, 3e-310), (-3.0, 7.5), (1e6, 1e6 + 1e-6), (-1e-6, 1e-6), (0.7, 0.7000001), (-2.5e-3, 1e3),
         (-0.3, -0.1), (100.1, 100.7), (-1e-300, 1e-300), (2.0 ** -1074, 2.0 ** -1070), (-math.pi, math.e), (1 / 3, 2 / 3)]


def gen_cases(rng, n):
    cases = []
    boxes = list(BOXES)
    while len(cases) < n:
        lo, hi = boxes[len(cases) % len(boxes)] if rng.random() < 0.8 else sorted((rng.uniform(-10, 10), rng.uniform(-10, 10)))
        if not lo < hi:
            continue
        r = hi - lo
        kind = rng.choice(["interior", "face", "ulp", "krange", "far", "random", "mid"])
        if kind == "interior":
            x = lo + rng.random() * r
        elif kind == "face":
            x = rng.choice([lo, hi])
        elif kind == "ulp":
            x = nextn(rng.choice([lo, hi]), rng.choice([-3, -2, -1, 1, 2, 3]))
        elif kind == "krange":
            k = rng.choice([-7, -3, -2, -1, 1, 2, 3, 4, 9, 1000])
            x = nextn(rng.choice([lo, hi]) + k * r, rng.choice([-2, -1, 0, 0, 1, 2]))
        elif kind == "far":
            x = rng.choice([-1, 1]) * 10.0 ** rng.randint(3, 18) * (1 + rng.random())
        elif kind == "mid":
            x = lo + r / 2 + rng.choice([-1, 0, 1]) * r
        else:
            x = lo + (rng.random() * 6 - 3) * r
        if not math.isfinite(x) or not math.isfinite(x - lo) or not math.isfinite(r):
            continue
        cases.append((rng.choice(METHODS), float(x), float(lo), float(hi), kind))
    return cases


def impl(cases):
    """the real apply_bounds on VECTORS whose coordinates have different boxes (numpy broadcasts per coordinate): consecutive cases of
    the same method are grouped three by three into one genome; also a second row so that the (rows x coordinates) shape is exercised"""
    from pyhms.demes.single_pop_eas.common import apply_bounds
    out = [None] * len(cases)
    np.seterr(all="ignore")
    buckets = {}

    def flush(m, idxs):
        xs = [cases[i][1] for i in idxs]
        box = np.array([[cases[i][2], cases[i][3]] for i in idxs])
        mid = [cases[i][2] + (cases[i][3] - cases[i][2]) / 2 for i in idxs]
        y = apply_bounds(np.array([xs, mid]), box, m)
        for k, i in enumerate(idxs):
            out[i] = float(y[0, k])
    for i, c in enumerate(cases):
        b = buckets.setdefault(c[0], [])
        b.append(i)
        if len(b) == 3:
            flush(c[0], b)
            buckets[c[0]] = []
    for m, b in buckets.items():
        if b:
            flush(m, b)
    return out


def monitor(m, x, lo, hi, y):
    """the property statement, executable; returns None or a description of the failure"""
    if math.isnan(y):
        return "result is NaN"
    if not (lo <= y <= hi):
        return f"result {y!r} outside the box [{lo!r}, {hi!r}]"
    if lo <= x <= hi and bits(y) != bits(x) and not (x == 0.0 and y == 0.0):
        return f"in-box point {x!r} moved to {y!r}"
    r = Fraction(hi) - Fraction(lo)
    X, Y = Fraction(x), Fraction(y)
    if m == "clip":
        want = min(max(X, Fraction(lo)), Fraction(hi))
        if Y != want:
            return f"clip gave {y!r}, nearest face point is {float(want)!r}"
        return None
    if lo <= x <= hi:
        return None
    # exact wrap / mirror, then an envelope: the implementation works with fl(hi-lo) and rounds 3-5 times,
    # each wrap accumulating the range's rounding error
    t = (X - Fraction(lo))
    k = t // r
    if m == "toroidal":
        want = Fraction(lo) + (t - k * r)
    else:
        md = t - k * r
        want = Fraction(lo) + (r - md if k % 2 else md)
    env = (abs(k) + 4) * Fraction(max(math.ulp(hi - lo), math.ulp(max(abs(lo), abs(hi))), math.ulp(x)))
    d = abs(Y - want)
    if m == "toroidal":
        d = min(d, abs(d - r))  # wrap-around at the faces is the same point modulo the range
    if d > env * 2:
        return f"{m}: result {y!r} is not congruent to the input (exact {float(want)!r}, off by {float(d)!r}, envelope {float(env)!r})"
    return None


def run(ctx):
    rng = random.Random(ctx.seed)
    n = ctx.n(2400, 60000)
    cases = gen_cases(rng, n)
    ys = impl(cases)
    violations, samples = [], []
    for (m, x, lo, hi, kind), y in zip(cases, ys):
        why = monitor(m, x, lo, hi, y)
        if why:
            violations.append({"key": f"C17/{m}", "what": why, "method": m, "x": hexb(x), "lo": hexb(lo), "hi": hexb(hi), "x_float": x, "box": [lo, hi], "got": hexb(y)})
    header = "From Coq Require Import ZArith List. Import ListNotations. From HV Require Import F64 Bounds GenCommon GenEquivCommon.\nOpen Scope Z_scope.\nDefinition c (m : method) (x lo hi : Z) : list Z := [to_bits (gen_apply_bounds m (of_bits x) (of_bits lo) (of_bits hi))]."
    terms = [f"c {COQ_M[m]} {hexb(x)} {hexb(lo)} {hexb(hi)}" for m, x, lo, hi, _ in cases]
    model, err = run_cases("C17", header, terms)
    disagreements = []
    if model is None:
        disagreements.append({"what": "model evaluation failed: " + err[-500:]})
    else:
        for (m, x, lo, hi, kind), y, mo in zip(cases, ys, model):
            if canon(bits(y)) != canon(mo[0]):
                disagreements.append({"what": f"apply_bounds({m}) x={x!r} box=({lo!r},{hi!r}): implementation {y!r} ({hexb(y)}), model {frombits(mo[0])!r} (0x{mo[0]:016X})",
                                      "method": m, "x": hexb(x), "lo": hexb(lo), "hi": hexb(hi)})
    # the exact-arithmetic model (Model/BoundsZ.v) against the real function on integer data, where double arithmetic is exact
    zcases = []
    for _ in range(max(60, n // 10)):
        lo_i = rng.randint(-40, 40)
        hi_i = lo_i + rng.randint(1, 30)
        zcases.append((rng.choice(METHODS), rng.randint(lo_i - 200, hi_i + 200), lo_i, hi_i))
    zimpl = impl([(m, float(x), float(lo_i), float(hi_i), "int") for m, x, lo_i, hi_i in zcases])
    zhdr = "From Coq Require Import ZArith List. Import ListNotations. From HV Require Import BoundsZ.\nOpen Scope Z_scope.\n"
    zname = {"clip": "clipZ", "reflect": "reflectZ", "toroidal": "toroidalZ"}
    zmodel, zerr = run_cases("C17-exact", zhdr, [f"[{zname[m]} ({x}) ({lo_i}) ({hi_i})]" for m, x, lo_i, hi_i in zcases])
    if zmodel is None:
        disagreements.append({"what": "exact-arithmetic model failed to evaluate: " + zerr[-300:]})
    else:
        for (m, x, lo_i, hi_i), y, mo in zip(zcases, zimpl, zmodel):
            if float(mo[0]) != y:
                disagreements.append({"what": f"apply_bounds({m}) on integers x={x} box=({lo_i},{hi_i}): implementation {y!r}, exact-arithmetic model {mo[0]}",
                                      "method": m, "x": hexb(float(x)), "lo": hexb(float(lo_i)), "hi": hexb(float(hi_i))})
    moved = {(m, kind) for (m, x, lo, hi, kind), y in zip(cases, ys) if bits(x) != bits(y)}
    distinct = len({(m, bits(x), bits(lo), bits(hi)) for (m, x, lo, hi, kind), y in zip(cases, ys) if bits(x) != bits(y)})
    dist = {}
    for m, x, lo, hi, kind in cases:
        dist[f"{m}/{kind}"] = dist.get(f"{m}/{kind}", 0) + 1
    for (m, x, lo, hi, kind), y in list(zip(cases, ys))[:6]:
        samples.append({"method": m, "kind": kind, "x": x, "box": [lo, hi], "impl": y, "bits": hexb(y)})
    return {"evaluations": len(cases), "distinct_nontrivial": distinct,
            "traces_validated_against_impl": len(cases) if model is not None else 0,
            "rule": "cases = (method, box from 20 awkward boxes or random, x interior/face/±1..3 ulp/k·range±ulp/far/random); "
                    "non-trivial = the repair actually moved the point; distinct by (method, x, box) bit patterns",
            "samples": samples, "violations": violations, "disagreements": disagreements[:20], "distribution": dist}


def replay(ctx, data):
    m = data["method"]
    x, lo, hi = (frombits(int(data[k], 16)) for k in ("x", "lo", "hi"))
    y = impl([(m, x, lo, hi, "replay")])[0]
    why = monitor(m, x, lo, hi, y)
    return why is None, f"apply_bounds({m}) x={x!r} box=({lo!r},{hi!r}) -> {y!r}: {why or 'ok'}"

MANIFEST = {
    "text": "Theorems over ALL binary64 values (Flocq) about the definitions regenerated from apply_bounds on every run: every method returns a point of the box "
            "(or NaN, excluded on the property's domain), in-box points are returned bit for bit, clip goes to the nearest face; the pinned tree is refuted by "
            "witnesses computed in Coq. Tie: translator + GenEquiv lemmas, plus a bit-exact differential run of the real apply_bounds against the model under vm_compute.",
    "note": "Partial: the congruence of reflect/toroidal modulo the range is proved in exact arithmetic for what the method prescribes (Model/BoundsZ.v, compared with the real "
            "function on integer data where doubles are exact); for doubles in general it is measured by the monitor within an ulp envelope. Domain: finite x and box with hi-lo and x-lo not overflowing. Trusted: Coq kernel, Flocq + stdlib real axioms, the translator, numpy mod/floor_divide "
            "semantics as transcribed in Base/F64.v (validated bit for bit on every run).",
    "technique": "Coq proof on Flocq binary64 + regenerated model (translator/GenEquiv) + bit-exact vm_compute correspondence",
}
