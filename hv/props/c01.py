"""C01 — the objective is never evaluated outside the declared box bounds."""
from . import _whole


def nontrivial(r):
    return r["spec"]["box_style"] in ("decimal", "tiny", "narrow", "asym") or any(l["engine"] in ("Local", "CMA", "CMAwarm", "CMAstds") for l in r["spec"]["levels"])


_whole.install(globals(), "C01",
               text="(a) on ALL binary64 values and every random draw: every gene produced by Gaussian mutation (toroidal repair of all genes), uniform mutation, arithmetic crossover (clip), "
                    "DE/SHADE trials (reflect + gene-wise mix) and sample_normal's rejection loop lies in the box — the repair being the definition regenerated from apply_bounds (C17); "
                    "(b) history machine, every event stream: every genome stored in any history and every seed was evaluated by the objective, so box membership of all evaluations "
                    "carries over to everything stored. Tie: translator + GenEquiv for apply_bounds, history replay of recorded runs, and the monitor testing every objective call, history "
                    "entry, seed and result against the box on boxes that are decimal, a few ulps wide, 1e+-6 wide, with optima on or beyond the faces.",
               note="External contracts measured on every trace, not proved: np.random.uniform(lo,hi) in [lo,hi] (X1), CMA-ES 'bounds' (X2), scipy 'bounds' (X3), qmc samples in [0,1) with the affine "
                    "LHS/Sobol scaling (X4; one ulp beyond the upper face is conceivable only for samples within 2^-52 of 1). NaN genes (non-finite draws) are outside the domain. " + _whole.HIST_NOTE,
               technique="Coq theorems on Flocq binary64 operators (regenerated apply_bounds) + history-machine invariant over all event streams + vm_compute trace replay + box monitor on real runs",
               quick=200, thorough=5000, nontrivial=nontrivial, front_ends=["common"], machine_replay=False, hist_replay=True,
               forces=[(3, {"cap_evals": 900}), (1, {"cap_evals": 900, "objective_kind": "linear"}), (1, {"cap_evals": 900, "height": 2, "engines": ["SEA", "Local"]}),
                       (1, {"cap_evals": 900, "height": 2, "engines": ["GAStyleSEA", "CMA"]}),
                       (1, {"cap_evals": 700, "height": 2, "dim": 5, "engines": ["SEA", "DE"], "levels_patch": [{}, {"sample_std": 8.0, "pop": 5}], "box_style": "sym"}),
                       (1, {"cap_evals": 900, "height": 2, "wrappers": "cache", "box_style": "asym", "objective_kind": "linear", "engines": ["SEA", "CMA"]}),
                       (1, {"cap_evals": 900, "height": 2, "wrappers": "cache", "box_style": "asym", "objective_kind": "sphere", "engines": ["DE", "Local"]})])
