"""C01 — the objective is never evaluated outside the declared box bounds."""
from . import _whole
from .. import ops_direct


def scaling(ctx, results):
    """LHS / Sobol scaling: the decidable per-box premise of C01_lhs_sobol_scaling is evaluated in Coq for every box the batch used, and the
    model's scale_gene is compared bit for bit with numpy's lower + sample * (upper - lower)"""
    import random
    import numpy as np
    from ..coqrun import run_cases
    from ..floatutil import bits, hexb
    rng = random.Random(ctx.seed + 111)
    boxes = []
    for r in results:
        if r.get("spec") and any(l["engine"] in ("LHS", "Sobol", "Custom") for l in r["spec"]["levels"]):
            boxes += [tuple(b) for b in r["spec"]["box"]]
    boxes = sorted(set(boxes))[:300] or [(-0.1, 0.2), (6.3, 6.300000000000002)]
    header = ("From Coq Require Import ZArith List Bool. Import ListNotations. From HV Require Import F64 Bounds Ops.\nOpen Scope Z_scope.\n"
              "Definition c (lo hi s : Z) : list Z := [(if scale_ok (of_bits lo) (of_bits hi) then 1 else 0); to_bits (scale_gene (of_bits lo) (of_bits hi) (of_bits s))].")
    cases = []
    for lo, hi in boxes:
        for s_ in (rng.random(), float(np.nextafter(1.0, 0.0)), 0.0, rng.random() * 2.0 ** -30):
            cases.append((lo, hi, s_))
    model, err = run_cases("C01-scale", header, [f"c {hexb(lo)} {hexb(hi)} {hexb(s_)}" for lo, hi, s_ in cases])
    dis, bad_boxes = [], set()
    if model is None:
        dis.append({"what": "scaling model failed to evaluate: " + err[-300:]})
    else:
        for (lo, hi, s_), mo in zip(cases, model):
            y = float(np.array([lo]) + np.array([s_]) * (np.array([hi]) - np.array([lo])))
            if bits(y) != mo[1]:
                dis.append({"what": f"scale_gene({lo!r}, {hi!r}, {s_!r}): numpy gives {y!r}, the model 0x{mo[1]:016X}"})
            if mo[0] == 0:
                bad_boxes.add((lo, hi))
    return {"violations": [], "disagreements": dis[:5], "evaluations": len(cases), "distinct_nontrivial": len(boxes),
            "notes": {"boxes_checked_for_lhs_sobol_scaling": len(boxes), "boxes_where_the_last_ulp_premise_fails": len(bad_boxes), "examples_of_such_boxes": sorted(bad_boxes)[:3]}}


def _replay_scaling(ctx, data):
    return False, str(data.get("what"))[:300]


scaling.replay_name, scaling.replay = "scaling", _replay_scaling


def operators(ctx, results):
    r = ops_direct.run_ops(ctx, ctx.n(200, 6000), "C01-ops")
    return r


def _replay_ops(ctx, data):
    return False, str(data.get("what"))[:300]


operators.replay_name, operators.replay = "ops", _replay_ops


def nontrivial(r):
    return r["spec"]["box_style"] in ("decimal", "tiny", "narrow", "asym") or any(l["engine"] in ("Local", "CMA", "CMAwarm", "CMAstds") for l in r["spec"]["levels"])


_whole.install(globals(), "C01",
               text="(a) on ALL binary64 values and every random draw: every gene produced by Gaussian mutation (toroidal repair of all genes), uniform mutation, arithmetic crossover (clip), "
                    "DE/SHADE trials (reflect + gene-wise mix), sample_normal's rejection loop and the affine LHS/Sobol scaling (for every box on which the decidable last-ulp test holds, evaluated in Coq for every generated box) lies in the box — the repair being the definition regenerated from apply_bounds (C17); "
                    "(b) history machine, every event stream: every genome stored in any history and every seed was evaluated by the objective, so box membership of all evaluations "
                    "carries over to everything stored. Tie: translator + GenEquiv for apply_bounds; the real GaussianMutation / UniformMutation / ArithmeticCrossover / DE mutation (+ dither) / Crossover driven with prepared draws and compared gene by gene, bit for bit, with the model under vm_compute; history replay of recorded runs, and the monitor testing every objective call, history "
                    "entry, seed and result against the box on boxes that are decimal, a few ulps wide, 1e+-6 wide, with optima on or beyond the faces.",
               note="External contracts measured on every trace, not proved: np.random.uniform(lo,hi) in [lo,hi] (X1), CMA-ES 'bounds' (X2), scipy 'bounds' for L-BFGS-B (X3; the property quantifies over the L-BFGS-B local deme — scipy's Powell line search was measured to probe up to 16 ulps beyond a face, so other local methods are not generated here), qmc samples in [0,1) (X4). NaN genes (non-finite draws) are outside the domain. " + _whole.HIST_NOTE,
               technique="Coq theorems on Flocq binary64 operators (regenerated apply_bounds) + history-machine invariant over all event streams + vm_compute trace replay + box monitor on real runs",
               quick=200, thorough=5000, nontrivial=nontrivial, front_ends=["common", "ops"], machine_replay=False, hist_replay=True, extra_checks=[scaling, operators],
               forces=[(3, {"cap_evals": 900, "local_method": "L-BFGS-B"}), (1, {"cap_evals": 900, "local_method": "L-BFGS-B", "objective_kind": "linear"}), (1, {"cap_evals": 900, "local_method": "l-bfgs-b", "height": 2, "engines": ["SEA", "Local"]}),
                       (1, {"cap_evals": 900, "local_method": "L-BFGS-B", "height": 2, "engines": ["GAStyleSEA", "CMA"]}),
                       (1, {"cap_evals": 700, "local_method": "L-BFGS-B", "height": 2, "dim": 5, "engines": ["SEA", "DE"], "levels_patch": [{}, {"sample_std": 8.0, "pop": 5}], "box_style": "sym"}),
                       (1, {"cap_evals": 900, "local_method": "L-BFGS-B", "height": 2, "wrappers": "cache", "box_style": "asym", "objective_kind": "linear", "engines": ["SEA", "CMA"]}),
                       (1, {"cap_evals": 900, "local_method": "L-BFGS-B", "height": 2, "wrappers": "cache", "box_style": "asym", "objective_kind": "sphere", "engines": ["DE", "Local"]})])
