"""C03 — evaluation counts are exact; evaluation budgets are hard limits."""
import random
import struct

import numpy as np

from . import _whole


def minimize_budget(ctx, results):
    """pyhms.minimize driven directly: nfev must equal the number of calls made to fun, never above maxfun"""
    import warnings
    warnings.filterwarnings("ignore")
    from pyhms import minimize
    rng = random.Random(ctx.seed + 77)
    viol, samples = [], []
    n = ctx.n(6, 60)
    nontrivial = 0
    for k in range(n):
        dim = rng.choice([2, 2, 3])
        maxfun = rng.choice([0, 1, 7, 25, 60, 150, 400, rng.randint(2, 900)])
        use_iter = rng.random() < 0.25
        seed = rng.randint(0, 10 ** 6)
        lo, hi = rng.choice([(-5.0, 5.0), (-0.1, 0.2), (1.0, 30.0)])
        shift = [rng.uniform(lo, hi) for _ in range(dim)]
        calls = [0]

        def fun(x, shift=shift, calls=calls):
            calls[0] += 1
            return float(np.sum((np.asarray(x) - shift) ** 2))
        kw = {"maxiter": rng.randint(0, 4)} if use_iter else {"maxfun": maxfun}
        try:
            r = minimize(fun, [(lo, hi)] * dim, seed=seed, log_level="critical", **kw)
        except Exception as ex:  # an exception is not a C03 matter; recorded
            samples.append({"minimize": kw, "raised": repr(ex)[:200]})
            continue
        case = {"replay_fn": "minimize_budget", "kw": kw, "dim": dim, "seed": seed, "box": [lo, hi], "shift": shift}
        if r.nfev != calls[0]:
            viol.append({"key": "C03/minimize-nfev", "what": f"minimize({kw}, seed={seed}).nfev = {r.nfev} but fun was called {calls[0]} times", **case})
        if not use_iter and calls[0] > maxfun:
            viol.append({"key": "C03/minimize-budget", "what": f"minimize(maxfun={maxfun}) called fun {calls[0]} times", **case})
        if not use_iter and calls[0] == maxfun:
            nontrivial += 1
        if len(samples) < 3:
            samples.append({"minimize": kw, "nfev": int(r.nfev), "calls": calls[0], "nit": int(r.nit)})
    return {"violations": viol, "evaluations": n, "distinct_nontrivial": nontrivial, "samples": samples,
            "notes": {"minimize_runs": n, "minimize_runs_that_exhausted_the_budget": nontrivial}}


def _replay_min(ctx, data):
    from pyhms import minimize
    calls = [0]
    shift = data["shift"]

    def fun(x):
        calls[0] += 1
        return float(np.sum((np.asarray(x) - shift) ** 2))
    r = minimize(fun, [tuple(data["box"])] * data["dim"], seed=data["seed"], log_level="critical", **data["kw"])
    ok = r.nfev == calls[0] and (("maxfun" not in data["kw"]) or calls[0] <= data["kw"]["maxfun"])
    return ok, f"minimize({data['kw']}) nfev={r.nfev} calls={calls[0]}"


minimize_budget.replay_name = "minimize_budget"
minimize_budget.replay = _replay_min


def nontrivial(r):
    return r["stats"].get("demes", 0) > 1 and r["stats"].get("consults", 0) > 3


_whole.install(globals(), "C03",
               text="Machine invariant CNT, proved for every accepted event stream of any length: in every state the sum of the demes' evaluation counters equals the number of evaluation "
                    "requests made so far (constructors, every engine iteration, every local search), also from any restored state; budgets: wrapper stacks of any depth invoke the "
                    "objective at most cutoff times (C16's model, regenerated from problem.py by the translator). Tie: machine replay of every recorded run comparing all counters at every "
                    "consult; monitors count real objective invocations per deme and per level against the reported numbers; minimize() driven with budgets 1..900 against a counting fun.",
               note="Per-level equality with the objective's real invocation count and scipy's nfev (contract X6) are decided by the monitor on every trace, not by a theorem.",
               technique="Coq invariant over all event streams of the HMS machine + vm_compute trace replay against the real package + wrapper-stack theorems on the regenerated model",
               quick=240, thorough=6000, nontrivial=nontrivial, extra_checks=[minimize_budget], front_ends=["problem", "driver", "ctor", "minimize"],
               forces=[(3, None), (1, {"gsc": {"kind": "SingularEval", "limit": 200}}), (1, {"wrappers": "shared_counting"}), (1, {"wrappers": "cutoff"}),
                       (1, {"wrappers": "cutoff", "height": 2, "engines": ["SEA", "Local"], "cutoff": 120}), (1, {"wrappers": "cutoff", "height": 2, "engines": ["DE", "CMA"]})])
