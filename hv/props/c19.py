"""C19 — a tree can be snapshotted and restored at any metaepoch boundary (partial: see MANIFEST note)."""
from .. import snapshot

FRONT_ENDS = ["driver", "persist"]
EXPLANATION = "invariants inductive from any state (resumed machine keeps them); dump/load round trip, RNG and live-tree untouched, resumed runs checked on the real package"
ASSUMPTIONS = ["dill's behaviour on the Python object graph (identity on the abstract state, engine internals restored) is not expressible in the model: decided by the harness only"]


def run(ctx):
    r = snapshot.run_snapshots(ctx, ctx.n(96, 2400))
    return {"evaluations": r["evaluations"], "distinct_nontrivial": r["distinct_nontrivial"], "traces_validated_against_impl": r["validated"],
            "rule": "generated runs (all engines, heights 1-3, hibernation forced on in half of them) are stopped at a random metaepoch boundary 0..6 (or the final one): pickle_dump + pickle_load; "
                    "deep digests (every genome / fitness bit pattern, flags, counters, seeds, children) of the live tree before and after and of the loaded tree, summary(), stop-condition "
                    "verdict, numpy and python RNG states around dump and load; the loaded tree is then run on (up to 12 metaepochs) with structure / level-limit / relative accounting / "
                    "best-monotone checks after every metaepoch; non-trivial = more than one deme at the dump; distinct by (engines, #demes, any hibernating)",
            "samples": r["samples"], "violations": r["violations"], "disagreements": [], "distribution": r["distribution"], "notes": r["notes"]}


def replay(ctx, data):
    if data.get("kind") == "obligation-broken":
        return False, "obligation replay: " + "; ".join(map(str, data.get("no_longer_checks", [])))[:600]
    return snapshot.replay_snapshot(ctx, data)


MANIFEST = {
    "text": "PARTIAL. Proved: the invariants of the HMS machine and of the history machine (structure, level limit, exact accounting, lifecycle, hibernation, true fitness, append-only "
            "histories, never-worsening best) are inductive from ANY state satisfying them, so a run resumed from a restored state keeps them, with accounting relative to the restored "
            "counters. Decided by the harness only: pickle_dump/pickle_load is the identity on the observable state, leaves the live tree and both global RNG states untouched, preserves "
            "summary() and the stop-condition verdict; the loaded tree is run on and checked for the invariants after every metaepoch.",
    "note": "dill on a Python object graph (engine internals: CMA-ES, samplers, SHADE memory) cannot be expressed in the model. Whether the resumed run equals the live continuation is "
            "measured and reported in the evidence but not required by the property. Trusted: Coq kernel, the harness.",
    "technique": "Coq: invariants inductive from any state (resumption theorem, also for the run() translated from the sources) + regenerated table of pickling customisations proved empty (translator: pickle_dump / pickle_load are the plain dump / load) + differential dump/load round-trip and resumed-run invariant checks on the real package",
}
