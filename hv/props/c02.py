"""C02 — stored individuals carry the true fitness of their genome; history is immutable."""
from . import _whole


def nontrivial(r):
    return r["stats"].get("demes", 0) > 1 and r["stats"].get("metaepochs", 0) >= 2


_whole.install(globals(), "C02",
               text="History machine, every accepted event stream: every stored individual and every seed names an evaluation made for exactly its genome that returned exactly its fitness; "
                    "every deme's history (and the evaluation log) only grows — recorded generations never change. Tie: history replay of recorded runs (bit-exact genome identity), the recorder "
                    "hashes every generation when it first sees it and again at every later snapshot (in-place mutation / buffer aliasing shows up as a changed hash), and the monitor "
                    "re-evaluates every stored genome, seed, candidate and result with a pure copy of the objective.",
               note="Object identity / aliasing is a runtime matter the Gallina model cannot express; it is covered only by the recorder's re-hashing (partial). Local search: the pair (x, fun) "
                    "scipy hands to the callback is checked against the objective by the monitor (contract X5). " + _whole.HIST_NOTE,
               technique="Coq invariant of the history machine over all event streams + vm_compute trace replay + re-evaluation monitor on real runs",
               quick=200, thorough=5000, nontrivial=nontrivial, machine_replay=False, hist_replay=True,
               forces=[(3, {"cap_evals": 900}), (1, {"cap_evals": 900, "height": 2, "engines": ["DE", "Local"]}), (1, {"cap_evals": 900, "height": 2, "engines": ["SHADE", "DE"]})])
