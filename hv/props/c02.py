"""C02 — stored individuals carry the true fitness of their genome; history is immutable."""
from . import _whole
from .. import components


def cache_pairs(ctx, results):
    """use_cache=True: two runs in one process with the same seed and box but different objectives must each carry their own objective's values"""
    import copy
    import random
    from .. import gen, monitors, rec
    rng = random.Random(ctx.seed + 222)
    viol, n, hits = [], ctx.n(6, 80), 0
    for _ in range(n):
        seed = rng.randrange(1, 2 ** 31)
        a = gen.gen_spec(seed, wrappers="cache", cap_evals=500, height=rng.choice([1, 2]), objective_kind=rng.choice(["sphere", "rastrigin"]))
        b = copy.deepcopy(a)
        b["objective"] = gen.gen_objective(random.Random(seed + 1), a["dim"], a["box"], a["maximize"], "funnel" if a["objective"]["kind"] != "funnel" else "sphere")
        for spec in (a, b):
            r = rec.run_spec(spec)
            vs = [v for v in monitors.c02(r) if v["key"].startswith("C02")]
            for v in vs[:1]:
                viol.append(dict(v, what="use_cache=True, second problem in the same process: " + v["what"] if spec is b else v["what"], seed=seed, spec=spec, replay_fn="cache"))
            hits += sum(1 for e in r["events"] if e["e"] == "req") - sum(1 for e in r["events"] if e["e"] == "call")
    return {"violations": viol[:4], "evaluations": 2 * n, "distinct_nontrivial": n, "notes": {"cached_problem_pairs": n, "cache_hits_observed": hits}}


def _replay_cache(ctx, data):
    return False, "cache pair: " + str(data.get("what"))[:400]


cache_pairs.replay_name, cache_pairs.replay = "cache", _replay_cache


def pop_components(ctx, results):
    r = components.run_components(ctx, ctx.n(1600, 40000), "C02-pop", kinds=("pop", "pop-de"), pid="C02")
    return {"violations": r["violations"], "disagreements": r["disagreements"], "evaluations": r["evaluations"], "validated": r["validated"], "distinct_nontrivial": r["distinct_nontrivial"],
            "notes": {"population_operator_cases_compared_with_model": r["validated"]}}


def _replay_pop(ctx, data):
    return False, "population operator case: " + str(data.get("what"))[:300]


pop_components.replay_name, pop_components.replay = "component", _replay_pop


def nontrivial(r):
    return r["stats"].get("demes", 0) > 1 and r["stats"].get("metaepochs", 0) >= 2


_whole.install(globals(), "C02",
               text="Population model (update_genome / evaluate / DE keep-fitness rule, any objective): after update + evaluate every row carries the objective value of its own genome, only invalidated rows are re-evaluated, a trial keeps its parent's fitness only for an identical genome (compared with the real Population and Crossover under vm_compute). History machine, every accepted event stream: every stored individual and every seed names an evaluation made for exactly its genome that returned exactly its fitness; "
                    "every deme's history (and the evaluation log) only grows — recorded generations never change. Tie: history replay of recorded runs (bit-exact genome identity), the recorder "
                    "hashes every generation when it first sees it and again at every later snapshot (in-place mutation / buffer aliasing shows up as a changed hash), and the monitor "
                    "re-evaluates every stored genome, seed, candidate and result with a pure copy of the objective.",
               note="Object identity / aliasing is a runtime matter the Gallina model cannot express; it is covered only by the recorder's re-hashing (partial). Local search: the pair (x, fun) "
                    "scipy hands to the callback is checked against the objective by the monitor (contract X5). " + _whole.HIST_NOTE,
               technique="Coq invariant of the history machine over all event streams + vm_compute trace replay + re-evaluation monitor on real runs",
               front_ends=["popops", "ctor", "driver"], front_end_filter={"driver": ("local_deme.py", "LocalDeme")}, driver_text=False, quick=200, thorough=5000, nontrivial=nontrivial, machine_replay=False, hist_replay=True, extra_checks=[cache_pairs, pop_components],
               forces=[(3, {"cap_evals": 900}), (1, {"cap_evals": 900, "height": 2, "engines": ["DE", "Local"]}), (1, {"cap_evals": 900, "height": 2, "engines": ["SHADE", "DE"]}),
                       (1, {"cap_evals": 900, "height": 3, "per_level_problems": True, "wrappers": "none"}), (1, {"cap_evals": 900, "height": 2, "per_level_problems": True, "wrappers": "counting", "engines": ["SEA", "DE"]}),
                       (1, {"cap_evals": 900, "height": 2, "engines": ["SEA", "Local"], "objective_kind": "linear", "levels_patch": [{}, {"method": "BFGS", "maxiter": 8}]}),
                       (1, {"cap_evals": 900, "height": 2, "maximize": True, "engines": ["SEA", "CMA"], "levels_patch": [{"p_mutation": 0.3}, {}]})])
