"""C20 — reports agree with the tree, and looking at a tree does not change it."""
from .. import report

FRONT_ENDS = []
EXPLANATION = "report model over reachable machine states; printed summary()/tree() parsed and compared with the model at every boundary; accessor purity probes"
ASSUMPTIONS = ["float formatting is not modelled: printed best fitness values are compared with the same format applied to the tree's own values",
               "accessor purity (no objective call, no state change, same answer twice) is a runtime matter decided by the probes, not by a theorem"]


def run(ctx):
    r = report.run_reports(ctx, ctx.n(60, 1500))
    return {"evaluations": r["evaluations"], "distinct_nontrivial": r["distinct_nontrivial"], "traces_validated_against_impl": r["validated"],
            "rule": "every metaepoch boundary of generated runs (all engines, heights 1-3, constant-zero / zero-optimum / plateau objectives for marker ties): summary() and tree() text parsed "
                    "and compared with the report model under vm_compute; 13 reporting / query accessors called twice with the tree, call log and RNG states compared around them; "
                    "non-trivial = more than one deme line; distinct by (engines, #lines, #marked lines)",
            "samples": r["samples"], "violations": r["violations"], "disagreements": r["disagreements"], "distribution": r["distribution"], "notes": {"runs": r["runs"]}}


def replay(ctx, data):
    if data.get("kind") == "obligation-broken":
        return False, "obligation replay: " + "; ".join(map(str, data.get("no_longer_checks", [])))[:600]
    return report.replay_report(ctx, data)


MANIFEST = {
    "text": "Theorems over every reachable state of the HMS machine: summary's metaepoch count, total evaluations (= all evaluation requests so far) and deme count, and the totals equal the "
            "sums over levels; the deme lines are exactly the root plus every deme that has run at least one metaepoch (a deme with children has run — machine invariant); no deme is displayed twice; each line carries "
            "its own deme's evaluation count and the *** marker is on exactly the displayed demes whose best equals the global best. Tie: at every boundary of generated runs the printed "
            "summary()/tree() is parsed and compared with the report model evaluated by vm_compute on abs(tree) (itself compared with the machine by the trace replay of C03-C08).",
    "note": "Partial: 'never invoke the objective, never change observable state, same answer twice' is decided by probes around 13 accessors on real trees (call log, deep tree digest, "
            "numpy and python RNG states), not by a theorem (pure functions in Gallina make it vacuous). Trusted: Coq kernel, vm_compute, the text parser.",
    "technique": "Coq theorems on a report model over machine states + vm_compute differential against the printed reports + purity probes on the real package",
}
