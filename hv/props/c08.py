"""C08 — the level limit on simultaneously active demes is never exceeded."""
from . import _whole


def nontrivial(r):
    # the limit actually bit: some round had more candidates than free slots (approximated by: demes on a level reached the limit)
    L = r["spec"]["sprout"].get("level_limit")
    return L is not None and r["stats"].get("demes", 0) - 1 >= L


_whole.install(globals(), "C08",
               text="Machine invariant LL for every accepted event stream, every candidate map and every verdict stream of the removing filters after LevelLimit: on every non-root level the "
                    "number of active demes never exceeds L, and a round creates at most L minus the demes active there; the filter itself leaves at most the free slots for ANY candidate "
                    "map and occupancy. Tie: machine replay recomputes LevelLimit on the recorded candidates of every round and must reproduce the demes the real run created; census monitor.",
               note="User-written filters placed after LevelLimit are assumed to only remove candidates (true of all shipped filters: C10).",
               technique="Coq invariant + pure filter theorem (count after the cut) + vm_compute trace replay against the real package",
               front_ends=["driver", "levellimit", "order"], quick=240, thorough=6000, nontrivial=nontrivial, extra_checks=[_whole.make_sessions("C08", {"height": 2, "levels_patch": [{"lsc": {"kind": "DontStop"}}, {"lsc": {"kind": "MetaepochLimit", "n": 2}}], "gsc": {"kind": "MetaepochLimit", "n": 9}})],
               forces=[(2, None), (2, {"height": 3}), (1, {"objective_kind": "plateau"}),
                       (1, {"height": 2, "engines": ["SEA", "CMA"], "sprout": {"kind": "custom", "generator": "best", "gen_dist": 1.0, "trunc": 1.0, "deme_filters": [{"kind": "Mahalanobis", "p": 0.5}], "tree_filters": [{"kind": "LevelLimit", "n": 2}], "level_limit": 2},
                            "levels_patch": [{"lsc": {"kind": "DontStop"}}, {"lsc": {"kind": "MetaepochLimit", "n": 3}}], "gsc": {"kind": "MetaepochLimit", "n": 8}})])
