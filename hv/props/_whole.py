"""Shared body of the whole-run properties: runs generated configurations on the implementation (hv.batch), applies
the property's monitors (failing-input search), replays every recorded trace through the Coq machine
(Model/Tree.v, vm_compute) and compares the machine's states with abs(tree) at every consult."""
import collections
import random

from .. import batch, histmachine, machine
from ..coqrun import run_cases


def seeds_for(ctx, n, salt=0):
    rng = random.Random(ctx.seed * 1000003 + salt)
    return [rng.randrange(1, 2 ** 31) for _ in range(n)]


def run_whole(ctx, pid, n, mons=None, force=None, nontrivial=None, machine_replay=True, salt=0, rule="", extra=None, forces=None, hist_replay=False):
    """forces: optional list of (weight, force-dict) to mix generator emphases; returns the res dict of hv.check"""
    mons = mons or [pid]
    seeds = seeds_for(ctx, n, salt)
    ex = {"case": machine.case_of} if machine_replay else {}
    if hist_replay:
        ex["hcase"] = histmachine.case_of
    if extra:
        ex.update(extra)
    results = []
    if forces:
        tot = sum(w for w, _ in forces)
        k0 = 0
        for w, f in forces:
            k = max(1, round(n * w / tot))
            results += batch.run_batch(seeds[k0:k0 + k], mons, f, ex)
            k0 += k
    else:
        results = batch.run_batch(seeds, mons, force, ex)
    violations, disagreements, samples = [], [], []
    dist = collections.Counter()
    sigs = set()
    crashes = 0
    terms, owners = [], []
    hterms, howners = [], []
    evals = 0
    for r in results:
        if r.get("timed_out"):
            dist["run-cut-off-by-the-time-limit-before-anything-was-recorded"] += 1
            continue
        if r.get("crash"):
            crashes += 1
            disagreements.append({"what": f"harness crashed on seed {r['seed']}: {r['crash'][-300:]}", "seed": r["seed"]})
            continue
        evals += r["stats"].get("evals", 0)
        eng = "/".join(l["engine"] for l in r["spec"]["levels"])
        dist["engines:" + eng] += 1
        dist["gsc:" + r["spec"]["gsc"]["kind"]] += 1
        dist["sprout:" + str(r["spec"]["sprout"].get("generator", r["spec"]["sprout"]["kind"]))] += 1
        dist["height:%d" % r["spec"]["height"]] += 1
        dist["maximize:%s" % r["spec"]["maximize"]] += 1
        dist["hibernation:%s" % r["spec"]["hibernation"]] += 1
        dist["demes:%d" % min(r["stats"].get("demes", 0), 8)] += 1
        if r.get("error"):
            dist["impl-raised:" + r["error"]["type"]] += 1
        for m in mons:
            for v in r["viol"].get(m, []):
                if m != pid and not v["key"].startswith(pid):
                    continue
                v = dict(v)
                v["seed"], v["spec"] = r["seed"], r["spec"]
                violations.append(v)
        nt = nontrivial(r) if nontrivial else (r["stats"].get("demes", 0) > 1)
        if nt and r["sig"] is not None:
            sigs.add(r["sig"])
        c = r.get("case")
        if c:
            if "term" in c:
                terms.append(c["term"])
                owners.append((r, c))
            elif "inexpressible" in c:
                disagreements.append({"what": f"trace of seed {r['seed']} cannot be expressed as machine events: {c['inexpressible'][-300:]}", "seed": r["seed"], "spec": r["spec"]})
            else:
                dist["machine-skip"] += 1
        hc = r.get("hcase")
        if hc:
            if "term" in hc:
                hterms.append(hc["term"])
                howners.append((r, hc))
            elif "inexpressible" in hc:
                msg = hc["inexpressible"][-400:]
                hit = next((frag for frag in INEXPRESSIBLE_IS_VIOLATION.get(pid, []) if frag in msg), None)
                if hit:
                    # the reason the recorded run cannot be a run of the history machine IS the property's statement failing on that run
                    violations.append({"key": f"{pid}/history-source", "what": msg.strip().splitlines()[-1][-380:], "seed": r["seed"], "spec": r["spec"], "replay_fn": "history-source"})
                else:
                    disagreements.append({"what": f"history machine, seed {r['seed']}: {msg}", "seed": r["seed"], "spec": r["spec"]})
            else:
                dist["hist-skip:" + hc.get("skip", "?")[:30]] += 1
        if len(samples) < 4 and r["sig"] is not None:
            samples.append({"seed": r["seed"], "engines": eng, "gsc": r["spec"]["gsc"], "sprout": r["spec"]["sprout"].get("generator", r["spec"]["sprout"]["kind"]),
                            "stats": r["stats"], "maximize": r["spec"]["maximize"], "hibernation": r["spec"]["hibernation"]})
    # the Coq replays are capped (source size / memory); the monitors above ran on every trace
    MAXM, MAXH = 4000, 700
    if len(terms) > MAXM:
        dist["machine-replay-capped"] = len(terms) - MAXM
        terms, owners = terms[:MAXM], owners[:MAXM]
    if len(hterms) > MAXH:
        dist["history-replay-capped"] = len(hterms) - MAXH
        hterms, howners = hterms[:MAXH], howners[:MAXH]
    replayed = 0
    if machine_replay and terms:
        out, err = run_cases(pid + "-machine", machine.HEADER, terms, shard=max(4, (len(terms) + 15) // 16))
        if out is None:
            disagreements.append({"what": "machine replay failed to evaluate: " + err[-500:]})
        else:
            for (r, c), flat in zip(owners, out):
                d = machine.compare(c["expected"], flat)
                replayed += 1
                dist["translated-run():" + {1: "performs the recorded run, same final state", 9: "recorded run did not return (not compared)", 8: "machine rejected",
                                            0: "different final state", 2: "returns early", 3: "cannot perform the recorded run"}.get(machine.code_status(flat), "no status")] += 1
                if d:
                    disagreements.append({"what": f"HMS machine vs implementation, seed {r['seed']}: {d}", "seed": r["seed"], "spec": r["spec"]})
    hreplayed, hgens = 0, 0
    if hist_replay and hterms:
        out, err = run_cases(pid + "-hist", histmachine.HEADER, hterms, shard=max(2, (len(hterms) + 15) // 16))
        if out is None:
            disagreements.append({"what": "history machine replay failed to evaluate: " + err[-500:]})
        else:
            for (r, c), got in zip(howners, out):
                d = histmachine.compare(c["expected"], got)
                hreplayed += 1
                hgens += c["meta"]["generations"]
                if d:
                    disagreements.append({"what": f"history machine vs implementation, seed {r['seed']}: {d}", "seed": r["seed"], "spec": r["spec"]})
    return {"evaluations": len(results), "distinct_nontrivial": len(sigs), "traces_validated_against_impl": max(replayed, hreplayed),
            "rule": rule or "generated whole-run configurations (hv/gen.py: engines x height 1-3 x GSC x sprout mechanism x direction x hibernation x awkward boxes); "
                            "distinct by (engines, GSC kind, generator, direction, hibernation, #demes, #sprouts, #metaepochs); non-trivial = at least one deme was sprouted",
            "samples": samples, "violations": violations, "disagreements": disagreements[:20],
            "distribution": dict(dist), "notes": {"objective_evaluations_observed": evals, "harness_crashes": crashes, "machine_traces_replayed": replayed, "history_traces_replayed": hreplayed, "generations_rebuilt_in_coq": hgens}, "_results": results}


# reasons for which a recorded run is not a run of the history machine that are, word for word, a violation of the property
INEXPRESSIBLE_IS_VIOLATION = {"C11": ["neither belonged to the preceding generation", "no engine iteration of that deme accounts for it"]}


def replay_whole(ctx, data, pid):
    """re-run exactly the configuration of a replay file and apply the property's monitor"""
    from .. import monitors, rec
    spec = data["spec"]
    r = rec.run_spec(spec)
    if data.get("replay_fn") == "history-source":
        from .. import histmachine
        hc = histmachine.case_of(r)
        if "inexpressible" in hc:
            return False, f"{pid} seed {spec.get('seed')}: {hc['inexpressible'].strip().splitlines()[-1][-380:]}"
        return True, f"{pid} seed {spec.get('seed')}: the recorded run is a run of the history machine"
    vs = monitors.MONITORS[pid](r)
    vs = [v for v in vs if v["key"] == data.get("key")] or vs
    if vs:
        return False, f"{pid} seed {spec.get('seed')}: {vs[0]['what']}"
    return True, f"{pid} seed {spec.get('seed')}: monitor found no violation"


COMMON_NOTE = ("Theorems are about the hand-written executable HMS machine (coq/Model/Tree.v: tree.py's run/run_step/run_metaepoch/run_sprout/_do_sprout, the seven "
               "run_metaepoch loops, the shipped stop conditions, LevelLimit and hibernation) for ALL event streams; the tie to /repo is the correspondence check: every "
               "recorded run of the real package is replayed through the machine by vm_compute and the machine's state is compared with abs(tree) at every consult of the "
               "global stop condition (counters, flags, structure). Engines, objective values and the verdicts of float-valued filters enter as events. Trusted: Coq kernel, "
               "vm_compute, the recorder (hv/rec.py, patches from outside the package) and the trace->event conversion (hv/machine.py).")
DRIVER_NOTE = (" Second tie (translator): pyhms/tree.py's run / run_step / run_metaepoch / run_sprout / _do_sprout / active_demes / active_non_leaves and the run_metaepoch methods of the "
               "seven deme classes are re-translated on every check into programs of an event monad (coq/Gen/GenDriver.v, hv/translate/driver_py.py); Proofs/GenEquivDriver.v proves "
               "them equal to the big-step driver of Model/Driver.v, Proofs/DriverFacts.v proves that every execution of that driver is an accepted run of the machine "
               "(run_tree_sim), so the machine theorems are theorems about the translated code (Proofs/DriverCode.v, `*_translated_*` theorems); every recorded real run is "
               "also executed by the translated run() under vm_compute and must end in the machine's final state. Trusted there: the translator's binding tables (which python "
               "construct is which primitive effect) and its list of calls that touch no modelled state.")
STOPS_NOTE = (" The shipped stop conditions (gsc.py: RootStopped, AllStopped, SingularProblemEvalLimitReached, FitnessEvalLimitReached, NoActiveNonrootDemes; usc.py: MetaepochLimit, "
              "DontStop, DontRun; lsc.py: AllChildrenStopped; with DemeTree.all_demes / n_evaluations) are translated as well (coq/Gen/GenStops.v) and proved to answer, in every state "
              "whose demes sit on configured levels, exactly the verdict the machine computes (Proofs/GenEquivStops.v); FitnessEvalLimitReached's normalisation of its `weights` argument (None / strategy name / list; "
              "_transform_weights under __call__'s guard, with the number of levels it is given) is translated too and proved equal to the weights the machine is configured "
              "with (effective_weights_ok, weights_nlevels_ok; 'equal' = the plain total, 'root' = the root level only); SingularProblemPrecisionReached is translated as a read of the hit_precision flag of the "
              "wrapper it was constructed with (Gen/GenStopsPrecision.v; with the wrapper model of Model/Problem.v: holds exactly when some forwarded value was within the precision, and "
              "latches — Proofs/GenEquivStopsPrecision.v); its verdicts in the machine replay stay oracles; of FitnessSteadiness the early return is translated and proved to be the part of the verdict the machine computes (LSteadiness n: false while fewer than n metaepochs were run), the float-valued rest is shape-checked only and an oracle.")


def install(g, pid, *, text, note, technique, quick, thorough, mons=None, forces=None, nontrivial=None, rule="", extra_checks=None,
            front_ends=(), explanation="", assumptions=(), machine_replay=True, hist_replay=False, front_end_filter=None, driver_text=True):
    """fills a property module's namespace with run / replay / MANIFEST for a whole-run property"""
    def run(ctx):
        res = run_whole(ctx, pid, ctx.n(quick, thorough), mons=mons or [pid], forces=forces, nontrivial=nontrivial, rule=rule, machine_replay=machine_replay, hist_replay=hist_replay)
        results = res.pop("_results")
        if extra_checks:
            for fn in extra_checks:
                try:
                    more = fn(ctx, results)
                except Exception:       # one extra check falling over must not throw away what the others found
                    import traceback
                    more = {"disagreements": [{"what": f"extra check {getattr(fn, '__name__', fn)} crashed: " + traceback.format_exc().strip().splitlines()[-1][:300]}]}
                res["violations"] += more.get("violations", [])
                res["disagreements"] += more.get("disagreements", [])
                res["evaluations"] += more.get("evaluations", 0)
                res["distinct_nontrivial"] += more.get("distinct_nontrivial", 0)
                res["traces_validated_against_impl"] += more.get("validated", 0)
                res.setdefault("notes", {}).update(more.get("notes", {}))
                res["samples"] += more.get("samples", [])[:3]
        return res

    def replay(ctx, data):
        if data.get("kind") == "obligation-broken":
            return False, "obligation replay: " + "; ".join(map(str, data.get("no_longer_checks", [])))[:600]
        if "replay_fn" in data and extra_checks:
            for fn in extra_checks:
                if getattr(fn, "replay_name", None) == data["replay_fn"]:
                    return fn.replay(ctx, data)
        return replay_whole(ctx, data, (mons or [pid])[0] if pid not in (mons or [pid]) else pid)
    g["run"], g["replay"] = run, replay
    g["FRONT_ENDS"] = list(front_ends)
    if front_end_filter:
        g["FRONT_END_FILTER"] = dict(front_end_filter)
    g["EXPLANATION"] = explanation or text
    g["ASSUMPTIONS"] = list(assumptions)
    FILTERS_NOTE = (" DemeLimit and LevelLimit are translated from pyhms/sprout/sprout_filters.py on every check (coq/Gen/GenFilters.v, hv/translate/filters_py.py) and proved equal, on every "
                    "candidate dictionary with distinct parents, to the filter models deme_limit / level_limit that the machine applies and the theorems are about (Proofs/GenEquivFilters.v); "
                    "python's int subtraction `limit - active` is translated to truncated subtraction on nat: faithful where active <= limit, which is the machine invariant LL.")
    ACCESSORS_NOTE = (" The accessors behind the reported best (AbstractDeme.history / all_individuals / current_population / best_current_individual / best_individual, DemeTree.best_individual / "
                      "best_leaf_individual) are translated on every check (coq/Gen/GenAccessors.v) and proved to be best_of over everything stored (Proofs/GenEquivAccessors.v); python's max() "
                      "on Individuals = best_of (first maximal element) is part of the trusted base.")
    POPOPS_NOTE = (" The numpy code of selection and fitness invalidation (Population.topk / merge / __getitem__ / update_genome, BaseSEA.select_new_population, the replacement step of DE.run and "
                   "SHADE.run, the keep-the-parent's-fitness-only-if-identical rule of the four DE operators) is translated on every check (coq/Gen/GenPop.v, hv/translate/popops_py.py: "
                   "populations as two aligned lists, np.argsort as an oracle permutation) and proved equal to the selection / population models of the theorems (Proofs/GenEquivPop.v).")
    OPS_NOTE = (" The per-gene arithmetic of the operators and samplers (GaussianMutation, UniformMutation, ArithmeticCrossover, the DE donors, SHADE's current-to-pbest donor, Crossover, the LHS / "
                "Sobol scaling, sample_normal's membership test) is translated on every check (coq/Gen/GenOps.v, hv/translate/ops_py.py: numpy's elementwise expression as a binary64 function of "
                "one gene) and proved equal to the operator model the theorems are about (Proofs/GenEquivOps.v).")
    CTOR_NOTE = (" The constructors (AbstractDeme.__init__, the __init__ of the seven deme classes, Individual.__init__ / evaluate / evaluate_population / create_population, "
                 "init_from_config, DemeTree.__init__) are translated on every check (coq/Gen/GenCtor.v, hv/translate/ctor_py.py: an object whose fields are unset until assigned, symbolic "
                 "individuals) and proved to build exactly the deme the machine's sprouting / initial step assumes: requested level and start metaepoch, active, awake, childless, history = the "
                 "start population only, every stored individual evaluated, evaluation count = individuals evaluated by the deme's own counting problem, the seed's genome in a sprouted engine "
                 "deme's start population (Proofs/GenEquivCtor.v).")
    MINIMIZE_NOTE = (" minimize() is translated on every check (coq/Gen/GenMinimize.v, hv/translate/minimize_py.py: maxfun / maxiter as option Z, only `is None` / `is not None` tests "
                     "understood) and proved to put one fresh evaluation-cutoff wrapper on the problem both levels share whenever a budget is given or defaulted (0 is a budget), to stop on "
                     "the evaluation count, and to report that wrapper's counter; by the wrapper-stack theorems fun is then invoked at most maxfun times and nfev is exactly the number of "
                     "invocations (Proofs/GenEquivMinimize.v).")
    ORDER_NOTE = (" Individual's ordering (@total_ordering over __lt__ = problem.worse_than(fitnesses), __eq__ = problem.equivalent(fitnesses)) is translated on every check "
                  "(coq/Gen/GenOrder.v) and the derived `>` proved to be 'strictly better in the problem's direction' on non-NaN doubles (Proofs/GenEquivOrder.v).")
    g["MANIFEST"] = {"text": text + (" The same for the run() translated from the current sources (code_moment theorems)." if "driver" in front_ends and pid != "C11" and driver_text else ""),
                     "note": note + " " + COMMON_NOTE + (DRIVER_NOTE if "driver" in front_ends and driver_text else "") + (STOPS_NOTE if "stops" in front_ends else "") + (ACCESSORS_NOTE if "accessors" in front_ends else "") + (POPOPS_NOTE if "popops" in front_ends else "") + (OPS_NOTE if "ops" in front_ends else "") + (FILTERS_NOTE if ("levellimit" in front_ends or "demelimit" in front_ends) else "") + (CTOR_NOTE if "ctor" in front_ends else "") + (MINIMIZE_NOTE if "minimize" in front_ends else "") + (ORDER_NOTE if "order" in front_ends else ""),
                     "technique": technique + ("; python-ast -> Gallina translation of tree.py and the deme run_metaepoch loops with a machine-checked simulation by the small-step machine" if "driver" in front_ends and pid != "C11" and driver_text else
                                               "; static population-freshness analysis in the driver translator" if pid == "C11" else "")}

HIST_NOTE = ("History theorems are about the hand-written executable history machine (coq/Model/Hist.v), which REBUILDS every generation from the sources named by the events "
             "(carried from the previous generation / evaluated by the deme since it was completed / the seed); the tie: every recorded run is converted (genomes interned, exact "
             "bit equality; hv/histmachine.py) and replayed by vm_compute, an individual that has no such source makes the trace inexpressible and is reported as the witness.")


def make_sessions(pid, force=None, quick=16, thorough=300, mons=None):
    """extra check: sessions of three trees in one process sharing one sprout mechanism (and one stop-condition object when the
    configurations agree), later ones relying on option defaults; the property's monitor is applied to every run (hv/session.py)"""
    from .. import session

    def sessions(ctx, results):
        r = session.run_sessions(ctx, ctx.n(quick, thorough), mons or [pid], force)
        return {"violations": [v for v in r["violations"] if v["key"].startswith(pid)], "evaluations": r["evaluations"], "distinct_nontrivial": 0, "notes": {"session_runs": r["evaluations"]}}

    def _replay(ctx, data):
        return session.replay_session(ctx, data, mons or [pid])
    sessions.replay_name, sessions.replay = "session", _replay
    return sessions
