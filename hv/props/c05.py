"""C05 — run() stops exactly at the global stop condition, with a bounded wind-down."""
from . import _whole


def nontrivial(r):
    # the condition first turned true inside a deme's metaepoch (so that a wind-down actually happened)
    return r["stats"].get("metaepochs", 0) >= 1 and r["spec"]["gsc"]["kind"] in ("SingularEval", "FitnessEval", "Precision", "AllStopped", "RootStopped", "NoActiveNonroot")


_whole.install(globals(), "C05",
               text="Theorems over every accepted event stream: the run ends only through a TRUE consult at a metaepoch boundary and nothing happens afterwards; a metaepoch starts only after a "
                    "FALSE boundary consult that agrees with the configured condition; at every moment steps = metaepoch counter, nothing is sprouted after the first true observation and "
                    "every deme performs at most one further engine iteration; MetaepochLimit(n) ends with exactly n, DontRun with 0. Tie: machine replay of recorded runs with the "
                    "pass-through GSC seeing every consult (the machine REJECTS a false verdict after a true one, a metaepoch without a false consult, a sprout after the observation).",
               note="nit through minimize() is checked by the C03/C05 monitors on real runs (minimize wiring is not in the machine).",
               technique="Coq invariant (wind-down ghost counters) over all event streams + vm_compute trace replay against the real package",
               quick=240, thorough=6000, nontrivial=nontrivial,
               forces=[(2, None), (1, {"gsc": {"kind": "SingularEval", "limit": 120}}), (1, {"gsc": {"kind": "FitnessEval", "limit": 300, "weights": "equal"}}),
                       (1, {"gsc": {"kind": "MetaepochLimit", "n": 3}})])
