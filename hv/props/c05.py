"""C05 — run() stops exactly at the global stop condition, with a bounded wind-down."""
from . import _whole


def minimize_nit(ctx, results):
    """minimize(maxiter=n) performs exactly n metaepochs and reports nit=n (n = 0 included); with maxfun the reported nit is the number performed"""
    import random
    import warnings
    import numpy as np
    warnings.filterwarnings("ignore")
    import pyhms.tree as tree_mod
    from pyhms import minimize
    rng = random.Random(ctx.seed + 505)
    viol, n = [], ctx.n(5, 40)
    performed = [0]
    orig = tree_mod.DemeTree.run_metaepoch

    def counting(self):
        performed[0] += 1
        return orig(self)
    tree_mod.DemeTree.run_metaepoch = counting
    try:
        for k in range(n):
            kw = {"maxiter": rng.choice([0, 0, 1, 2, 3])} if k % 2 == 0 else {"maxfun": rng.choice([0, 30, 90, 200])}
            seed = rng.randint(0, 10 ** 6)
            performed[0] = 0
            try:
                r = minimize(lambda x: float(np.sum(np.asarray(x) ** 2)), [(-3.0, 4.0)] * 2, seed=seed, log_level="critical", **kw)
            except Exception:
                continue
            case = {"replay_fn": "minimize_nit", "kw": kw, "seed": seed}
            if int(r.nit) != performed[0]:
                viol.append({"key": "C05/minimize-nit", "what": f"minimize({kw}, seed={seed}) reports nit={r.nit} after {performed[0]} metaepochs", **case})
            if "maxiter" in kw and performed[0] != kw["maxiter"]:
                viol.append({"key": "C05/minimize-maxiter", "what": f"minimize(maxiter={kw['maxiter']}) performed {performed[0]} metaepochs", **case})
            if kw.get("maxfun") == 0 and performed[0] != 0:
                viol.append({"key": "C05/minimize-maxfun0", "what": f"minimize(maxfun=0) performed {performed[0]} metaepochs", **case})
    finally:
        tree_mod.DemeTree.run_metaepoch = orig
    return {"violations": viol[:4], "evaluations": n, "distinct_nontrivial": n, "notes": {"minimize_nit_runs": n}}


def _replay_nit(ctx, data):
    return False, "minimize nit case: " + str(data.get("what"))[:300]


minimize_nit.replay_name, minimize_nit.replay = "minimize_nit", _replay_nit


def nontrivial(r):
    # the condition first turned true inside a deme's metaepoch (so that a wind-down actually happened)
    return r["stats"].get("metaepochs", 0) >= 1 and r["spec"]["gsc"]["kind"] in ("SingularEval", "FitnessEval", "Precision", "AllStopped", "RootStopped", "NoActiveNonroot")


_whole.install(globals(), "C05",
               text="Theorems over every accepted event stream: the run ends only through a TRUE consult at a metaepoch boundary and nothing happens afterwards; a metaepoch starts only after a "
                    "FALSE boundary consult that agrees with the configured condition; at every moment steps = metaepoch counter, nothing is sprouted after the first true observation and "
                    "every deme performs at most one further engine iteration; MetaepochLimit(n) ends with exactly n, DontRun with 0. Tie: machine replay of recorded runs with the "
                    "pass-through GSC seeing every consult (the machine REJECTS a false verdict after a true one, a metaepoch without a false consult, a sprout after the observation).",
               note="nit through minimize() is checked by the C03/C05 monitors on real runs (minimize wiring is not in the machine).",
               technique="Coq invariant (wind-down ghost counters) over all event streams + vm_compute trace replay against the real package",
               front_ends=["driver", "stops", "minimize"], quick=240, thorough=6000, nontrivial=nontrivial, extra_checks=[minimize_nit, _whole.make_sessions("C05", {"gsc": {"kind": "SingularEval", "limit": 150}, "height": 2})],
               forces=[(2, None), (1, {"gsc": {"kind": "SingularEval", "limit": 120}}), (1, {"gsc": {"kind": "FitnessEval", "limit": 300, "weights": "equal"}}),
                       (1, {"gsc": {"kind": "MetaepochLimit", "n": 3}})])
