"""C10 — sprout candidates come from the right populations; filters keep the best."""
from . import _whole
from .. import filters_direct


def direct(ctx, results):
    r = filters_direct.run_direct(ctx, ctx.n(900, 40000), "C10-direct")
    return {"violations": [v for v in r["violations"] if v["key"].startswith("C10")], "disagreements": r["disagreements"], "evaluations": r["evaluations"], "validated": r["validated"],
            "distinct_nontrivial": r["distinct_nontrivial"], "samples": r["samples"],
            "notes": {"direct_filter_calls": r["evaluations"], "direct_calls_compared_with_model": r["validated"], "direct_distribution": r["distribution"]}}


def _replay(ctx, data):
    return False, "direct filter case: " + str(data.get("what"))[:500]


direct.replay_name, direct.replay = "direct", _replay


def nontrivial(r):
    return r["stats"].get("rounds", 0) >= 2 and r["stats"].get("demes", 0) > 1


_whole.install(globals(), "C10",
               text="Pure theorems for ALL candidate maps, occupancies, limits and tie patterns, both directions: BestPerDeme = the first best of the current population; LevelLimit and any "
                    "chain of verdict-driven filters only remove; DemeLimit keeps exactly min(limit, available) and never drops a strictly better candidate; LevelLimit is one cut per level, "
                    "never drops a strictly better candidate and fills exactly the free slots for distinct fitness values; SkipSameSprout sound and complete for any closeness verdict. "
                    "Tie: the real filter/generator classes are called on synthetic trees (ties, several parents, 0..L active and inactive demes, 2-3 levels) and compared with the model "
                    "under vm_compute; every round of real runs goes through the same monitors and LevelLimit is recomputed by the machine replay.",
               note="np.isclose verdicts and NBC candidates are inputs of the theorems (C15 covers NBC); which demes the generators ask is decided by the monitor on real and synthetic trees.",
               technique="Coq theorems on pure filter models + vm_compute differential run against the real filter classes + monitors on recorded rounds",
               front_ends=["levellimit", "demelimit", "generators", "farfilters", "mechanism", "order"], quick=160, thorough=4000, nontrivial=nontrivial, extra_checks=[direct, _whole.make_sessions("C10", {"height": 2, "sprout": {"kind": "nbc", "gen_dist": 1.0, "trunc": 1.0, "fil_dist": 0.0, "level_limit": 4}, "gsc": {"kind": "MetaepochLimit", "n": 2}})],
               forces=[(2, None), (2, {"height": 3}), (1, {"objective_kind": "plateau"})])
