"""C15 — nearest-better clustering returns exactly the defined cluster seeds."""
from .. import nbc_direct

FRONT_ENDS = ["nbc", "generators"]
FRONT_END_FILTER = {"generators": ("NearestBetterClustering", "clustering", "NBC")}
EXPLANATION = "NBC algorithm as coded vs its definition, for all sorted fitness vectors, distance matrices and thresholds; real NearestBetterClustering vs model under vm_compute; brute-force definition and metamorphic monitors"
ASSUMPTIONS = ["pairwise distinct genomes and floor(n*truncation) >= 1 (the property's domain)",
               "distances and their mean are computed by numpy (policy 3): the model takes the recorded distance keys and threshold; the monitor re-derives the mean in exact rational "
               "arithmetic and counts decisions within 8*n ulps of the threshold as knife-edge (not compared)"]


def run(ctx):
    r = nbc_direct.run_direct(ctx, ctx.n(420, 6000), "C15-direct")
    return {"evaluations": r["evaluations"], "distinct_nontrivial": r["distinct_nontrivial"], "traces_validated_against_impl": r["validated"],
            "rule": "populations of 2-40 pairwise distinct genomes in 1-5 dimensions: uniform, clustered, integer lattices (exact distance ties), 1/16 grids (exact metamorphic transformations), "
                    "converged to 1e-9..1e-15 (near-duplicate genomes), tied fitness; both directions; factors 0.5-3; truncation 0.3-1; non-trivial = more than one seed returned",
            "samples": r["samples"], "violations": r["violations"], "disagreements": r["disagreements"], "knife_edge": r["knife_edge"], "distribution": r["distribution"]}


def replay(ctx, data):
    if data.get("kind") == "obligation-broken":
        return False, "obligation replay: " + "; ".join(map(str, data.get("no_longer_checks", [])))[:600]
    if data.get("replay_fn") == "nbc-generator":
        return False, str(data.get("what"))[:400]
    c = data["case"]
    r = nbc_direct.run_real(c["G"], c["F"], c["mx"], c["factor"], c["trunc"])
    want, kn = nbc_direct.definition(c["G"], c["F"], c["mx"], c["factor"], r["kept"], r["sorted"])
    ok = kn or set(r["out"]) == want
    return ok, f"NBC returned {sorted(r['out'])}, definition {sorted(want)}"


MANIFEST = {
    "text": "Theorems for ALL best-first sorted fitness vectors (any ties), ALL distance matrices and thresholds: the edge length the code computes is the distance to the nearest strictly "
            "better individual (the best only, for a tie with the best); cluster() returns the best plus exactly the individuals whose nearest-better distance exceeds the threshold, without "
            "duplicates, inside the truncated population; the result depends only on the sorted goodness vector and the distance matrix (order-, direction-, translation- and scale-free). "
            "Tie: the real NearestBetterClustering is run on generated populations and compared with the model under vm_compute on the recorded fitness keys, distance keys and threshold; "
            "monitors: an independent brute-force implementation of the definition and metamorphic re-runs with exact transformations only. Second tie (translator): "
            "NearestBetterClustering.__init__ / cluster / distances / _prepare_spanning_tree / _find_nearest_better / _find_root_nodes are translated on every check (coq/Gen/GenNBC.v, "
            "hv/translate/nbc_py.py) and proved to be the model the theorems are about (Proofs/GenEquivNBC.v; C15_translated_* theorems).",
    "note": "treelib's bookkeeping and the node identifier are not modelled (near-duplicate genomes are generated so that colliding identifiers would drop nodes and show up as a disagreement); "
            "numpy's norm/mean are inputs of the model (policy 3, knife-edge decisions counted). Trusted: Coq kernel, vm_compute, the harness.",
    "technique": "Coq refinement of the coded NBC algorithm to its definition + python-ast -> Gallina translation of clusterization.py proved equal to the model + vm_compute differential run against the real class + brute-force and metamorphic monitors",
}
