"""C09 — sprouts keep their distance from existing demes; centroids are current."""
from . import _whole
from .. import session
from .. import filters_direct


def direct(ctx, results):
    r = filters_direct.run_direct(ctx, ctx.n(900, 40000), "C09-direct")
    return {"violations": [v for v in r["violations"] if v["key"].startswith("C09")], "disagreements": r["disagreements"], "evaluations": r["evaluations"], "validated": r["validated"],
            "distinct_nontrivial": r["far_cases"], "samples": r["samples"][:1],
            "notes": {"direct_filter_calls": r["evaluations"], "far_enough_calls_compared_with_model": r["far_cases"]}}


def _replay(ctx, data):
    return False, "direct filter case: " + str(data.get("what"))[:500]


direct.replay_name, direct.replay = "direct", _replay


def nontrivial(r):
    return r["stats"].get("rounds", 0) >= 2 and r["stats"].get("demes", 0) > 2


def sessions(ctx, results):
    # leaves that finish after one or two metaepochs while the root keeps proposing, NBC_FarEnough comparing against ALL demes of the level
    force = {"height": 2, "sprout": {"kind": "nbc", "gen_dist": 1.0, "trunc": 1.0, "fil_dist": 1.0, "level_limit": 4}, "objective_kind": "funnel",
             "levels_patch": [{"lsc": {"kind": "DontStop"}}, {"lsc": {"kind": "MetaepochLimit", "n": 1}}], "gsc": {"kind": "MetaepochLimit", "n": 8}}
    r = session.run_sessions(ctx, ctx.n(24, 400), ["C09"], force)
    known = "C09/progress/all-active-demes-hibernating"
    return {"violations": [v for v in r["violations"] if v["key"].startswith("C09")], "evaluations": r["evaluations"], "distinct_nontrivial": 0, "notes": {"session_runs": r["evaluations"]}}


def _replay_session(ctx, data):
    return session.replay_session(ctx, data, ["C09"])


sessions.replay_name, sessions.replay = "session", _replay_session


_whole.install(globals(), "C09",
               text="Theorems for any distance function, candidates and target-level demes: a candidate survives FarEnough / NBC_FarEnough iff it is strictly farther than the threshold from the "
                    "centroid of EVERY considered deme (the active ones, or all when check_only_active is false); the centroid accessor is the mean of the current (last) generation after every "
                    "append. Tie: the real filter classes on synthetic 2-3 level trees (several parents, active and inactive demes below) compared with the model under vm_compute on numpy's "
                    "distance keys; on real runs the recorder captures every centroid read with the deme's current population (the monitor recomputes the mean) and every filter round (the "
                    "monitor recomputes every distance from the siblings' CURRENT populations).",
               note="numpy's norm and mean are oracle values (policy 3): the monitor recomputes them and skips decisions within 1e-9 relative of the threshold. MahalanobisFarEnough is outside the property.",
               technique="Coq theorem on the filter model + vm_compute differential run against the real filter classes + centroid/distance monitors on recorded rounds",
               front_ends=["farfilters", "accessors"], quick=160, thorough=4000, nontrivial=nontrivial, extra_checks=[direct, sessions],
               forces=[(2, {"height": 3}), (2, {"height": 2}), (1, {"height": 3, "engines": ["SEA", "DE", "CMA"]}),
                       (1, {"height": 2, "engines": ["SEA", "SEA"], "dim": 2, "levels_patch": [{"p_mutation": 0.1, "pop": 6}, {"p_mutation": 0.1, "pop": 6}]}),
                       (1, {"height": 3, "sprout": {"kind": "nbc", "gen_dist": 2.0, "trunc": 0.7, "fil_dist": 2.0, "level_limit": 3}})])
