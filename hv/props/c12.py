"""C12 — elitist engines never lose ground; population size is constant."""
from . import _whole
from .. import components


def comps(ctx, results):
    r = components.run_components(ctx, ctx.n(700, 30000), "C12-components", pid="C12")
    return {"violations": r["violations"], "disagreements": r["disagreements"], "evaluations": r["evaluations"], "validated": r["validated"], "distinct_nontrivial": r["distinct_nontrivial"],
            "samples": r["samples"], "notes": {"component_cases": r["evaluations"], "component_cases_compared_with_model": r["validated"], "component_distribution": r["distribution"]}}


def _replay(ctx, data):
    c = components.run_case({k: v for k, v in data["case"].items() if k not in ("impl", "impl_ids")})
    why = components.laws(c)
    return why is None, f"component {c['kind']}: {why or 'law holds'}"


comps.replay_name, comps.replay = "component", _replay


def nontrivial(r):
    return any(l["engine"] in ("DE", "DEdither", "SHADE", "SEA", "SEAWithCrossover", "GAStyleSEA", "SEAWithAdaptiveMutation") and l["gens"] >= 2 for l in r["spec"]["levels"])


_whole.install(globals(), "C12",
               text="Pure theorems on fitness keys for ALL populations, tie patterns, both directions and ANY valid argsort permutation: topk keeps exactly min(k,n) individuals none of the "
                    "dropped being strictly better; SEA selection with k_elites >= 1 keeps the size and an individual no parent beats; DE/SHADE replacement keeps the size, every survivor "
                    "is a trial or a parent, for every threshold at least as many individuals are that good afterwards, hence the k-th best never gets worse for every k. Tie: the real "
                    "Population.topk, TournamentSelection, BaseSEA.select_new_population, DE.run and SHADE.run are driven on generated inputs (heavy ties, k from 0 past n) and compared key by "
                    "key with the model under vm_compute; every consecutive generation pair of real runs is checked by the monitor (size, best, every rank).",
               note="CMA-ES's constant lambda is an external contract measured on every trace; that consecutive generations are chained (so the component laws lift to histories) is C11.",
               technique="Coq theorems on pure selection models + vm_compute differential run against the real operators + monitors on recorded generations",
               front_ends=["popops"], quick=160, thorough=4000, nontrivial=nontrivial, extra_checks=[comps], machine_replay=False,
               forces=[(3, None), (1, {"objective_kind": "plateau"}), (1, {"maximize": True}), (1, {"objective_kind": "nanhole", "box": [[-5.0, 5.0], [-5.0, 5.0]], "dim": 2}),
                       (1, {"objective_kind": "nanhole", "box": [[-5.0, 5.0], [-5.0, 5.0]], "dim": 2, "height": 1, "engines": ["DE"]}),
                       (1, {"height": 2, "narrowing_boxes": True, "wrappers": "none", "box_style": "sym", "objective_kind": "funnel", "engines": ["SEA", "DE"], "dim": 2, "levels_patch": [{}, {"sample_std": 3.0}]}),
                       (1, {"height": 2, "engines": ["SEAWithCrossover", "SEA"], "levels_patch": [{"p_mutation": 0.5, "k_elites": 1}, {"p_mutation": 0.5, "k_elites": 2}]})])
