"""C16 — problem wrappers are transparent and their counters follow simple laws."""
import math
import random

import numpy as np

from ..coqrun import run_cases
from ..floatutil import bits, canon, frombits, hexb, nextn

FRONT_ENDS = ["problem"]
EXPLANATION = ("Theorems over wrapper stacks of any depth/order and all call sequences (Proofs/ProblemFacts.v), tied to problem.py by the monadic translation "
               "of the five evaluate methods (GenEquivProblem) and by running random stacks x call sequences on the real classes against run_calls under vm_compute")
ASSUMPTIONS = ["worse_than on two NaN values is outside the property (it draws a coin); NaN objective VALUES are generated: they pass through unchanged, are counted, and are never a precision hit",
               "time.perf_counter is modelled as a constant: only the number of recorded durations is compared"]
KINDS = ["wrapper", "counting", "cutoff", "precision", "stats"]
COQK = {"wrapper": "KWrapper", "counting": "KCounting", "cutoff": "KCutoff", "precision": "KPrecision", "stats": "KStats"}


def gen_case(rng, maxdepth):
    depth = rng.randint(0, maxdepth) if rng.random() < 0.15 else rng.randint(1, maxdepth)
    mx = rng.random() < 0.5
    opt = rng.choice([0.0, 1.5, -2.25, 0.1, 1e-3])
    eps = rng.choice([0.5, 1e-3, 0.0, 0.25, 1e-9])
    stack = []
    for _ in range(depth):
        k = rng.choice(KINDS + ["cutoff", "precision"])
        if k == "cutoff":
            stack.append((k, rng.choice([0, 1, 2, 3, 5, 8])))
        elif k == "precision":
            o, e = (opt, eps) if rng.random() < 0.7 else (rng.choice([0.0, 1.0]), rng.choice([0.5, 1e-6]))
            stack.append((k, o, e))
        else:
            stack.append((k,))
    nvals = rng.randint(1, 14)
    vals = []
    for _ in range(nvals):
        c = rng.random()
        if c < 0.35:
            o, e = (opt, eps)
            ps = [p for p in stack if p[0] == "precision"]
            if ps:
                _, o, e = rng.choice(ps)
            edge = rng.choice([o + e, o - e])
            vals.append(nextn(edge, rng.choice([-2, -1, 0, 0, 1, 2])))
        elif c < 0.5:
            vals.append(opt)
        elif c < 0.6:
            vals.append(rng.choice([math.inf, -math.inf, 1e308, -1e308, 5e-324, -0.0, math.nan, math.nan]))
        else:
            vals.append(rng.uniform(-3, 3))
    return {"maximize": mx, "stack": stack, "values": vals}


def build(case):
    from pyhms.core.problem import (EvalCountingProblem, EvalCutoffProblem, FunctionProblem, PrecisionCutoffProblem,
                                    ProblemWrapper, StatsGatheringProblem)
    log = []
    vals = case["values"]

    def f(x):
        log.append(int(x[0]))
        return vals[int(x[0])]

    bounds = np.array([[-1.0, float(len(vals))], [0.0, 1.0]])
    base = FunctionProblem(f, bounds, case["maximize"])
    p = base
    objs = []
    for w in reversed(case["stack"]):
        if w[0] == "wrapper":
            p = ProblemWrapper(p)
        elif w[0] == "counting":
            p = EvalCountingProblem(p)
        elif w[0] == "cutoff":
            p = EvalCutoffProblem(p, w[1])
        elif w[0] == "precision":
            p = PrecisionCutoffProblem(p, w[1], w[2])
        else:
            p = StatsGatheringProblem(p)
        objs.append(p)
    objs.reverse()
    return base, p, objs, log, bounds


def impl(case):
    from pyhms.core.problem import get_function_problem
    base, top, objs, log, bounds = build(case)
    rets = []
    snaps = []
    for i in range(len(case["values"])):
        rets.append(float(top.evaluate(np.array([float(i), 0.5]))))
        snaps.append([state(o, w) for o, w in zip(objs, case["stack"])] + [len(log)])
    deleg = {
        "bounds_is_base": top.bounds is bounds,
        "maximize": bool(top.maximize),
        "unwrap_is_base": get_function_problem(top) is base,
        "worse": [bool(top.worse_than(a, b)) for a, b in ((1.0, 2.0), (2.0, 1.0), (1.0, 1.0), (-math.inf, 0.0))],
        # NaN against a number is deterministic in FunctionProblem (NaN is worse); the stack must answer like the innermost problem
        "worse_nan": [bool(top.worse_than(a, b)) for a, b in ((math.nan, 1.0), (1.0, math.nan))],
        "worse_nan_base": [bool(base.worse_than(a, b)) for a, b in ((math.nan, 1.0), (1.0, math.nan))],
    }
    # the same stack over an innermost Problem with its OWN comparison (tolerance-based): every wrapper must defer to it
    from pyhms.core.problem import (EvalCountingProblem, EvalCutoffProblem, PrecisionCutoffProblem, Problem, ProblemWrapper, StatsGatheringProblem)

    class TolProblem(Problem):
        def evaluate(self, genome, *a, **k):
            return 0.0

        def worse_than(self, a, b):
            return (a < b - 0.5) if case["maximize"] else (a > b + 0.5)

        @property
        def bounds(self):
            return bounds

        @property
        def maximize(self):
            return case["maximize"]
    inner = TolProblem()
    q = inner
    for w in reversed(case["stack"]):
        q = {"wrapper": lambda z: ProblemWrapper(z), "counting": lambda z: EvalCountingProblem(z), "cutoff": lambda z: EvalCutoffProblem(z, w[1]),
             "precision": lambda z: PrecisionCutoffProblem(z, w[1], w[2])}.get(w[0], lambda z: StatsGatheringProblem(z))(q)
    pairs = ((1.0, 1.2), (1.2, 1.0), (1.0, 2.0), (2.0, 1.0), (0.0, 0.5))
    deleg["custom"] = [bool(q.worse_than(a, b)) for a, b in pairs]
    deleg["custom_inner"] = [bool(inner.worse_than(a, b)) for a, b in pairs]
    return {"rets": rets, "snaps": snaps, "log": list(log), "deleg": deleg}


def state(o, w):
    if w[0] == "wrapper":
        return [-1, -1, 0, 0]
    n = int(o.n_evaluations)
    if w[0] == "precision":
        eta = -1 if o.ETA == np.inf else int(o.ETA)
        return [n, eta, int(bool(o.hit_precision)), 0]
    if w[0] == "stats":
        return [n, -1, 0, len(o.durations)]
    return [n, -1, 0, 0]


def monitor(case, out):
    """C16's statement, executable and independent of the Coq model: a plain simulation of 'forwarded' per wrapper."""
    st, vals, mx = case["stack"], case["values"], case["maximize"]
    fwd = [0] * len(st)
    eta = [None] * len(st)
    invoked = []
    sentinel = -math.inf if mx else math.inf
    for i, v in enumerate(vals):
        d = 0
        for j, w in enumerate(st):
            if w[0] == "cutoff" and fwd[j] >= w[1]:
                break
            d += 1
        val = v if d == len(st) else sentinel
        if d == len(st):
            invoked.append(i)
        for j in range(d):
            fwd[j] += 1
            w = st[j]
            if w[0] == "precision" and eta[j] is None and abs(val - w[1]) <= w[2]:
                eta[j] = fwd[j]
        got = out["rets"][i]
        if bits(got) != bits(val):
            return f"call {i}: evaluate returned {got!r}, expected {'the objective value' if d == len(st) else 'the sentinel'} {val!r}"
        snap = out["snaps"][i]
        if snap[-1] != len(invoked):
            return f"call {i}: objective invoked {snap[-1]} times, expected {len(invoked)}"
        for j, w in enumerate(st):
            if w[0] == "wrapper":
                continue
            if snap[j][0] != fwd[j]:
                return f"call {i}: wrapper {j} ({w[0]}) counts {snap[j][0]}, forwarded {fwd[j]}"
            if w[0] == "precision":
                if snap[j][1] != (-1 if eta[j] is None else eta[j]) or snap[j][2] != int(eta[j] is not None):
                    return f"call {i}: precision wrapper {j} has ETA={snap[j][1]} hit={snap[j][2]}, expected ETA={eta[j]}"
            if w[0] == "stats" and snap[j][3] != fwd[j]:
                return f"call {i}: stats wrapper {j} recorded {snap[j][3]} durations for {fwd[j]} forwarded calls"
        for j, w in enumerate(st):
            if w[0] == "cutoff" and fwd[j] > max(w[1], 0):
                return f"cutoff {w[1]} forwarded {fwd[j]} calls"
    if out["log"] != invoked:
        return f"objective call log {out['log']} differs from the calls every wrapper forwarded {invoked}"
    dl = out["deleg"]
    if not dl["bounds_is_base"] or dl["maximize"] != mx or not dl["unwrap_is_base"]:
        return f"delegation broken: {dl}"
    want = [(a < b) if mx else (a > b) for a, b in ((1.0, 2.0), (2.0, 1.0), (1.0, 1.0), (-math.inf, 0.0))]
    if dl["worse"] != want:
        return f"worse_than through the stack gives {dl['worse']}, the base problem's ordering gives {want}"
    if dl.get("worse_nan") != dl.get("worse_nan_base"):
        return f"worse_than(NaN, x) / (x, NaN) through the stack gives {dl.get('worse_nan')}, the innermost problem gives {dl.get('worse_nan_base')}"
    if dl.get("custom") != dl.get("custom_inner"):
        return f"over an innermost problem with its own comparison the stack answers {dl.get('custom')}, the innermost problem {dl.get('custom_inner')}"
    return None


def coq_term(case):
    def w(x):
        n, c, o, e = 0, 0, "(fzero false)", "(fzero false)"
        if x[0] == "cutoff":
            c = x[1]
        if x[0] == "precision":
            o, e = f"(of_bits {hexb(x[1])})", f"(of_bits {hexb(x[2])})"
        return f"({COQK[x[0]]}, mk {c} {o} {e})"
    st = "[" + "; ".join(w(x) for x in case["stack"]) + "]"
    vals = "[" + "; ".join(hexb(v) for v in case["values"]) + "]"
    return f"c {'true' if case['maximize'] else 'false'} {st} {vals}"


HEADER = """From Coq Require Import ZArith List Bool. Import ListNotations.
From HV Require Import F64 WMonad Problem GenProblem GenEquivProblem.
Open Scope Z_scope.
Definition mk (c : Z) (o e : F) : wobj := {| n_evals := 0; eval_cutoff := c; global_optima := o; precision := e; eta := None; hit_precision := false; durations := [] |}.
Definition st_out (p : kind * wobj) : list Z :=
  match fst p with KWrapper => [-1; -1; 0; 0]
  | KPrecision => [n_evals (snd p); match eta (snd p) with Some e => e | None => -1 end; if hit_precision (snd p) then 1 else 0; 0]
  | KStats => [n_evals (snd p); -1; 0; Z.of_nat (length (durations (snd p)))]
  | _ => [n_evals (snd p); -1; 0; 0] end.
(* evaluated with the GENERATED evaluate methods (gen_eval_stack), one call after the other, snapshot after each *)
Fixpoint go (f : Z -> F) (st : stack) (b : base Z) (xs : list Z) : list Z :=
  match xs with [] => [] | x :: r =>
    let '(v, (st', b')) := gen_eval_stack f st x b in
    to_bits v :: flat_map st_out st' ++ [Z.of_nat (length (b_calls b'))] ++ go f st' b' r end.
Definition c (mx : bool) (st : stack) (vals : list Z) : list Z :=
  go (fun i => of_bits (nth (Z.to_nat i) vals 0)) st {| b_max := mx; b_calls := [] |} (map Z.of_nat (seq 0 (length vals)))."""


def flatten_impl(case, out):
    res = []
    for i in range(len(case["values"])):
        res.append(canon(bits(out["rets"][i])))
        for s in out["snaps"][i][:-1]:
            res += s
        res.append(out["snaps"][i][-1])
    return res


def run(ctx):
    rng = random.Random(ctx.seed)
    n = ctx.n(1200, 40000)
    maxdepth = 4 if ctx.tier == "quick" else 7
    cases = [gen_case(rng, maxdepth) for _ in range(n)]
    # malformed stream: cutoff 0 / nested cutoffs with different budgets / empty stack
    cases += [{"maximize": m, "stack": s, "values": [0.0, 1.0, 2.0, 0.0, 3.0]} for m in (False, True) for s in (
        [("cutoff", 0)], [("cutoff", 3), ("cutoff", 1)], [("cutoff", 1), ("cutoff", 3)], [], [("precision", 0.0, 0.0), ("cutoff", 2), ("precision", 0.0, 0.0)],
        [("stats",), ("cutoff", 2), ("counting",), ("stats",)])]
    outs, violations = [], []
    for c in cases:
        o = impl(c)
        outs.append(o)
        why = monitor(c, o)
        if why:
            violations.append({"key": "C16/" + why.split(":")[0][:20], "what": why, "case": c})
    model, err = run_cases("C16", HEADER, [coq_term(c) for c in cases], shard=250)
    disagreements = []
    if model is None:
        disagreements.append({"what": "model evaluation failed: " + err[-600:]})
    else:
        for c, o, mo in zip(cases, outs, model):
            fi = flatten_impl(c, o)
            mo = [canon(x) if x > 2 ** 40 else x for x in mo]
            if fi != mo:
                disagreements.append({"what": f"stack {c['stack']} maximize={c['maximize']} values={c['values']}: implementation {fi} model {mo}", "case": c})
    sig = set()
    nontrivial = 0
    for c, o in zip(cases, outs):
        refused = any(s[-1] < i + 1 for i, s in enumerate(o["snaps"]))
        hit = any(x[2] for s in o["snaps"] for x in s[:-1])
        if refused or hit:
            s = (tuple(w[0] for w in c["stack"]), c["maximize"], refused, hit, tuple(x[1] for s in o["snaps"][-1:] for x in s[:-1]))
            if s not in sig:
                sig.add(s)
                nontrivial += 1
    dist = {"depth": {}, "kinds": {}}
    for c in cases:
        dist["depth"][len(c["stack"])] = dist["depth"].get(len(c["stack"]), 0) + 1
        for w in c["stack"]:
            dist["kinds"][w[0]] = dist["kinds"].get(w[0], 0) + 1
    dist["refused_cases"] = sum(1 for o in outs if o["snaps"] and o["snaps"][-1][-1] < len(o["rets"]))
    dist["precision_hit_cases"] = sum(1 for o in outs if any(x[2] for x in o["snaps"][-1][:-1]))
    samples = [{"case": c, "returned": o["rets"], "final": o["snaps"][-1]} for c, o in list(zip(cases, outs))[:4]]
    return {"evaluations": len(cases), "distinct_nontrivial": nontrivial,
            "traces_validated_against_impl": len(cases) if model is not None else 0,
            "rule": "random stacks (depth 0-%d over wrapper/counting/cutoff/precision/stats, both directions) x call sequences of 1-14 values (one ulp around opt±eps, ±inf, "
                    "values past the cutoff) plus a malformed stream; non-trivial = a cutoff refused or a precision was hit; distinct by (kinds, direction, refused, hit, final ETAs)" % maxdepth,
            "samples": samples, "violations": violations, "disagreements": disagreements[:20], "distribution": dist}


def replay(ctx, data):
    c = data["case"]
    c["stack"] = [tuple(w) for w in c["stack"]]
    why = monitor(c, impl(c))
    return why is None, f"stack {c['stack']} maximize={c['maximize']}: {why or 'ok'}"


MANIFEST = {
    "text": "Theorems for wrapper stacks of ANY depth and nesting order and ALL call sequences: complete characterisation of one evaluate() (eval_stack_char), transparency, "
            "kinds/direction preserved, per-wrapper projection, counter law, cutoff forwards exactly the first N calls that reach it, the budget is hard for the objective wherever "
            "the cutoff sits, precision ETA = 1-based index of the first forwarded value within the precision (test on doubles) and sticky. All 'Closed under the global context' except "
            "those mentioning float operations. Tie: the five evaluate methods are re-translated from problem.py on every run and proved equal to the model's steps; random stacks x "
            "call sequences run on the real classes and on the generated definitions under vm_compute and compared value by value and counter by counter after every call.",
    "note": "bounds/maximize/worse_than delegation and get_function_problem are tied syntactically by the translator (shape of the returning expression, no overriding subclass) and "
            "dynamically by the monitor; durations are modelled by their number only. Trusted: Coq kernel, Flocq for the precision test, the translator, Python attribute semantics.",
    "technique": "Coq proof by induction over stacks and call sequences + regenerated model (monadic translator/GenEquiv) + vm_compute differential run",
}
