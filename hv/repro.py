"""C14 harness: the same seeded configuration is run (a) twice in one process with scrambled prior states of the global numpy /
python generators, and (b) in fresh interpreter processes under different PYTHONHASHSEED values; the digests of the complete
trees (demes, ids, start metaepochs, every genome and fitness bit pattern, evaluation counts, flags) must be identical.
usage as a worker:  python -m hv.repro <seed> <seed> ...   (prints one JSON line per seed)"""
import hashlib
import json
import os
import random
import struct
import subprocess
import sys

import numpy as np

from . import common


def tree_digest(tree):
    h = hashlib.blake2b(digest_size=16)
    n = 0
    for lvl, level in enumerate(tree._levels):
        for d in level:
            h.update(repr((lvl, d._id, d._started_at, bool(d._active), bool(d._hibernating), int(d.n_evaluations), [c._id for c in d._children],
                           [[len(g) for g in me] for me in d._history])).encode())
            for me in d._history:
                for g in me:
                    for i in g:
                        h.update(np.asarray(i.genome, dtype=float).tobytes())
                        h.update(struct.pack("<d", float(i.fitness)))
                        n += 1
    h.update(repr(int(tree.metaepoch_count)).encode())
    return h.hexdigest(), n


def spec_for(seed):
    from . import gen
    rng = random.Random(seed)
    force = {"cap_evals": 1500}
    if rng.random() < 0.5:
        force["hibernation"] = rng.random() < 0.6
    c = rng.random()
    if c < 0.1:
        force.update(objective_kind="nanhole", box=[[-5.0, 5.0], [-5.0, 5.0]], dim=2)     # NaN ties are settled by the SEEDED python generator
    elif c < 0.2:
        force["wrappers"] = "cache"
    zero = rng.random() < 0.2
    if zero:   # a falsy seed is still a seed: engines that receive the seed explicitly (CMA-ES, qmc samplers) below a sprouting root
        force.update(height=2, engines=[rng.choice(["SEA", "DE", "LHS", "Sobol"]), rng.choice(["CMA", "CMAwarm", "LHS", "Sobol"])], gsc={"kind": "MetaepochLimit", "n": 5})
    spec = gen.gen_spec(seed, **force)
    if zero:
        spec["random_seed"] = 0
    return spec


def pollute(spec):
    """an earlier optimisation in the same interpreter: same seed, box and engines, a DIFFERENT objective (only meaningful with use_cache)"""
    import copy
    from . import gen
    p = copy.deepcopy(spec)
    p["objective"] = gen.gen_objective(random.Random(spec["seed"] + 9), spec["dim"], spec["box"], spec["maximize"], "funnel" if spec["objective"]["kind"] != "funnel" else "sphere")
    run_once(p, 3)


def run_once(spec, scramble, session=None):
    import warnings
    warnings.filterwarnings("ignore")
    np.seterr(all="ignore")
    import random as pyr
    import pyhms.tree as tree_mod
    from . import gen
    if scramble is not None:
        np.random.seed(scramble % (2 ** 32))
        pyr.seed(scramble * 7 + 1)
        np.random.rand(scramble % 13)
        for _ in range(scramble % 5):
            pyr.random()
    cfg, info = gen.build(spec, session=session)
    if session is not None:      # only the sprout-mechanism object is shared between the runs of a session (problem wrappers and stop conditions are built anew)
        session.pop("gsc", None)
        session.pop("gsc_key", None)
    try:
        with common.time_limit(common.RUN_LIMIT):
            tree = tree_mod.DemeTree(cfg)
            tree.run()
        dg, n = tree_digest(tree)
        return {"digest": dg, "individuals": n, "demes": sum(len(l) for l in tree._levels), "m": int(tree.metaepoch_count), "error": None}
    except Exception as ex:
        return {"digest": "raised:" + type(ex).__name__, "individuals": 0, "demes": 0, "m": -1, "error": repr(ex)[:200]}


def worker_main(argv):
    sys.path.insert(0, common.REPO)
    for a in argv:
        seed = int(a)
        spec = spec_for(seed)
        r = run_once(spec, None)
        print(json.dumps({"seed": seed, **r}), flush=True)


def run_repro(ctx, n):
    rng = random.Random(ctx.seed * 3 + 14)
    seeds = [rng.randrange(1, 2 ** 31) for _ in range(n)]
    viol, samples = [], []
    ncut = 0

    def cut(run):
        return run["digest"] == "raised:RunTimeout"
    # (b) fresh processes, different hash seeds (16 processes per hash seed value)
    outs = {}
    procs = []
    chunks = [seeds[i::8] for i in range(8)]
    for hs in ("1", "4242"):
        for ch in chunks:
            if not ch:
                continue
            env = dict(os.environ, PYTHONPATH=common.REPO + os.pathsep + common.VERIF, PYTHONHASHSEED=hs, OMP_NUM_THREADS="1", OPENBLAS_NUM_THREADS="1", MKL_NUM_THREADS="1")
            procs.append((hs, subprocess.Popen([common.PY, "-m", "hv.repro"] + [str(s) for s in ch], cwd=common.VERIF, env=env, stdout=subprocess.PIPE, stderr=subprocess.DEVNULL, text=True)))
    # (a) in this process, scrambled prior RNG state, twice
    inproc = {}
    for s in seeds:
        spec = spec_for(s)
        if spec["wrappers"] == "cache":
            pollute(spec)      # this interpreter has already optimised something else with the same seed and box (fresh processes have not)
        a = run_once(spec, 12345 + s % 1000)
        b = run_once(spec, 999 + s % 777)
        inproc[s] = (spec, a, b)
        # (c) the way a user script (and test_reproducibility) does it: the second run is given the very same sprout-mechanism object as the first
        sess = {}
        c1 = run_once(spec, 4321 + s % 999, session=sess)
        c2 = run_once(spec, 77 + s % 555, session=sess)
        if not (cut(a) or cut(c1) or cut(c2)) and not (a["digest"] == c1["digest"] == c2["digest"]):
            viol.append({"key": "C14/shared-mechanism", "what": f"seed {s} (engines {[l['engine'] for l in spec['levels']]}, tree filters {[f['kind'] for f in spec['sprout'].get('tree_filters', [])]}): "
                         f"two seeded runs of one configuration handed the same sprout-mechanism object built different trees ({c1['demes']} vs {c2['demes']} demes, "
                         f"{c1['individuals']} vs {c2['individuals']} individuals; a fresh-mechanism run: {a['demes']} demes)", "seed": s, "spec": spec, "replay_fn": "repro"})
        if a["digest"] != b["digest"] and not (cut(a) or cut(b)):
            viol.append({"key": "C14/in-process", "what": f"seed {s} (engines {[l['engine'] for l in spec['levels']]}, random_seed={spec['random_seed']}): two runs in one process with different prior "
                         f"global RNG states built different trees ({a['demes']} vs {b['demes']} demes, {a['individuals']} vs {b['individuals']} individuals)", "seed": s, "spec": spec, "replay_fn": "repro"})
    for hs, p in procs:
        out, _ = p.communicate(timeout=3000)
        for ln in out.splitlines():
            try:
                j = json.loads(ln)
            except Exception:
                continue
            outs.setdefault(j["seed"], {})[hs] = j
    compared = 0
    for s in seeds:
        spec, a, b = inproc[s]
        o = outs.get(s, {})
        if cut(a) or any(cut(j) for j in o.values()):
            ncut += 1            # a run cut off by the per-run limit is not compared with the others
            continue
        ds = {hs: j["digest"] for hs, j in o.items()}
        if len(ds) == 2:
            compared += 1
        if len(set(ds.values())) > 1 or (ds and set(ds.values()) != {a["digest"]}):
            viol.append({"key": "C14/cross-process", "what": f"seed {s} (engines {[l['engine'] for l in spec['levels']]}): trees differ between processes / PYTHONHASHSEED values: "
                         f"in-process {a['digest'][:10]} ({a['demes']} demes), " + ", ".join(f"PYTHONHASHSEED={hs}: {j['digest'][:10]} ({j['demes']} demes)" for hs, j in o.items()),
                         "seed": s, "spec": spec, "replay_fn": "repro"})
        if len(samples) < 3:
            samples.append({"seed": s, "engines": [l["engine"] for l in spec["levels"]], "hibernation": spec["hibernation"], "digest": a["digest"], "individuals": a["individuals"], "demes": a["demes"]})
    dist = {}
    for s in seeds:
        spec = inproc[s][0]
        k = "/".join(l["engine"] for l in spec["levels"])
        dist[k] = dist.get(k, 0) + 1
    dist["not-compared:run-cut-off-by-the-time-limit"] = ncut
    return {"violations": viol[:10], "evaluations": len(seeds), "cross_process_compared": compared, "samples": samples, "distribution": dist,
            "distinct_nontrivial": len({(tuple(l["engine"] for l in inproc[s][0]["levels"]), inproc[s][0]["hibernation"]) for s in seeds if inproc[s][1]["demes"] > 1}),
            "notes": {"runs_total": len(seeds) * 4, "seed_zero_cases": sum(1 for s in seeds if inproc[s][0]["random_seed"] == 0), "runs_that_raised": sum(1 for s in seeds if inproc[s][1]["error"])}}


def replay_repro(ctx, data):
    spec = data["spec"]
    a, b = run_once(spec, 5), run_once(spec, 77)
    sess = {}
    c1, c2 = run_once(spec, 6, session=sess), run_once(spec, 78, session=sess)
    return a["digest"] == b["digest"] == c1["digest"] == c2["digest"], (f"seed {spec.get('seed')}: in-process digests {a['digest'][:10]} / {b['digest'][:10]}; "
                                                                         f"sharing one sprout mechanism {c1['digest'][:10]} / {c2['digest'][:10]}")


if __name__ == "__main__":
    worker_main(sys.argv[1:])
