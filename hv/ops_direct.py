"""Bit-exact correspondence for the variational operators (coq/Model/Ops.v): the real GaussianMutation, UniformMutation,
ArithmeticCrossover, DE BinaryMutation (+ dither) and Crossover are driven with prepared random draws (numpy's generator functions are
replaced for the duration of one call) and every produced gene is compared, bit for bit, with the model evaluated by vm_compute."""
import random

import numpy as np

from .coqrun import run_cases
from .floatutil import bits, canon, hexb

HEADER = ("From Coq Require Import ZArith List Bool. Import ListNotations. From HV Require Import F64 Bounds Ops.\nOpen Scope Z_scope.\n"
          "Definition b (x : Z) := of_bits x.\n"
          "Definition g (x n : Z) (m : bool) (lo hi : Z) : Z := to_bits (gauss_full (b x) (b n) m (b lo) (b hi)).\n"
          "Definition u (m : bool) (s x : Z) : Z := to_bits (uniform_gene m (b s) (b x)).\n"
          "Definition a (al x y lo hi : Z) : Z := to_bits (arith_gene (b al) (b x) (b y) (b lo) (b hi)).\n"
          "Definition k (x lo hi : Z) : Z := to_bits (crossover_gene (b x) (b lo) (b hi)).\n"
          "Definition d (t : bool) (f r0 r1 r2 x lo hi : Z) : Z := to_bits (de_full t (b f) (b r0) (b r1) (b r2) (b x) (b lo) (b hi)).\n")
BOXES = [(-0.1, 0.2), (-5.12, 5.12), (0.0, 1.0), (6.3 - 3 * 8.881784197001252e-16, 6.3), (-1e6, 2e6), (-3.0, 7.5), (0.7, 0.7000001), (-1e-6, 1e-6), (1 / 3, 2 / 3)]


class patched:
    def __init__(self, **fns):
        self.fns = fns

    def __enter__(self):
        self.old = {k: getattr(np.random, k) for k in self.fns}
        for k, v in self.fns.items():
            setattr(np.random, k, v)

    def __exit__(self, *a):
        for k, v in self.old.items():
            setattr(np.random, k, v)


def tb(v):
    return "true" if v else "false"


def run_ops(ctx, n, tag="ops"):
    from pyhms.core.population import Population
    from pyhms.core.problem import FunctionProblem
    from pyhms.demes.single_pop_eas import de as de_mod
    from pyhms.demes.single_pop_eas import sea as sea_mod
    rng = random.Random(ctx.seed + 808)
    np.seterr(all="ignore")
    terms, impls, metas = [], [], []
    viol = []
    dist = {}
    for ci in range(n):
        kind = ["gauss", "uniform", "arith", "de", "dither"][ci % 5]
        dist[kind] = dist.get(kind, 0) + 1
        dim = rng.choice([1, 2, 3])
        size = rng.choice([2, 3, 4, 5])
        box = [rng.choice(BOXES) for _ in range(dim)]
        bounds = np.array(box, dtype=float)
        lo, hi = bounds[:, 0], bounds[:, 1]
        G = np.array([[l + rng.random() * (h - l) if rng.random() < 0.8 else rng.choice([l, h]) for l, h in box] for _ in range(size)], dtype=float)
        prob = FunctionProblem(lambda x: float(np.sum(x)), bounds, rng.random() < 0.5)
        pop = Population(G.copy(), np.array([float(np.sum(g)) for g in G]), prob)
        meta = {"kind": kind, "box": box}
        if kind == "gauss":
            std = rng.choice([0.01, 1.0, 5.0]) * float(np.mean(hi - lo))
            noise = np.array([[rng.gauss(0, std) if rng.random() < 0.9 else rng.choice([-1, 1]) * (h - l) * rng.choice([1.0, 2.0, 7.5]) for l, h in box] for _ in range(size)])
            p = rng.choice([1.0, 0.5, 0.1])
            u01 = np.array([[rng.random() for _ in box] for _ in range(size)])
            with patched(normal=lambda *a, **k: noise, rand=lambda *a, **k: u01):
                out = sea_mod.GaussianMutation(std, bounds, p)(pop)
            mask = u01 < p
            for i in range(size):
                for j in range(dim):
                    terms.append(f"[g {hexb(G[i, j])} {hexb(noise[i, j])} {tb(mask[i, j])} {hexb(lo[j])} {hexb(hi[j])}]")
                    impls.append(bits(out.genomes[i, j]))
                    metas.append(meta)
        elif kind == "uniform":
            p = rng.choice([1.0, 0.5, 0.1])
            samp = np.array([[l + rng.random() * (h - l) for l, h in box] for _ in range(size)])
            u01 = np.array([[rng.random() for _ in box] for _ in range(size)])
            with patched(uniform=lambda *a, **k: samp, rand=lambda *a, **k: u01):
                out = sea_mod.UniformMutation(bounds, p)(pop)
            mask = u01 < p
            for i in range(size):
                for j in range(dim):
                    terms.append(f"[u {tb(mask[i, j])} {hexb(samp[i, j])} {hexb(G[i, j])}]")
                    impls.append(bits(out.genomes[i, j]))
                    metas.append(meta)
        elif kind == "arith":
            p = rng.choice([1.0, 0.7, 0.2])
            draws = [rng.random() for _ in range(2 * size + 4)]
            it = iter(draws)
            with patched(rand=lambda *a, **k: next(it)):
                out = sea_mod.ArithmeticCrossover(p, False)(pop)
            it2 = iter(draws)
            for i in range(0, size, 2):
                if i == size - 1:
                    for j in range(dim):
                        terms.append(f"[k {hexb(G[i, j])} {hexb(lo[j])} {hexb(hi[j])}]")
                        impls.append(bits(out.genomes[i, j]))
                        metas.append(meta)
                    break
                if next(it2) < p:
                    al = next(it2)
                    for j in range(dim):
                        terms.append(f"[a {hexb(al)} {hexb(G[i, j])} {hexb(G[i + 1, j])} {hexb(lo[j])} {hexb(hi[j])}]")
                        impls.append(bits(out.genomes[i, j]))
                        metas.append(meta)
                        terms.append(f"[a {hexb(al)} {hexb(G[i + 1, j])} {hexb(G[i, j])} {hexb(lo[j])} {hexb(hi[j])}]")
                        impls.append(bits(out.genomes[i + 1, j]))
                        metas.append(meta)
                else:
                    for r_ in (i, i + 1):
                        for j in range(dim):
                            terms.append(f"[k {hexb(G[r_, j])} {hexb(lo[j])} {hexb(hi[j])}]")
                            impls.append(bits(out.genomes[r_, j]))
                            metas.append(meta)
        else:
            size = max(size, 4)
            G = np.array([[l + rng.random() * (h - l) for l, h in box] for _ in range(size)], dtype=float)
            pop = Population(G.copy(), np.array([float(np.sum(g)) for g in G]), prob)
            idx = np.array([rng.sample([q for q in range(size) if q != i], 3) for i in range(size)])
            randoms = G[idx]
            cr = rng.choice([0.9, 0.5, 0.1])
            chosen = np.array([[rng.random() for _ in box] for _ in range(size)])
            jr = rng.randrange(dim)
            orig_sel = de_mod.select_parents
            de_mod.select_parents = lambda population: randoms
            try:
                if kind == "de":
                    fsc = rng.choice([0.5, 0.8, 1.2])
                    mut = de_mod.BinaryMutation(fsc)(pop)
                    F = np.full((size, dim), fsc)
                else:
                    sc = np.array([rng.uniform(0.5, 1) for _ in range(size)])
                    with patched(uniform=lambda *a, **k: sc):
                        mut = de_mod.BinaryMutationWithDither()(pop)
                    F = np.repeat(sc[:, None], dim, axis=1)
                with patched(rand=lambda *a, **k: chosen.copy(), randint=lambda *a, **k: jr):
                    out = de_mod.Crossover()(pop, mut, cr)
            finally:
                de_mod.select_parents = orig_sel
            ch = chosen.copy()
            ch[jr::dim] = 0          # the code's own (row-wise) slice, reproduced literally
            take = ch <= cr
            for i in range(size):
                for j in range(dim):
                    terms.append(f"[d {tb(take[i, j])} {hexb(F[i, j])} {hexb(randoms[i, 0, j])} {hexb(randoms[i, 1, j])} {hexb(randoms[i, 2, j])} {hexb(G[i, j])} {hexb(lo[j])} {hexb(hi[j])}]")
                    impls.append(bits(out.genomes[i, j]))
                    metas.append(meta)
        # the property itself on the implementation's output
        og = out.genomes
        if np.any(og < lo) or np.any(og > hi):
            viol.append({"key": "C01/operator", "what": f"{kind} operator produced a gene outside the box {box}: {og.tolist()}", "replay_fn": "ops"})
    model, err = run_cases(tag, HEADER, terms, shard=max(50, (len(terms) + 15) // 16))
    dis = []
    if model is None:
        dis.append({"what": "operator model failed to evaluate: " + err[-400:]})
    else:
        for t, im, mo, me in zip(terms, impls, model, metas):
            if canon(im) != canon(mo[0]):
                dis.append({"what": f"{me['kind']} gene: implementation 0x{im:016X}, model 0x{mo[0]:016X}; case {t[:200]}"})
    return {"violations": viol[:5], "disagreements": dis[:8], "evaluations": len(terms), "validated": len(terms) if model is not None else 0, "distinct_nontrivial": len(set(terms)),
            "notes": {"operator_calls": n, "genes_compared_bit_for_bit": len(terms), "operator_distribution": dist}}
