"""Twin runs for C13: the same seeded configuration posed as (f, maximize) and as (-f, minimize); for engines whose selection is
index-stable the two runs must visit identical genomes and build identical trees (fitness values mirrored bit for bit)."""
import copy
import multiprocessing as mp
import random

from . import common
from .monitors import key

STABLE_ROOT = ["DE", "DEdither", "SHADE", "LHS", "Sobol"]
STABLE_MID = ["DE", "DEdither", "SHADE", "CMA", "CMAwarm", "LHS", "Custom"]
STABLE_LEAF = ["DE", "DEdither", "SHADE", "CMA", "CMAwarm", "CMAstds", "Local", "LHS", "Sobol", "Custom"]


def twin_spec(spec):
    s2 = copy.deepcopy(spec)
    s2["maximize"] = not spec["maximize"]
    s2["objective"]["negate"] = not spec["objective"].get("negate", False)
    if not s2["objective"]["negate"]:
        s2["objective"].pop("negate")
    return s2


def digest(r):
    """sequence of comparable facts of a run; fitness keys are mirrored to the minimisation formulation"""
    mx = r["spec"]["maximize"]
    sgn = -1 if mx else 1
    out = []
    for e in r["events"]:
        k = e["e"]
        if k == "gen":
            out.append(("gen", e["deme"], e["gi"], tuple((tuple(g), sgn * key(f)) for g, f in e["inds"])))
        elif k == "new":
            out.append(("new", e["id"], e["level"], e["started"], e["parent"], tuple(e["seed"][0]) if e["seed"] else None))
        elif k == "end":
            out.append(("end", e["m"], tuple((d["id"], d["lvl"], d["started"], d["active"], d["hib"], d["nev"], tuple(map(tuple, d["gens"]))) for d in e["snap"]["demes"])))
    if r["error"]:
        out.append(("raised", r["error"]["type"]))
    return out


def _work(seed):
    import sys
    sys.path.insert(0, common.VERIF)
    from hv import gen, rec
    rng = random.Random(seed)
    H = rng.choice([1, 2, 2, 3])
    engines = [rng.choice(STABLE_ROOT)] + [rng.choice(STABLE_MID) for _ in range(max(0, H - 2))] + ([rng.choice(STABLE_LEAF)] if H > 1 else [])
    spec = gen.gen_spec(seed, height=H, engines=engines)
    for lv in spec["levels"]:  # direction-blind local stop conditions only
        if lv["lsc"]["kind"] == "FitnessSteadiness":
            lv["lsc"] = {"kind": "MetaepochLimit", "n": 3}
    with common.time_limit(2 * common.RUN_LIMIT):
        a = rec.run_spec(spec)
        b = rec.run_spec(twin_spec(spec))
    da, db = digest(a), digest(b)
    cut_off = any(r.get("error") and r["error"].get("type") == "RunTimeout" for r in (a, b))
    res = {"seed": seed, "spec": spec, "engines": engines, "n_events": len(da), "demes": sum(1 for x in da if x[0] == "new"), "diff": None,
           "cut": any(e["e"] == "stage" and e["name"] == "tree:LevelLimit" for e in a["events"])}
    res["cut_off"] = cut_off
    if da != db and not cut_off:     # a run that was cut off by the per-run limit is not compared with its twin
        j = next((i for i, (x, y) in enumerate(zip(da, db)) if x != y), min(len(da), len(db)))
        xa = da[j] if j < len(da) else None
        xb = db[j] if j < len(db) else None
        res["diff"] = f"first difference at fact #{j}: (f,{'max' if spec['maximize'] else 'min'}) {str(xa)[:200]} vs mirrored formulation {str(xb)[:200]}"
    return res


def run_twins(ctx, n):
    rng = random.Random(ctx.seed * 31 + 5)
    seeds = [rng.randrange(1, 2 ** 31) for _ in range(n)]
    with mp.get_context("fork").Pool(common.NCPU, maxtasksperchild=30) as pool:
        results = pool.map(_work, seeds, chunksize=2)
    viol = []
    for r in results:
        if r["diff"]:
            viol.append({"key": "C13/twin-run", "what": f"engines {r['engines']}, seed {r['seed']}: the (f, maximize) and (-f, minimize) runs differ: {r['diff']}",
                         "seed": r["seed"], "spec": r["spec"], "replay_fn": "twin"})
    dist = {}
    for r in results:
        dist["/".join(r["engines"])] = dist.get("/".join(r["engines"]), 0) + 1
    dist["pairs-not-compared:run-cut-off-by-the-time-limit"] = sum(1 for r in results if r.get("cut_off"))
    return {"violations": viol, "evaluations": len(results), "distinct_nontrivial": len({(tuple(r["engines"]), min(r["demes"], 5)) for r in results if r["demes"] > 1}),
            "distribution": dist, "samples": [{"engines": r["engines"], "facts_compared": r["n_events"], "demes": r["demes"]} for r in results[:3]]}


def replay_twin(ctx, data):
    from . import rec
    spec = data["spec"]
    a, b = rec.run_spec(spec), rec.run_spec(twin_spec(spec))
    ok = digest(a) == digest(b)
    return ok, f"twin run seed {spec.get('seed')}: {'identical' if ok else 'the two formulations differ'}"
