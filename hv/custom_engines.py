"""C07 extra check: user-defined level configuration classes registered through TreeConfig.config_class_to_deme_class.
"Each deme is of the engine configured for its level" also when the level's engine is a user's own deme class: several trees are
built one after the other in one process, each registering ITS OWN deme class for the same user-defined configuration class (on the
root level or on the leaf level); at every metaepoch boundary every deme must be an instance of the class its own tree registers,
built-in levels keep their built-in engine, and ids / parents / levels stay well-formed."""
import random


def _classes():
    from pyhms.config import DELevelConfig
    from pyhms.demes.de_deme import DEDeme

    class NicheConfig(DELevelConfig):
        pass

    class NicheDemeA(DEDeme):
        pass

    class NicheDemeB(DEDeme):
        pass

    class NicheDemeC(DEDeme):
        pass
    return NicheConfig, [NicheDemeA, NicheDemeB, NicheDemeC]


def run_case(seed, order, custom_level):
    """order: indices into the deme classes, one tree per entry.  Returns a list of violation strings."""
    import warnings
    import numpy as np
    warnings.filterwarnings("ignore")
    from pyhms.config import DELevelConfig, TreeConfig
    from pyhms.core.problem import FunctionProblem
    from pyhms.demes.de_deme import DEDeme
    from pyhms.sprout import get_simple_sprout
    from pyhms.stop_conditions import DontStop, MetaepochLimit
    from pyhms.tree import DemeTree
    NicheConfig, demes = _classes()
    rng = random.Random(seed)
    out = []
    for k, ci in enumerate(order):
        cx, cy = rng.uniform(-3, 3), rng.uniform(-3, 3)
        problem = FunctionProblem(lambda x, cx=cx, cy=cy: float((x[0] - cx) ** 2 + (x[1] - cy) ** 2), maximize=False, bounds=np.array([[-5.0, 5.0], [-5.0, 5.0]]))
        kw = dict(generations=2, problem=problem, pop_size=12, lsc=DontStop())
        levels = [NicheConfig(**kw) if custom_level == 0 else DELevelConfig(**kw), NicheConfig(**kw) if custom_level == 1 else DELevelConfig(**kw)]
        want = [demes[ci] if custom_level == 0 else DEDeme, demes[ci] if custom_level == 1 else DEDeme]
        cfg = TreeConfig(levels, MetaepochLimit(4), get_simple_sprout(0.5, 3), options={"random_seed": rng.randint(1, 10 ** 6), "log_level": "critical", "hibernation": False},
                         config_class_to_deme_class={NicheConfig: demes[ci]})
        tree = DemeTree(cfg)

        def look(when):
            ids = set()
            for lvl, level in enumerate(tree.levels):
                for d in level:
                    if type(d) is not want[lvl]:
                        out.append(f"tree #{k + 1} of the session ({when}): deme {d.id} on level {lvl} is a {type(d).__name__}, this tree configures {want[lvl].__name__} for that level "
                                   f"(classes registered by the trees of the session, in order: {[demes[i].__name__ for i in order[:k + 1]]})")
                    if d.id in ids or d.level != lvl or (lvl > 0 and sum(1 for p in tree.levels[lvl - 1] if d in p.children) != 1):
                        out.append(f"tree #{k + 1} of the session ({when}): deme {d.id} on level {lvl} is not a well-formed tree node")
                    ids.add(d.id)
        look("after construction")
        while not tree._gsc(tree) and not out:
            tree.run_step()
            look(f"metaepoch {tree.metaepoch_count}")
        if out:
            break
    return out[:3]


def custom_engines(ctx, results):
    rng = random.Random(ctx.seed + 707)
    n = ctx.n(6, 60)
    viol, raised = [], 0
    for _ in range(n):
        seed, order, lvl = rng.randint(1, 10 ** 6), [rng.randrange(3) for _ in range(rng.choice([2, 3]))], rng.choice([0, 1, 1])
        if len(set(order)) == 1:
            order[-1] = (order[-1] + 1) % 3
        try:
            bad = run_case(seed, order, lvl)
        except Exception:
            raised += 1          # not judged
            continue
        for b in bad[:1]:
            viol.append({"key": "C07/custom-engine", "what": b, "replay_fn": "custom_engines", "case": {"seed": seed, "order": order, "custom_level": lvl}})
    return {"violations": viol[:3], "evaluations": n, "distinct_nontrivial": 0, "notes": {"custom_engine_sessions": n, "custom_engine_sessions_that_raised": raised}}


def _replay(ctx, data):
    c = data["case"]
    bad = run_case(c["seed"], c["order"], c["custom_level"])
    return (not bad), "custom-engine session: " + (bad[0] if bad else "every deme is of the class its own tree registers")


custom_engines.replay_name, custom_engines.replay = "custom_engines", _replay
