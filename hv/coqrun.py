"""Evaluate model definitions inside Coq (vm_compute) on generated case files and read the results back."""
import os
import re
import shutil
import subprocess
from concurrent.futures import ThreadPoolExecutor

from .common import COQ, NCPU, VERIF, coqc_args

WORK = os.path.join(VERIF, ".work")


def run_cases(tag, header, case_terms, wrap="{}", shard=400, timeout=900):
    """case_terms: list of Gallina terms of type Z / list Z (one per case).  Each shard file evaluates
    `[t1; t2; ...]` with vm_compute and the integers printed are returned per case as lists.
    Every case term must evaluate to a `list Z`; we print them separated by a sentinel."""
    d = os.path.join(WORK, tag)
    shutil.rmtree(d, ignore_errors=True)
    os.makedirs(d)
    shards = [case_terms[i:i + shard] for i in range(0, len(case_terms), shard)]
    files = []
    for k, sh in enumerate(shards):
        p = os.path.join(d, f"cases_{k}.v")
        with open(p, "w") as fh:
            fh.write(header + "\n")
            fh.write("Definition cases : list (list Z) := [\n" + ";\n".join(sh) + "\n].\n")
            fh.write("Eval vm_compute in cases.\n")
        files.append(p)

    def one(p):
        r = subprocess.run(["coqc"] + coqc_args() + ["-Q", d, "HVCases", p], cwd=COQ, capture_output=True, text=True, timeout=timeout)
        if r.returncode != 0:
            return None, r.stdout + r.stderr
        return parse_list_of_lists(r.stdout), None

    out = []
    with ThreadPoolExecutor(max_workers=NCPU) as ex:
        for res, err in ex.map(one, files):
            if err is not None:
                return None, err
            out += res
    shutil.rmtree(d, ignore_errors=True)
    if len(out) != len(case_terms):
        return None, f"expected {len(case_terms)} results, parsed {len(out)}"
    return out, None


def parse_list_of_lists(txt):
    i = txt.index("= [")
    body = txt[i + 2:]
    j = body.rindex(": list (list Z)")
    body = body[:j]
    body = body.replace("%Z", "").replace("\n", " ")
    # tokens: [ ] ; integers (possibly negative, possibly in parentheses)
    toks = re.findall(r"\[|\]|-?\d+", body)
    res, cur, depth = [], None, 0
    for t in toks:
        if t == "[":
            depth += 1
            if depth == 2:
                cur = []
        elif t == "]":
            if depth == 2:
                res.append(cur)
                cur = None
            depth -= 1
        else:
            cur.append(int(t))
    return res
