"""Correspondence and monitors for nearest-better clustering (coq/Model/NBC.v): the real NearestBetterClustering is run on
generated populations; the model is evaluated by vm_compute on the same sorted fitness keys, distance keys and threshold; an
independent brute-force implementation of the DEFINITION and metamorphic re-runs (exact transformations only) are the monitors."""
import math
import random
from fractions import Fraction

import numpy as np

from .components import k_, zl
from .coqrun import run_cases

HEADER = ("From Coq Require Import ZArith List Bool. Import ListNotations. From HV Require Import NBC.\nOpen Scope Z_scope.\n"
          "Definition mat (rows : list (list Z)) (i j : nat) : Z := nth j (nth i rows []) 0.\n"
          "Definition run (rows : list (list Z)) (gs : list Z) (thr : Z) : list Z := map Z.of_nat (nbc (mat rows) gs thr).\n")


def gen_population(rng, exact=False):
    n = rng.choice([2, 3, 4, 5, 7, 10, 16, 25, 40])
    dim = rng.choice([1, 2, 2, 3, 5])
    kind = rng.choice(["uniform", "clustered", "lattice", "converged", "tiedfit"]) if not exact else rng.choice(["grid", "grid", "lattice"])
    if kind == "uniform":
        G = [[rng.uniform(-5, 5) for _ in range(dim)] for _ in range(n)]
    elif kind == "clustered":
        cs = [[rng.uniform(-5, 5) for _ in range(dim)] for _ in range(rng.randint(1, 4))]
        G = [[c + rng.gauss(0, 0.2) for c in rng.choice(cs)] for _ in range(n)]
    elif kind in ("lattice", "grid"):
        pts = set()
        while len(pts) < n:
            pts.add(tuple(rng.randint(-8, 8) / (16.0 if kind == "grid" else 1.0) for _ in range(dim)))
            if len(pts) >= (17 ** dim):
                break
        G = [list(p) for p in pts]
        n = len(G)
    elif kind == "converged":
        c = [rng.uniform(-2, 2) for _ in range(dim)]
        s = rng.choice([1e-9, 1e-12, 1e-15])
        G = [[x + rng.uniform(-1, 1) * s for x in c] for _ in range(n)]
    else:
        G = [[rng.uniform(-5, 5) for _ in range(dim)] for _ in range(n)]
    if rng.random() < 0.12:
        # the same cloud far from the origin (exactly representable offsets): distances must not be computed through cancelling terms
        off = rng.choice([2.0 ** 27, 3.0e9, 5.0e8, -2.0 ** 30])
        G = [[float(round(x * 16) / 16.0) + off for x in g] for g in G]
        kind = kind + "+offset"
    # pairwise distinct genomes (the property's domain)
    seen, G2 = set(), []
    for g in G:
        if tuple(g) not in seen:
            seen.add(tuple(g))
            G2.append(g)
    G = G2
    n = len(G)
    if kind == "tiedfit" or rng.random() < 0.25:
        F = [float(rng.randint(0, max(1, n // 2))) for _ in range(n)]
    elif exact:
        F = [float(sum(int(round(x * 16)) ** 2 for x in g) + rng.randint(0, 3)) for g in G]
    else:
        F = [float(sum((x - 0.3) ** 2 for x in g)) + rng.choice([0.0, rng.uniform(0, 3)]) for g in G]
    return G, F, kind


def run_real(G, F, mx, factor, trunc):
    from pyhms.core.individual import Individual
    from pyhms.core.problem import FunctionProblem
    from pyhms.utils.clusterization import NearestBetterClustering
    dim = len(G[0])
    prob = FunctionProblem(lambda x: float("nan"), np.array([[-10.0, 10.0]] * dim), mx)
    inds = [Individual(np.array(g, dtype=float), prob, f) for g, f in zip(G, F)]
    pos = {id(i): k for k, i in enumerate(inds)}
    nbc = NearestBetterClustering(inds, factor, trunc)
    out = nbc.cluster()
    srt = sorted(inds, reverse=True)
    return {"out": [pos[id(i)] for i in out], "kept": [pos[id(i)] for i in nbc.individuals], "sorted": [pos[id(i)] for i in srt], "distances": [float(d) for d in nbc.distances]}


def generator_check(rng, n):
    """NBC_Generator / NBCGeneratorWithLocalMethod on a tree with one active non-leaf deme: the candidates offered for it and the exported mean
    distance must be those of NearestBetterClustering(deme.current_population, distance_factor, truncation_factor) called directly"""
    from pyhms.core.individual import Individual
    from pyhms.core.problem import FunctionProblem
    from pyhms.sprout.sprout_generators import NBC_Generator, NBCGeneratorWithLocalMethod
    from pyhms.utils.clusterization import NearestBetterClustering
    from .filters_direct import FakeDeme, FakeTree
    viol, done = [], 0
    for ci in range(n):
        G, F, kind = gen_population(rng, False)
        if len(G) < 2:
            continue
        mx = rng.random() < 0.5
        F = list(F)
        worst = float("-inf") if mx else float("inf")
        if rng.random() < 0.5:       # penalised / budget-exhausted individuals: the direction's worst infinity (several, tied)
            for j in rng.sample(range(len(F)), rng.randint(1, max(1, len(F) // 2))):
                F[j] = worst
        factor, trunc = rng.choice([0.5, 1.0, 2.0, 3.0]), rng.choice([1.0, 1.0, 0.7, 0.5])
        if int(len(G) * trunc) < 1:
            continue
        prob = FunctionProblem(lambda x: float("nan"), np.array([[-10.0, 10.0]] * len(G[0])), mx)
        inds = [Individual(np.array(g, dtype=float), prob, f) for g, f in zip(G, F)]
        pos = {id(i): k for k, i in enumerate(inds)}
        root = FakeDeme("root", 0, True, np.mean([i.genome for i in inds], axis=0), list(inds))
        H = rng.choice([2, 3])
        tree = FakeTree([[root]] + [[] for _ in range(H - 1)])
        gen = NBC_Generator(factor, trunc) if (H == 2 or rng.random() < 0.5) else NBCGeneratorWithLocalMethod(factor, trunc)
        try:
            out = gen(tree)
            ref = NearestBetterClustering(list(inds), factor, trunc)
            want = [pos[id(i)] for i in ref.cluster()]
            wmean = float(np.mean(ref.distances)) if ref.distances else None
        except Exception as ex:
            viol.append({"key": "C15/generator-raised", "what": f"{type(gen).__name__} raised {type(ex).__name__}: {ex}", "replay_fn": "nbc-generator"})
            continue
        done += 1
        got = [pos.get(id(i), -1) for i in out[root].individuals] if root in out else None
        gmean = out[root].features.nbc_mean_distance if root in out else None
        gmean = None if gmean is None or (isinstance(gmean, float) and math.isnan(gmean)) else float(gmean)
        if got != want or (wmean is not None and gmean is not None and gmean != wmean):
            viol.append({"key": "C15/generator-population", "what": f"{type(gen).__name__}({factor}, {trunc}) offers individuals {got} (mean distance {gmean}) for a deme whose current population "
                         f"clusters to {want} (mean distance {wmean}); fitness {F}, maximize={mx}", "replay_fn": "nbc-generator"})
    return viol[:4], done


def definition(G, F, mx, factor, kept, sorted_ids):
    """brute force from the definition; returns (set of ids, knife_edge flag)"""
    g = (lambda f: -f) if mx else (lambda f: f)
    best = kept[0]
    nbd = {}
    for i in kept[1:]:
        if g(F[i]) == g(F[best]):
            cands = [best]
        else:
            cands = [j for j in kept if g(F[j]) < g(F[i])]
        nbd[i] = min(float(np.linalg.norm(np.array(G[i]) - np.array(G[j]))) for j in cands)
    if not nbd:
        return {best}, False
    mean = float(Fraction(sum(Fraction(v) for v in nbd.values())) / len(nbd))
    thr = mean * factor
    env = 8 * len(nbd) * math.ulp(max(thr, 1e-300))
    knife = any(abs(v - thr) <= env for v in nbd.values())
    return {best} | {i for i, v in nbd.items() if v > thr}, knife


def run_direct(ctx, n, tag):
    rng = random.Random(ctx.seed + 1515)
    viol, disagreements, terms, metas = [], [], [], []
    knife = 0
    dist = {}
    for ci in range(n):
        exact = ci % 3 == 2
        G, F, kind = gen_population(rng, exact)
        if len(G) < 2:
            continue
        mx = rng.random() < 0.5
        factor = rng.choice([0.5, 1.0, 2.0, 3.0])
        trunc = rng.choice([1.0, 1.0, 0.7, 0.5, 0.3, 0.75, 0.55])
        if int(len(G) * trunc) < 1:
            continue
        dist[kind] = dist.get(kind, 0) + 1
        case = {"G": G, "F": F, "mx": mx, "factor": factor, "trunc": trunc, "kind": kind}
        try:
            r = run_real(G, F, mx, factor, trunc)
        except Exception as ex:
            viol.append({"key": "C15/raised", "what": f"NearestBetterClustering raised {type(ex).__name__}: {ex}", "case": case, "replay_fn": "nbc"})
            continue
        kept, m = r["kept"], len(r["kept"])
        if m != math.floor(len(G) * trunc) or kept != r["sorted"][:m]:
            viol.append({"key": "C15/truncation", "what": f"NBC kept {m} of {len(G)} individuals with truncation {trunc}; the best floor(n x truncation) = {math.floor(len(G) * trunc)} are prescribed",
                         "case": case, "replay_fn": "nbc"})
        g = (lambda f: -k_(f)) if mx else k_
        # --- model term (positions in the sorted, truncated list)
        rows = []
        for i in range(m):
            if i == 0:
                rows.append([])
            else:
                d = np.linalg.norm(np.array(G[kept[i]]) - np.array([G[j] for j in kept[:i]]), axis=1)
                rows.append([k_(x) for x in d])
        thr = (float(np.mean(r["distances"])) if r["distances"] else 0.0) * factor * 1
        terms.append(f"run [{'; '.join(zl(row) for row in rows)}] {zl([g(F[i]) for i in kept])} {('(%d)' % k_(thr)) if k_(thr) < 0 else k_(thr)}")
        metas.append((case, r, sorted(kept.index(i) for i in r["out"])))
        # --- monitors
        want, kn = definition(G, F, mx, factor, kept, r["sorted"])
        if kn:
            knife += 1
        elif set(r["out"]) != want:
            viol.append({"key": "C15/definition", "what": f"NBC returned individuals {sorted(r['out'])}, the definition prescribes {sorted(want)} (n={len(G)}, kept {m}, factor {factor}, "
                         f"maximize={mx}, fitness {F})", "case": case, "replay_fn": "nbc"})
        if len(set(r["out"])) != len(r["out"]) or not set(r["out"]) <= set(kept):
            viol.append({"key": "C15/subset", "what": "NBC returned duplicates or individuals outside the truncated population", "case": case, "replay_fn": "nbc"})
        # metamorphic: only when the kept set and the best are uniquely defined, and with exact transformations
        srt_f = [F[i] for i in r["sorted"]]
        unique_cut = (m == len(G)) or (srt_f[m - 1] != srt_f[m])
        unique_best = len(G) == 1 or srt_f[0] != srt_f[1]
        if unique_cut and unique_best and not kn:
            perm = list(range(len(G)))
            rng.shuffle(perm)
            r2 = run_real([G[i] for i in perm], [F[i] for i in perm], mx, factor, trunc)
            if {perm[i] for i in r2["out"]} != set(r["out"]):
                viol.append({"key": "C15/order", "what": f"NBC result depends on the input order: {sorted(r['out'])} vs {sorted(perm[i] for i in r2['out'])}", "case": case, "replay_fn": "nbc"})
            r3 = run_real(G, [-f for f in F], not mx, factor, trunc)
            if set(r3["out"]) != set(r["out"]):
                viol.append({"key": "C15/mirror", "what": f"NBC differs between (f, {'max' if mx else 'min'}) and the mirrored formulation: {sorted(r['out'])} vs {sorted(r3['out'])}", "case": case, "replay_fn": "nbc"})
            if exact:
                sh = [rng.randint(-4, 4) / 4.0 for _ in G[0]]
                sc = rng.choice([0.25, 0.5, 2.0, 4.0])
                r4 = run_real([[sc * (x + s) for x, s in zip(gg, sh)] for gg in G], F, mx, factor, trunc)
                if set(r4["out"]) != set(r["out"]):
                    viol.append({"key": "C15/scale-translate", "what": f"NBC changed under translation {sh} and scaling {sc}: {sorted(r['out'])} vs {sorted(r4['out'])}", "case": case, "replay_fn": "nbc"})
    # --- the generators cluster exactly the deme's CURRENT population (every individual of it, whatever its fitness) with the configured factors
    gv, gdone = generator_check(rng, max(20, n // 10))
    viol += gv
    dist["generator-vs-direct"] = gdone
    model, err = run_cases(tag, HEADER, terms)
    validated = 0
    if model is None:
        disagreements.append({"what": "model evaluation failed: " + err[-400:]})
    else:
        for (case, r, impl_pos), mo in zip(metas, model):
            validated += 1
            if sorted(mo) != impl_pos:
                disagreements.append({"what": f"NBC (n={len(case['G'])}, kept {len(r['kept'])}, factor {case['factor']}, maximize={case['mx']}): implementation returns sorted positions {impl_pos}, model {sorted(mo)}",
                                      "case": case})
    return {"violations": viol[:8], "disagreements": disagreements[:10], "evaluations": len(metas), "validated": validated, "knife_edge": knife, "distribution": dist,
            "distinct_nontrivial": len({(len(c["G"]), c["kind"], c["mx"], c["factor"], c["trunc"], tuple(p)) for c, r, p in metas if len(p) > 1}),
            "samples": [{"n": len(c["G"]), "kind": c["kind"], "maximize": c["mx"], "factor": c["factor"], "trunc": c["trunc"], "seeds_positions": p} for c, r, p in metas[:3]]}
