"""C19 harness: at a metaepoch boundary of a generated run the live tree is dumped and loaded; compared: deep digests of the live
tree before / after the dump and of the loaded tree, summary(), the stop-condition verdict, the global numpy / python RNG states
around the dump; then the LOADED tree is run on and checked after every metaepoch for the tree invariants (structure, level limit,
exact accounting relative to the restored counters, never-worsening best)."""
import multiprocessing as mp
import os
import pickle
import random
import tempfile

import numpy as np

from . import common
from .monitors import key
from .report import fbits


class ReplacedGSC:
    """a stop condition installed AFTER construction (the resume recipe: tree._gsc = ...): keeps running for a while longer, then defers"""

    def __init__(self, inner, until):
        self.inner, self.until = inner, until

    def __call__(self, tree):
        return False if tree.metaepoch_count < self.until else bool(self.inner(tree))

    def __str__(self):
        return f"ReplacedGSC({self.inner}, {self.until})"


class CountingObjective:
    def __init__(self, f):
        self.f, self.n = f, 0

    def __call__(self, x, *a, **k):
        self.n += 1
        return self.f(x, *a, **k)


def deep(tree):
    out = []
    for lvl, level in enumerate(tree._levels):
        for d in level:
            out.append((lvl, d._id, type(d).__name__, d._started_at, bool(d._active), bool(d._hibernating), int(d.n_evaluations), [c._id for c in d._children],
                        None if d._sprout_seed is None else (d._sprout_seed.genome.tobytes(), fbits(d._sprout_seed.fitness)),
                        [[[(np.asarray(i.genome, dtype=float).tobytes(), fbits(i.fitness)) for i in g] for g in me] for me in d._history]))
    return (int(tree.metaepoch_count), out)


def rng_state():
    import random as pyr
    s = np.random.get_state()
    return (s[1].tobytes(), s[2], s[3], s[4], pyr.getstate())


def invariants(tree, spec, base_total, base_calls, objs, prev_best):
    """returns (violations, best key)"""
    v = []
    H = spec["height"]
    mx = spec["maximize"]
    demes = [(l, d) for l, lv in enumerate(tree._levels) for d in lv]
    ids = [d._id for _, d in demes]
    if len(set(ids)) != len(ids):
        v.append(("C19/resume-structure", f"deme ids not unique after resuming: {sorted(ids)}"))
    if len(tree._levels) != H or len(tree._levels[0]) != 1 or tree._levels[0][0]._id != "root":
        v.append(("C19/resume-structure", "root / height broken after resuming"))
    for l, d in demes:
        if d._level != l or not (0 <= d._started_at <= tree.metaepoch_count):
            v.append(("C19/resume-structure", f"deme {d._id}: level attribute {d._level} on level {l}, started_at {d._started_at} at metaepoch {tree.metaepoch_count}"))
        if l > 0:
            holders = [p for _, p in demes if d in p._children]
            if len(holders) != 1 or holders[0]._level != l - 1:
                v.append(("C19/resume-structure", f"deme {d._id} has {len(holders)} parents"))
    L = spec["sprout"].get("level_limit")
    if L is not None:
        for l in range(1, H):
            a = sum(1 for d in tree._levels[l] if d._active)
            if a > L:
                v.append(("C19/resume-level-limit", f"{a} active demes on level {l} with level limit {L} after resuming"))
    tot = sum(int(d.n_evaluations) for _, d in demes)
    if int(tree.n_evaluations) != tot:
        v.append(("C19/resume-accounting", f"tree.n_evaluations={tree.n_evaluations} but demes sum to {tot} after resuming"))
    calls = sum(o.n for o in objs)
    if tot - base_total != calls - base_calls:
        v.append(("C19/resume-accounting", f"after resuming the counters grew by {tot - base_total} but the objective was invoked {calls - base_calls} times"))
    b = tree.best_individual
    bk = key(fbits(b.fitness))
    if prev_best is not None and ((bk < prev_best) if mx else (bk > prev_best)):
        v.append(("C19/resume-best", "the best fitness got worse after resuming"))
    return v, bk


def _work(seed):
    try:
        with common.time_limit(2 * common.RUN_LIMIT):
            return _work_inner(seed)
    except common.RunTimeout as ex:
        return {"seed": seed, "spec": None, "viol": [], "boundaries": 0, "resumed_steps": 0, "engines": [], "hib_at_dump": 0, "demes_at_dump": 0,
                "continuation_identical": None, "error": str(ex)}


def _work_inner(seed):
    import sys
    import warnings
    sys.path.insert(0, common.VERIF)
    warnings.filterwarnings("ignore")
    np.seterr(all="ignore")
    import pyhms.tree as tree_mod
    from hv import gen
    rng = random.Random(seed)
    force = {"cap_evals": 1200, "wrappers": rng.choice(["none", "counting", "none"])}
    if rng.random() < 0.15:
        force.update(objective_kind="nanhole", box=[[-5.0, 5.0], [-5.0, 5.0]], dim=2)
    deep_tree = rng.random() < 0.3
    if deep_tree:
        # three levels whose middle demes keep running and keep sprouting: children of different parents interleave on the leaf level
        force.update(height=3, sprout={"kind": "simple", "far": 0.0, "level_limit": rng.choice([3, 4])}, gsc={"kind": "MetaepochLimit", "n": 16},
                     levels_patch=[{"lsc": {"kind": "DontStop"}}, {"lsc": {"kind": "DontStop"}}, {}], cap_evals=4000)
    spec = gen.gen_spec(seed, **force)
    if rng.random() < 0.5 and not any(l["engine"] == "SEAWithAdaptiveMutation" for l in spec["levels"]):
        spec["hibernation"] = True
    objs = []

    def ow(level, f):
        o = CountingObjective(f)
        objs.append(o)
        return o
    viol = []
    res = {"seed": seed, "spec": spec, "viol": viol, "boundaries": 0, "resumed_steps": 0, "engines": [l["engine"] for l in spec["levels"]], "hib_at_dump": 0, "demes_at_dump": 0,
           "continuation_identical": None, "error": None}
    tmpdir = tempfile.mkdtemp(prefix="c19-", dir=os.path.join(common.VERIF, ".work") if os.path.isdir(os.path.join(common.VERIF, ".work")) else None)
    path = os.path.join(tmpdir, "snap.pkl")
    try:
        cfg, info = gen.build(spec, objective_wrapper=ow)
        tree = tree_mod.DemeTree(cfg)
        target = rng.randint(4, 9) if deep_tree else rng.randint(0, 6)
        steps = 0
        loaded = None
        replaced = False
        while steps <= 40:
            stop = bool(tree._gsc(tree))
            if (steps >= target or stop) and not replaced and rng.random() < 0.35:
                # the user replaces the stop condition of the live tree before snapshotting it
                tree._gsc = ReplacedGSC(tree._gsc, tree.metaepoch_count + 2)
                replaced = True
                stop = bool(tree._gsc(tree))
            if steps >= target or stop:
                # ---- dump / load at this boundary
                has_nan = spec["objective"]["kind"] == "nanhole"
                s0 = None if has_nan else tree.summary()
                d0, r0 = deep(tree), rng_state()
                calls0 = sum(o.n for o in objs)
                gsc0, mech0 = tree._gsc, tree._sprout_mechanism
                tree.pickle_dump(path)
                d1, r1 = deep(tree), rng_state()
                if tree._gsc is not gsc0 or tree._sprout_mechanism is not mech0 or bool(tree._gsc(tree)) != stop:
                    viol.append(("C19/dump-alters-tree", f"pickle_dump replaced the live tree's stop condition / sprout mechanism (verdict before {stop}, after {bool(tree._gsc(tree))})"))
                if d1 != d0:
                    viol.append(("C19/dump-alters-tree", f"pickle_dump changed the live tree at metaepoch {tree.metaepoch_count}"))
                if r1 != r0:
                    viol.append(("C19/dump-alters-rng", f"pickle_dump changed the state of the global random generators at metaepoch {tree.metaepoch_count}"))
                if sum(o.n for o in objs) != calls0:
                    viol.append(("C19/dump-evaluates", "pickle_dump invoked the objective"))
                loaded = tree_mod.DemeTree.pickle_load(path)
                r2 = rng_state()
                if r2 != r0:
                    viol.append(("C19/load-alters-rng", "pickle_load changed the state of the global random generators"))
                dl = deep(loaded)
                if dl != d0:
                    j = next((k for k, (a, b) in enumerate(zip(dl[1], d0[1])) if a != b), None)
                    what = "metaepoch counter" if dl[0] != d0[0] else (f"deme {d0[1][j][1]}: " + ", ".join(n for n, a, b in zip(("level", "id", "class", "started_at", "active", "hibernating", "evaluations", "children", "seed", "history"), dl[1][j], d0[1][j]) if a != b) if j is not None else "number of demes")
                    viol.append(("C19/roundtrip", f"the loaded tree differs from the original at metaepoch {tree.metaepoch_count}: {what}"))
                if s0 is not None and loaded.summary() != s0:
                    viol.append(("C19/roundtrip-summary", "summary() of the loaded tree differs from the original's"))
                if bool(loaded._gsc(loaded)) != stop:
                    viol.append(("C19/roundtrip-gsc", "the stop-condition verdict of the loaded tree differs from the original's"))
                res["boundaries"] += 1
                res["hib_at_dump"] = sum(1 for lv in tree._levels for d in lv if d._hibernating)
                res["demes_at_dump"] = sum(len(lv) for lv in tree._levels)
                break
            tree.run_step()
            steps += 1
        if loaded is not None and not viol and spec["objective"]["kind"] != "nanhole":
            # ---- run the loaded tree on, checking the invariants; then the live one from the same RNG state, and compare
            lobjs = []
            for lv in loaded.config.levels:
                p = lv.problem
                while hasattr(p, "_inner"):
                    p = p._inner
                if p.fitness_function not in lobjs:
                    lobjs.append(p.fitness_function)
            base_total, base_calls = int(loaded.n_evaluations), sum(o.n for o in lobjs)
            rs = rng_state()
            prev = None
            k = 0
            while not loaded._gsc(loaded) and k < 12:
                loaded.run_step()
                k += 1
                vs, prev = invariants(loaded, spec, base_total, base_calls, lobjs, prev)
                viol.extend(vs)
                if vs:
                    break
            res["resumed_steps"] = k
            # a second restore of the same untouched file is again the snapshot, not the advanced copy
            again = tree_mod.DemeTree.pickle_load(path)
            if again is loaded or deep(again) != d0:
                viol.append(("C19/second-restore", f"loading the same snapshot file again does not give the snapshotted tree (metaepoch {again.metaepoch_count} instead of {d0[0]})"))
            np.random.set_state(("MT19937", np.frombuffer(rs[0], dtype=np.uint32), rs[1], rs[2], rs[3]))
            import random as pyr
            pyr.setstate(rs[4])
            k2 = 0
            while not tree._gsc(tree) and k2 < 12:
                tree.run_step()
                k2 += 1
            res["continuation_identical"] = deep(tree) == deep(loaded)
    except Exception as ex:
        import traceback
        res["error"] = traceback.format_exc()[-600:]
    finally:
        try:
            os.remove(path)
            os.rmdir(tmpdir)
        except OSError:
            pass
    res["viol"] = [{"key": k, "what": w} for k, w in viol]
    return res


def run_snapshots(ctx, n):
    rng = random.Random(ctx.seed * 19 + 1)
    seeds = [rng.randrange(1, 2 ** 31) for _ in range(n)]
    os.makedirs(os.path.join(common.VERIF, ".work"), exist_ok=True)
    with mp.get_context("fork").Pool(common.NCPU, maxtasksperchild=30) as pool:
        results = pool.map(_work, seeds, chunksize=2)
    viol = []
    for r in results:
        for v in r["viol"]:
            viol.append(dict(v, what=f"seed {r['seed']} (engines {r['engines']}): " + v["what"], seed=r["seed"], spec=r["spec"], replay_fn="snapshot"))
    errs = [r for r in results if r["error"]]
    dist = {}
    for r in results:
        k = "/".join(r["engines"])
        dist[k] = dist.get(k, 0) + 1
    return {"violations": viol[:10], "evaluations": len(results), "validated": sum(r["boundaries"] for r in results),
            "distinct_nontrivial": len({(tuple(r["engines"]), min(r["demes_at_dump"], 5), r["hib_at_dump"] > 0) for r in results if r["demes_at_dump"] > 1}),
            "distribution": dist, "samples": [{"engines": r["engines"], "demes_at_dump": r["demes_at_dump"], "hibernating_at_dump": r["hib_at_dump"], "resumed_steps": r["resumed_steps"],
                                               "continuation_identical": r["continuation_identical"]} for r in results[:4]],
            "notes": {"dumps_with_a_hibernating_deme": sum(1 for r in results if r["hib_at_dump"] > 0), "resumed_metaepochs": sum(r["resumed_steps"] for r in results),
                      "continuations_identical_to_live": sum(1 for r in results if r["continuation_identical"]), "continuations_compared": sum(1 for r in results if r["continuation_identical"] is not None),
                      "harness_errors": len(errs), "first_error": errs[0]["error"][-300:] if errs else None}}


def replay_snapshot(ctx, data):
    r = _work(data["seed"])
    return (not r["viol"]), f"snapshot probe seed {data['seed']}: {r['viol'][0]['what'] if r['viol'] else 'no violation'}"
