"""Regenerates MANIFEST.json from the per-property modules that exist (hv/props/cXX.py with MANIFEST dict)."""
import importlib
import json
import os
import sys

VERIF = os.path.dirname(os.path.dirname(os.path.abspath(__file__)))
sys.path.insert(0, VERIF)
sys.path.insert(0, "/repo")

ALL = ["C%02d" % i for i in range(1, 21)]
BASELINE = "cd /repo && env -u PYHMS_VERIF_HOOKS /venv/bin/python -m pytest -ra -q -p no:cacheprovider --timeout=900 --continue-on-collection-errors"


def main():
    checks, na = [], []
    for pid in ALL:
        try:
            m = importlib.import_module(f"hv.props.{pid.lower()}")
            man = m.MANIFEST
        except (ImportError, AttributeError):
            na.append({"property_id": pid, "reason": "check not built yet in this round (planned: see DESIGN.md section 7); not claimed until its theorems and correspondence exist"})
            continue
        checks.append({
            "property_id": pid,
            "quick_cmd": f"./check {pid} --tier quick",
            "thorough_cmd": f"./check {pid} --tier thorough",
            "evidence_file": f"/verif/evidence/{pid}.json",
            "replay_cmd_template": f"./check {pid} --replay {{path}}",
            "engine": "coq+harness",
            "level_claimed": {"category": "proof", "text": man["text"], "design_ref": man.get("design_ref", "DESIGN.md section 7 " + pid)},
            "level_note": man["note"],
            "technique": man["technique"],
        })
    out = {
        "version": 1,
        "setup_cmd": "./setup.sh",
        "hooks": {"guard": "PYHMS_VERIF_HOOKS", "enable": "no source hooks: all recorders are installed from outside the package by hv/rec.py (monkey-patching inside the harness process); the guard variable is set by ./check but nothing in /repo reads it",
                  "baseline_off_cmd": BASELINE, "source_commits": [], "add_only": True},
        "engines": [{"name": "coq+harness", "path": "/verif/check", "serves_properties": [c["property_id"] for c in checks],
                     "kind_free_text": "Coq 8.16 theorems over executable Gallina models (coq/), tied to /repo by a python-ast->Gallina translator re-run on every check (GenEquiv lemmas) and by a differential correspondence harness (vm_compute / extracted OCaml vs the real package); monitors search for concrete failing inputs"}],
        "checks": checks,
        "not_applicable": na,
        "notes": "Every check rebuilds Gen/*.v from /repo's working tree, rebuilds the property's theorems, runs the correspondence and the monitors; see DESIGN.md.",
    }
    with open(os.path.join(VERIF, "MANIFEST.json"), "w") as fh:
        json.dump(out, fh, indent=1)
    print("checks:", [c["property_id"] for c in checks], "not_applicable:", len(na))


if __name__ == "__main__":
    main()
