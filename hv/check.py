"""./check <ID> [--tier quick|thorough] [--replay FILE]

Decides one property: (1) regenerate Gen/ from /repo's current sources and rebuild the property's
theorems and GenEquiv obligations, (2) run the correspondence between model and implementation,
(3) run the property monitors on the implementation (the search for a concrete failing input),
(4) write evidence, print VIOLATION / KNOWN-FINDING lines, exit 0/1.
"""
import argparse
import importlib
import json
import os
import sys
import time
import traceback

VERIF = os.path.dirname(os.path.dirname(os.path.abspath(__file__)))
sys.path.insert(0, VERIF)
from hv import common  # noqa: E402

sys.path.insert(0, common.REPO)
os.environ.update({k: v for k, v in common.env_for_impl().items() if k in ("PYTHONPATH", "PYTHONHASHSEED", common.GUARD, "OMP_NUM_THREADS", "OPENBLAS_NUM_THREADS", "MKL_NUM_THREADS", "MPLBACKEND")})


class Ctx:
    def __init__(self, pid, tier, seed, broken):
        self.pid, self.tier, self.seed, self.broken = pid, tier, seed, broken
        self.repo = common.REPO

    def n(self, quick, thorough):
        """case budget; intensified when a proof obligation or the correspondence broke"""
        base = thorough if self.tier == "thorough" else quick
        return base * 3 if self.broken else base


def main():
    ap = argparse.ArgumentParser()
    ap.add_argument("pid")
    ap.add_argument("--tier", default=os.environ.get("VERIF_TIER", "quick"))
    ap.add_argument("--replay")
    a = ap.parse_args()
    pid = a.pid.upper()
    tier = a.tier if a.tier in ("quick", "thorough") else "quick"
    seed = int(os.environ.get("VERIF_SEED", "20260926"))
    t0 = time.time()
    prop = importlib.import_module(f"hv.props.{pid.lower()}")

    if a.replay:
        data = json.load(open(a.replay))
        ok, msg = prop.replay(Ctx(pid, tier, seed, False), data)
        print(msg)
        if not ok:
            print(f"VIOLATION property={pid} replay={a.replay}")
        sys.exit(0 if ok else 1)

    # stale replay files of earlier runs of this property must not be mistaken for this run's
    import glob as _glob
    for old_replay in _glob.glob(os.path.join(common.VERIF, "replays", f"{pid}-*.json")):
        try:
            os.remove(old_replay)
        except OSError:
            pass

    # ---- (1) translator + proof obligations
    tr_errors, translated = common.regen()
    props_file = f"Props/{pid}.v"
    closure = common.deps_closure(props_file)
    # the executable models the correspondence evaluates under vm_compute are always (re)built together with the property's theorems
    models = [f"Model/{m}.vo" for m in ("TreeCheck", "DriverCheck", "Hist", "Select", "NBC", "Far", "Report", "Bounds", "Problem", "Ops") if os.path.exists(os.path.join(common.COQ, "Model", m + ".v"))]
    build_ok, build_log = common.coq_build([f"Props/{pid}.vo"] + models + getattr(prop, "EXTRA_TARGETS", []))
    gate_hits = common.gate(closure)
    ass_ok, assumptions, ass_log = (False, [], "")
    if build_ok:
        ass_ok, assumptions, ass_log = common.print_assumptions(props_file)
    bad_axioms = sorted({ax for t in assumptions for ax in t["axioms"] if ax not in common.ALLOWED_AXIOMS})
    obligations, discharged, ob_names = common.count_obligations(closure)
    broken = []
    my_fes = getattr(prop, "FRONT_ENDS", [])
    fe_filter = getattr(prop, "FRONT_END_FILTER", {})
    for fe, msg in tr_errors.items():
        if fe in my_fes and (fe not in fe_filter or any(k in msg for k in ([fe_filter[fe]] if isinstance(fe_filter[fe], str) else fe_filter[fe]))):
            broken.append(f"translator[{fe}]: {msg}")
    if not build_ok:
        errs = [ln for ln in build_log.splitlines() if "Error" in ln or ln.startswith("File ") or "rror:" in ln]
        broken.append("coq build of %s failed: %s" % (props_file, " | ".join(errs[:6]) or build_log[-400:]))
    elif not ass_ok:
        broken.append("Print Assumptions re-run failed: " + ass_log[-300:])
    if gate_hits:
        broken.append("gate: " + "; ".join(gate_hits[:5]))
    if bad_axioms:
        broken.append("unexpected axioms: " + ", ".join(bad_axioms))

    # ---- (2)+(3) correspondence and monitors (intensified search when something broke)
    ctx = Ctx(pid, tier, seed, bool(broken))
    try:
        res = prop.run(ctx)
    except Exception:
        res = {"evaluations": 0, "distinct_nontrivial": 0, "rule": "harness crashed", "samples": [],
               "violations": [], "disagreements": [], "harness_error": traceback.format_exc()}
        broken.append("harness crashed: " + res["harness_error"].strip().splitlines()[-1])

    # ---- decide
    findings = [f for f in common.known_findings() if f["property"] == pid and f["status"] == "open"]
    out_lines, nviol, k = [], 0, 0
    seen_known = set()
    for v in res.get("violations", []):
        kf = next((f for f in findings if f["key"] == v.get("key")), None)
        if kf is not None:
            if kf["key"] not in seen_known:
                out_lines.append(f"KNOWN-FINDING: property={pid} {kf['what']}")
                seen_known.add(kf["key"])
            continue
        k += 1
        nviol += 1
        if k <= 5:
            path = common.write_replay(pid, seed, k, {"property": pid, "kind": "failing-input", **v})
            out_lines.append(f"VIOLATION property={pid} replay={path}")
    for dgr in res.get("disagreements", []):
        # model and implementation differ: the tie is broken; the monitors above searched for an input
        broken.append("correspondence: " + str(dgr.get("what", dgr))[:300])
    if broken and nviol == 0:
        path = common.write_replay(pid, seed, "obligation", {
            "property": pid, "kind": "obligation-broken", "no_longer_checks": broken,
            "disagreements": res.get("disagreements", [])[:5],
            "build_log_tail": build_log[-2500:] if not build_ok else "",
            "search": {"evaluations": res.get("evaluations", 0), "rule": res.get("rule", "")}})
        out_lines.append(f"VIOLATION property={pid} replay={path} no-failing-input-found")
        nviol += 1

    cov = {
        "obligations": obligations, "discharged": discharged if build_ok else min(discharged, max(obligations - 1, 0)),
        "checker_cmd": f"cd /verif/coq && make Props/{pid}.vo && coqc -Q ... Props/{pid}.v  (Print Assumptions)" + ("; coqchk -o" if tier == "thorough" else ""),
        "trusted_base": common.TRUSTED_BASE + getattr(prop, "TRUSTED_EXTRA", []),
        "theorems": assumptions,
        "obligation_names": ob_names[:400],
        "translated_functions": {fe: translated.get(fe, []) for fe in my_fes},
        "translator_errors": tr_errors,
        "proof_status": "ok" if not broken else broken,
        "evaluations": res.get("evaluations", 0),
        "distinct_nontrivial": res.get("distinct_nontrivial", 0),
        "traces_validated_against_impl": res.get("traces_validated_against_impl", res.get("evaluations", 0)),
        "rule": res.get("rule", ""),
        "samples": res.get("samples", [])[:8],
        "explanation": getattr(prop, "EXPLANATION", ""),
    }
    for kx in ("distribution", "knife_edge", "discarded", "contracts", "notes", "harness_error", "coqchk"):
        if kx in res:
            cov[kx] = res[kx]
    if tier == "thorough" and build_ok and os.environ.get("VERIF_NO_COQCHK") != "1":
        cov["coqchk"] = common_coqchk(pid)
    common.write_evidence(pid, tier, seed, "proof", cov, getattr(prop, "ASSUMPTIONS", []), time.time() - t0, nviol)
    for ln in out_lines:
        print(ln)
    print(f"[{pid}] tier={tier} seed={seed} obligations={obligations} discharged={cov['discharged']} "
          f"cases={cov['evaluations']} nontrivial={cov['distinct_nontrivial']} violations={nviol} wall={time.time() - t0:.1f}s")
    sys.exit(1 if nviol else 0)


def common_coqchk(pid):
    import subprocess
    try:
        r = subprocess.run(["coqchk", "-silent", "-o"] + common.coqc_args() + [f"HV.{pid}"], cwd=common.COQ,
                           capture_output=True, text=True, timeout=3000)
        tail = (r.stdout + r.stderr)[-3000:]
        return {"exit": r.returncode, "output_tail": tail}
    except Exception as ex:  # timeouts are reported, not fatal
        return {"exit": None, "output_tail": repr(ex)}


if __name__ == "__main__":
    main()
