"""Self-validation against HAND-WRITTEN mutants (/verif/handmutants/*.diff) of code that entered the model in round 5: the weights normalisation of
FitnessEvalLimitReached (W-*), SingularProblemPrecisionReached (P-*) and FitnessSteadiness (S-*).  Unlike /verif/seeded (written by independent
sub-agents, with demos) these are one-line slips written by the author of the machinery; each is applied to a scratch worktree and must break a
translator or a proof obligation (W, P: Proofs/GenEquivStops.vo / GenEquivStopsPrecision.vo) or make the C06 check report a failing input (S).
The patches are NOT applied to /repo.   usage: python -m hv.handtest [names...]    (run it from a `vp run` snapshot: it regenerates coq/Gen)"""
import os
import subprocess
import sys

VERIF = os.path.dirname(os.path.dirname(os.path.abspath(__file__)))
PY = "/venv/bin/python"
TARGETS = "Proofs/GenEquivStops.vo Proofs/GenEquivStopsPrecision.vo"


def sh(cmd, cwd=None, env=None, timeout=3000):
    e = dict(os.environ)
    if env:
        e.update(env)
    r = subprocess.run(cmd, shell=True, cwd=cwd, env=e, capture_output=True, text=True, timeout=timeout)
    return r.returncode, r.stdout + r.stderr


REGEN = "import sys, json; sys.path.insert(0, %r); from hv import common; e, t = common.regen(); print('REGEN ' + json.dumps(e))" % VERIF


def main():
    names = sys.argv[1:] or sorted(f[:-5] for f in os.listdir(os.path.join(VERIF, "handmutants")) if f.endswith(".diff"))
    bad = 0
    for name in names:
        wt = f"/tmp/handtest-{name}"
        sh(f"git -C /repo worktree remove --force {wt}")
        sh(f"git -C /repo worktree add -q --detach {wt} HEAD")
        try:
            rc, out = sh(f"git apply {VERIF}/handmutants/{name}.diff", cwd=wt)
            if rc != 0:
                print(name, "PATCH DOES NOT APPLY (the pinned tree moved on)")
                continue
            if name.startswith("S-"):
                rc, out = sh("./check C06 --tier quick", cwd=VERIF, env={"VERIF_REPO": wt})
                vl = [ln for ln in out.splitlines() if ln.startswith("VIOLATION")]
                caught = rc != 0 and bool(vl)
                how = ("C06 failing input" if any("no-failing-input-found" not in ln for ln in vl) else "C06 obligation only") if caught else "MISSED"
            else:
                rc, out = sh(f"{PY} -c \"{REGEN}\"", cwd=VERIF, env={"VERIF_REPO": wt, "PYTHONPATH": wt, "PYTHONHASHSEED": "0"})
                errs = [ln for ln in out.splitlines() if ln.startswith("REGEN ")]
                tr_err = errs and errs[0] != "REGEN {}"
                rc, out = sh(f"make -j8 -k {TARGETS} 2>&1 | grep -A4 -E '^Error|rror:' | head -8", cwd=os.path.join(VERIF, "coq"))
                caught = bool(tr_err or out.strip())
                how = ("translator: " + errs[0][6:200]) if tr_err else ("proof: " + " ".join(out.split())[:200] if out.strip() else "MISSED")
            print(name, "caught" if caught else "NOT CAUGHT", "-", how, flush=True)
            bad += 0 if caught else 1
        finally:
            sh(f"git -C /repo worktree remove --force {wt}")
    # restore Gen/ for the real repository
    sh(f"{PY} -c \"{REGEN}\"", cwd=VERIF, env={"PYTHONPATH": "/repo", "PYTHONHASHSEED": "0"})
    sh(f"make -j8 {TARGETS}", cwd=os.path.join(VERIF, "coq"))
    sys.exit(1 if bad else 0)


if __name__ == "__main__":
    main()
