"""Sessions: several trees built and run one after the other in ONE process, the way a user script does — the same
sprout-mechanism object handed to every tree, later configurations relying on documented option defaults.  The property monitors
are applied to every run of the session; state leaking from one tree into the next shows up in the later runs."""
import copy
import multiprocessing as mp
import random

from . import common


def _work(args):
    seed, mons, force = args
    import sys
    sys.path.insert(0, common.VERIF)
    from hv import gen, monitors, rec
    rng = random.Random(seed)
    f = dict(force or {})
    a = gen.gen_spec(seed, **dict(f, hibernation=True, cap_evals=700))
    # B: same mechanism configuration (so that sharing the object is meaningful), a different landscape, defaults omitted
    b = gen.gen_spec(rng.randrange(1, 2 ** 31), **dict(f, hibernation=False, cap_evals=700, height=a["height"], dim=a["dim"], sprout=copy.deepcopy(a["sprout"])))
    b["omit_default_options"] = True
    c = gen.gen_spec(rng.randrange(1, 2 ** 31), **dict(f, hibernation=rng.random() < 0.5, cap_evals=700, height=a["height"], dim=a["dim"], sprout=copy.deepcopy(a["sprout"])))
    shared = {}
    out = []
    for k, spec in enumerate((a, b, c)):
        try:
            with common.time_limit(common.RUN_LIMIT):
                r = rec.run_spec(spec, shared=shared)
        except Exception:
            continue
        for m in mons:
            try:
                for v in monitors.MONITORS[m](r):
                    out.append(dict(v, what=f"run #{k + 1} of a session of trees sharing one sprout mechanism (seed {spec['seed']}): " + v["what"], seed=seed, spec=spec, session=[a, b, c][:k + 1],
                                    replay_fn="session"))
            except Exception:
                pass
    return {"seed": seed, "viol": out, "demes": 0}


def run_sessions(ctx, n, mons, force=None):
    rng = random.Random(ctx.seed * 11 + 3)
    seeds = [rng.randrange(1, 2 ** 31) for _ in range(n)]
    with mp.get_context("fork").Pool(common.NCPU, maxtasksperchild=20) as pool:
        results = pool.map(_work, [(s, mons, force) for s in seeds], chunksize=1)
    return {"violations": [v for r in results for v in r["viol"]], "evaluations": 3 * len(results)}


def replay_session(ctx, data, mons):
    from . import monitors, rec
    shared = {}
    bad = []
    for spec in data.get("session", [data["spec"]]):
        r = rec.run_spec(spec, shared=shared)
        for m in mons:
            bad += [v for v in monitors.MONITORS[m](r) if v["key"] == data.get("key")]
    return (not bad), f"session replay: {bad[0]['what'] if bad else 'no violation'}"
