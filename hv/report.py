"""C20 harness: at every metaepoch boundary of generated runs the text of summary() / tree() is parsed and compared with the
report model (coq/Model/Report.v) evaluated by vm_compute on abs(tree); every reporting / query accessor is called twice and
the tree, the objective's call log and the global RNG states are compared around the calls."""
import multiprocessing as mp
import pickle
import random
import re

import numpy as np

from . import common
from .coqrun import run_cases
from .monitors import key

HEADER = ("From Coq Require Import List Bool Arith ZArith. Import ListNotations.\nFrom HV Require Import Ord Sprout Tree Report.\n"
          "Definition zb (b : bool) : Z := if b then 1%Z else 0%Z.\n"
          "Definition mk (lvl : nat) (par : option nat) (meta evals : nat) : deme := set_d (root_deme 0) lvl par 0 true false meta evals 0 false 0 (0, 0).\n"
          "Definition rep (H : nat) (m : nat) (ds : list deme) (bests : list Z) (gb : Z) : list Z :=\n"
          "  let s := with_state (init 0) m ds PMain false 0 0 0 ([], []) in let r := summary H s in\n"
          "  Z.of_nat (s_meta r) :: Z.of_nat (s_evals r) :: Z.of_nat (s_demes r) :: flat_map (fun p => [Z.of_nat (fst p); Z.of_nat (snd p)]) (s_levels r) ++\n"
          "  (-1)%Z :: flat_map (fun l => [Z.of_nat (l_deme l); Z.of_nat (l_evals l); zb (l_new l); zb (l_marked l)]) (tree_report ds (fun i => nth i bests 0%Z) gb).\n")
LINE = re.compile(r"^(?P<prefix>[\s|└├\-]*)(?P<type>\w+) (?P<id>\S+?)(?P<mark> \*\*\* | )f\((?P<x>[^)]*)\) ~= (?P<f>\S+?)(?P<sprout> sprout: \([^)]*\);)? evals: (?P<ev>\d+) (?P<new>\(new_deme\))?$")


def fbits(x):
    import struct
    return struct.unpack("<Q", struct.pack("<d", float(x)))[0]


def state_digest(tree, calls, with_rng=True):
    import random as pyr
    h = []
    for lvl in tree._levels:
        for d in lvl:
            h.append((d._id, d._started_at, d._active, d._hibernating, int(d.n_evaluations), int(d._problem.n_evaluations), [c._id for c in d._children],
                      [[[(i.genome.tobytes(), fbits(i.fitness)) for i in g] for g in me] for me in d._history]))
    if not with_rng:   # NaN-vs-NaN comparisons are settled by random.choice inside pyhms: the RNG clause is not compared on NaN objectives
        return pickle.dumps((tree.metaepoch_count, h, calls[0]))
    return pickle.dumps((tree.metaepoch_count, h, calls[0], np.random.get_state()[1].tobytes(), np.random.get_state()[2:], pyr.getstate()))


def same(a, b):
    try:
        if isinstance(a, np.ndarray) or isinstance(b, np.ndarray):
            return np.array_equal(np.asarray(a), np.asarray(b), equal_nan=True)
        if isinstance(a, (list, tuple)):
            return len(a) == len(b) and all(same(x, y) for x, y in zip(a, b))
        if isinstance(a, dict):
            return a.keys() == b.keys() and all(same(a[k], b[k]) for k in a)
        if hasattr(a, "genome") and hasattr(a, "fitness"):
            return np.array_equal(a.genome, b.genome) and fbits(a.fitness) == fbits(b.fitness)
        return a == b or (a != a and b != b)
    except Exception:
        return False


ACCESSORS = [("summary", lambda t: t.summary()), ("tree", lambda t: t.tree()), ("best_individual", lambda t: t.best_individual), ("all_individuals", lambda t: t.all_individuals),
             ("r5s_solutions", lambda t: t.r5s_solutions), ("n_evaluations", lambda t: t.n_evaluations), ("best_leaf_individual", lambda t: t.best_leaf_individual if t.leaves else None),
             ("deme bests", lambda t: [d.best_individual for _, d in t.all_demes]), ("deme current bests", lambda t: [d.best_current_individual for _, d in t.all_demes]),
             ("centroids", lambda t: [d.centroid for _, d in t.all_demes]), ("best_fitness_by_metaepoch", lambda t: [d.best_fitness_by_metaepoch for _, d in t.all_demes]),
             ("histories", lambda t: [d.history for _, d in t.all_demes]), ("active_demes", lambda t: [d._id for _, d in t.active_demes])]


def probe(tree, rec, calls, out, order, ran=None, nan_mode=False):
    """called at a metaepoch boundary"""
    mx = tree.config.levels[0].problem.maximize
    viol = []
    d0 = state_digest(tree, calls, not nan_mode)
    answers = {}
    for name, fn in ACCESSORS:
        try:
            a1 = fn(tree)
            a2 = fn(tree)
        except Exception as ex:
            continue
        answers[name] = a1
        calls[0] = sum(1 for e in rec.ev if e["e"] == "call")
        if not nan_mode and not same(a1, a2):
            viol.append({"key": "C20/repeatable", "what": f"accessor {name} gave two different answers when called twice at metaepoch {tree.metaepoch_count}"})
        d1 = state_digest(tree, calls, not nan_mode)
        if d1 != d0:
            viol.append({"key": "C20/pure", "what": f"accessor {name} changed observable state (tree / objective calls / global RNG) at metaepoch {tree.metaepoch_count}"})
            d0 = d1
    # ---- parse the text
    text = answers.get("summary")
    ttext = answers.get("tree")
    if text is None or ttext is None or nan_mode:
        return viol
    demes = [d for lvl in tree._levels for d in lvl]
    idx = {did: k for k, did in enumerate(order)}
    # the tree's own state, read from the raw histories (not through the accessors under test)
    def raw_best(ds):
        inds = [i for d in ds for me in d._history for g in me for i in g]
        return max(inds) if inds else None
    bests = {d._id: raw_best([d]) for d in demes}
    gb = raw_best(demes)
    acc_best = answers.get("best_individual")
    if acc_best is not None and fbits(acc_best.fitness) != fbits(gb.fitness) and acc_best.fitness != gb.fitness:
        viol.append({"key": "C20/best-accessor", "what": f"tree.best_individual reports fitness {acc_best.fitness!r} but the best individual stored in the histories has {gb.fitness!r} "
                                                     f"(metaepoch {tree.metaepoch_count})"})
    for d, b in zip(demes, answers.get("deme bests") or []):
        if b is not None and bests[d._id] is not None and b.fitness != bests[d._id].fitness:
            viol.append({"key": "C20/deme-best-accessor", "what": f"deme {d._id}.best_individual reports {b.fitness!r}, its history holds {bests[d._id].fitness!r}"})
    lines = text.split("\n")
    exp = []
    head = text.split("\nLevel 1.")[0]
    try:
        m = int(re.search(r"^Metaepoch count: (\d+)$", head, re.M).group(1))
        bf = re.search(r"^Best fitness: (\S+)$", head, re.M).group(1)
        ne = int(re.search(r"^Number of evaluations: (\d+)$", head, re.M).group(1))
        nd = int(re.search(r"^Number of demes: (\d+)$", head, re.M).group(1))
    except Exception:
        return viol + [{"key": "C20/format", "what": "summary() header could not be parsed: " + repr(head)[:200]}]
    if bf != f"{gb.fitness:.4e}":
        viol.append({"key": "C20/best", "what": f"summary() prints best fitness {bf}, the tree's best is {gb.fitness:.4e} (metaepoch {m})"})
    exp += [m, ne, nd]
    H = len(tree._levels)
    parts = re.split(r"\nLevel (\d+)\.\n", text)
    lv_info = {}
    for k in range(1, len(parts), 2):
        lv = int(parts[k]) - 1
        seg = parts[k + 1].split("\n\n")[0] if lv < H - 1 else parts[k + 1]
        if seg.startswith("No demes"):
            lv_info[lv] = (0, 0)
            if len(tree._levels[lv]) > 0:
                viol.append({"key": "C20/level-counts", "what": f"level {lv + 1}: summary() prints 'No demes' but the level holds {len(tree._levels[lv])} demes (metaepoch {m})"})
        else:
            try:
                lbf = re.search(r"^Best fitness: (\S+)$", seg, re.M).group(1)
                le = int(re.search(r"^Number of evaluations: (\d+)$", seg, re.M).group(1))
                lc = int(re.search(r"^Number of demes: (\d+)$", seg, re.M).group(1))
            except Exception:
                viol.append({"key": "C20/format", "what": f"level {lv + 1} block could not be parsed: {seg[:160]!r}"})
                continue
            lv_info[lv] = (le, lc)
            want_e, want_c = sum(int(d.n_evaluations) for d in tree._levels[lv]), len(tree._levels[lv])
            if (le, lc) != (want_e, want_c):
                viol.append({"key": "C20/level-counts", "what": f"level {lv + 1}: summary() prints {le} evaluations and {lc} demes; the level's demes count {want_e} evaluations "
                                                                f"and there are {want_c} of them (metaepoch {m})"})
            lb = [bests[d._id] for d in tree._levels[lv] if bests[d._id] is not None]
            if lb:
                want = max(lb)
                if lbf != f"{want.fitness:.4e}":
                    viol.append({"key": "C20/level-best", "what": f"level {lv + 1}: summary() prints best fitness {lbf}, the level's best is {want.fitness:.4e}"})
    for lv in range(H):
        exp += list(lv_info.get(lv, (-7, -7)))
    exp.append(-1)
    tl = [ln for ln in ttext.split("\n") if ln.strip()]
    shown = []
    for ln in tl:
        mm = LINE.match(ln)
        if not mm:
            viol.append({"key": "C20/format", "what": "tree() line could not be parsed: " + ln[:160]})
            continue
        did = mm.group("id")
        if did not in idx:
            viol.append({"key": "C20/line-id", "what": f"tree() shows an unknown deme id {did}"})
            continue
        d = next(x for x in demes if x._id == did)
        if mm.group("type") != type(d).__name__:
            viol.append({"key": "C20/line-type", "what": f"tree() shows deme {did} as {mm.group('type')}, it is a {type(d).__name__}"})
        if mm.group("f") != f"{bests[did].fitness:.2e}":
            viol.append({"key": "C20/line-best", "what": f"tree() shows best {mm.group('f')} for deme {did}, its best is {bests[did].fitness:.2e}"})
        exp += [idx[did], int(mm.group("ev")), 1 if mm.group("new") else 0, 1 if mm.group("mark").strip() else 0]
        shown.append(did)
        if int(mm.group("ev")) != int(d.n_evaluations):
            viol.append({"key": "C20/line-evals", "what": f"tree() shows {mm.group('ev')} evaluations for deme {did}, its counter says {int(d.n_evaluations)}"})
        if bool(mm.group("mark").strip()) != (bests[did].fitness == gb.fitness):
            viol.append({"key": "C20/marker", "what": f"deme {did} (best {bests[did].fitness!r}) is {'marked' if mm.group('mark').strip() else 'not marked'} *** while the global best is {gb.fitness!r} "
                                                  f"(metaepoch {tree.metaepoch_count})"})
    want_shown = [d._id for d in demes if d._id == "root" or len(d._history) - 1 >= 1 or (ran is not None and d._id in ran)]
    if sorted(shown) != sorted(want_shown):
        viol.append({"key": "C20/lines", "what": f"tree() shows demes {sorted(shown)}; the root plus the demes that have run a metaepoch are {sorted(want_shown)}"})
    if ne != sum(int(d.n_evaluations) for d in demes) or nd != len(demes) or m != tree.metaepoch_count:
        viol.append({"key": "C20/totals", "what": f"summary() prints metaepoch {m}, {ne} evaluations, {nd} demes; the tree has {tree.metaepoch_count}, {sum(int(d.n_evaluations) for d in demes)}, {len(demes)}"})
    if ttext not in text:
        viol.append({"key": "C20/summary-tree", "what": "summary() does not embed tree()"})
    # ---- model term
    ds_terms, best_keys = [], []
    for did in order:
        d = next(x for x in demes if x._id == did)
        par = "None"
        for p in demes:
            if d in p._children:
                par = f"(Some {idx[p._id]})"
        ds_terms.append(f"mk {d._level} {par} {len(d._history) - 1} {int(d.n_evaluations)}")
        best_keys.append(key(fbits(bests[did].fitness)) if bests[did] is not None else 0)
    zs = lambda xs: "[" + "; ".join(f"({x})%Z" if x < 0 else f"{x}%Z" for x in xs) + "]"
    gk = key(fbits(gb.fitness))
    out.append({"term": f"rep {H} {tree.metaepoch_count} [{'; '.join(ds_terms)}] {zs(best_keys)} {('(%d)%%Z' % gk) if gk < 0 else ('%d%%Z' % gk)}", "expected": exp,
                "m": tree.metaepoch_count, "lines": len(tl), "marked": sum(1 for ln in tl if "***" in ln), "text": ttext[:600]})
    return viol


def install_looking_gsc(tree, rec, info):
    """wraps the tree's stop condition by a user-style condition that LOOKS at the tree (best individual, summary) at every consult"""
    inner = tree._gsc

    class Looking:
        def __call__(self, t):
            try:
                t.best_individual
                t.n_evaluations
            except Exception:
                pass
            return inner(t)

        def __str__(self):
            return f"Looking({inner})"
    tree._gsc = Looking()


def _work(seed):
    import sys
    sys.path.insert(0, common.VERIF)
    from hv import gen, rec
    rng = random.Random(seed)
    force = {"cap_evals": 1200}
    c = rng.random()
    if c < 0.4:
        force["objective_kind"] = rng.choice(["zero", "zerobest", "plateau"])
    elif c < 0.5:
        force.update(objective_kind="nanhole", box=[[-5.0, 5.0], [-5.0, 5.0]], dim=2)
    elif c < 0.6:
        force.update(height=2, engines=[rng.choice(["SEA", "DE"]), "Local"], objective_kind=rng.choice(["plateau", "zero", "sphere"]))
    elif c < 0.78:
        # several CMA-ES leaves converging on the same optimum: best fitness values that are almost, but not exactly, equal
        force.update(height=2, engines=[rng.choice(["SEA", "DE"]), "CMA"], objective_kind="sphere", box_style="sym", cap_evals=4000, gsc={"kind": "MetaepochLimit", "n": 12},
                     sprout={"kind": "simple", "far": 0.0, "level_limit": 3}, levels_patch=[{"lsc": {"kind": "DontStop"}}, {"lsc": {"kind": "DontStop"}, "gens": 5}], maximize=False)
    spec = gen.gen_spec(seed, **force)
    out, viol = [], []
    order = []

    def mode(tree, r, info):
        calls = [0]
        # count objective invocations through the recorder's event list
        def ncalls():
            return sum(1 for e in r.ev if e["e"] == "call")
        steps = 0
        while True:
            order[:] = [e["id"] for e in r.ev if e["e"] == "new"]
            calls[0] = ncalls()
            ran = {e["id"] for e in r.ev if e["e"] == "run" and e["ph"] == "b"}
            viol.extend(probe(tree, r, calls, out, order, ran, spec["objective"]["kind"] == "nanhole"))
            if tree._gsc(tree) or steps > 40:
                break
            tree.run_step()
            steps += 1
    with common.time_limit(common.RUN_LIMIT):
        res = rec.run_spec(spec, mode=mode, probes={"after_init": install_looking_gsc})
    return {"seed": seed, "spec": spec, "error": res["error"], "cases": out, "viol": viol, "engines": [l["engine"] for l in spec["levels"]]}


def run_reports(ctx, n):
    rng = random.Random(ctx.seed * 7 + 20)
    seeds = [rng.randrange(1, 2 ** 31) for _ in range(n)]
    with mp.get_context("fork").Pool(common.NCPU, maxtasksperchild=30) as pool:
        results = pool.map(_work, seeds, chunksize=2)
    viol, disagreements, terms, owners = [], [], [], []
    for r in results:
        for v in r["viol"]:
            viol.append(dict(v, seed=r["seed"], spec=r["spec"], replay_fn="report"))
        for c in r["cases"]:
            terms.append(c["term"])
            owners.append((r, c))
    model, err = run_cases("C20-report", HEADER, terms, shard=max(4, (len(terms) + 15) // 16))
    validated = 0
    if model is None:
        disagreements.append({"what": "report model failed to evaluate: " + err[-400:]})
    else:
        for (r, c), mo in zip(owners, model):
            validated += 1
            if mo != c["expected"]:
                j = next((i for i, (a, b) in enumerate(zip(c["expected"], mo)) if a != b), min(len(mo), len(c["expected"])))
                disagreements.append({"what": f"seed {r['seed']}, metaepoch {c['m']}: the printed report and the report model differ at position {j}: printed {c['expected'][max(0, j - 2):j + 4]} "
                                              f"model {mo[max(0, j - 2):j + 4]}\n{c['text'][:300]}", "seed": r["seed"], "spec": r["spec"]})
    return {"violations": viol[:10], "disagreements": disagreements[:10], "evaluations": len(terms), "validated": validated, "runs": len(results),
            "distinct_nontrivial": len({(tuple(r["engines"]), c["lines"], c["marked"]) for r, c in owners if c["lines"] > 1}),
            "samples": [{"engines": r["engines"], "metaepoch": c["m"], "lines": c["lines"], "marked_lines": c["marked"]} for r, c in owners[-3:]],
            "distribution": {"boundaries_with_several_marked_demes": sum(1 for r, c in owners if c["marked"] > 1), "boundaries": len(owners),
                             "zero_or_plateau_objectives": sum(1 for r in results if r["spec"]["objective"]["kind"] in ("zero", "zerobest", "plateau"))}}


def replay_report(ctx, data):
    r = _work(data["seed"])
    vs = [v for v in r["viol"] if v["key"] == data.get("key")] or r["viol"]
    return (not vs), f"report probe seed {data['seed']}: {vs[0]['what'] if vs else 'no violation'}"
