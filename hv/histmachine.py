"""Correspondence between the history machine (coq/Model/Hist.v) and the implementation: a recorded trace is turned into the
machine's events (genomes interned, fitness as keys); every individual of every recorded generation must be expressible as
carried over from the deme's previous generation, freshly evaluated by the deme since that generation was completed, or the
seed itself (initial generation only) — otherwise the trace is INEXPRESSIBLE, which is reported with the individual as witness.
The machine rebuilds every generation from those sources inside Coq and the result is compared with the recorded histories."""
from .monitors import key

HEADER = "From Coq Require Import List Bool Arith ZArith. Import ListNotations.\nFrom HV Require Import Hist.\nOpen Scope Z_scope.\n"
FIXED = ("EADeme", "DEDeme", "SHADEDeme", "CMADeme", "LHSDeme", "SobolDeme", "CustomDeme")


class Inexpressible(Exception):
    pass


def z(x):
    return f"({x})" if x < 0 else str(x)


def trace_to_hcase(r):
    spec, ev = r["spec"], r["events"]
    local_gen = spec["sprout"].get("generator") == "nbc_local"
    gens, news = {}, {}
    for e in ev:
        if e["e"] == "gen":
            gens[(e["deme"], e["gi"])] = e["inds"]
        elif e["e"] == "new":
            news[e["id"]] = e
    intern = {}

    def gid(g):
        t = tuple(g)
        if t not in intern:
            intern[t] = len(intern) + 1
        return intern[t]
    idx, begun = {}, set()
    state = {}  # deme id -> {"gi": next generation index, "pend": [(gid, key, used)], "gens": [[(gid,key)]], "seed": (gid,key)|None}
    events, expected_gens = [], {}

    def begin(did):
        ne = news.get(did)
        if ne is None:
            raise Inexpressible(f"evaluation requested by a deme ({did}) that is never registered")
        fixed = "true" if ne["cls"] in FIXED else "false"
        if ne["parent"] is None:
            events.append(f"HBegin {fixed} None true")
            seed = None
        else:
            p = ne["parent"]
            if p not in state:
                raise Inexpressible(f"deme {did} created from unknown parent {p}")
            sg, sk = gid(ne["seed"][0]), key(ne["seed"][1])
            pg = state[p]["gens"]
            where = None
            if pg and (sg, sk) in pg[-1]:
                where, strict = (len(pg) - 1, pg[-1].index((sg, sk))), True
            elif local_gen:
                for gi in range(len(pg) - 1, -1, -1):
                    if (sg, sk) in pg[gi]:
                        where, strict = (gi, pg[gi].index((sg, sk))), False
                        break
            if where is None:
                raise Inexpressible(f"the seed of deme {did} is not an individual of its parent {p}'s {'history' if local_gen else 'current population'}")
            events.append(f"HBegin {fixed} (Some ({idx[p]}%nat, {where[0]}%nat, {where[1]}%nat)) {'true' if strict else 'false'}")
            seed = (sg, sk)
        idx[did] = len(idx)
        state[did] = {"gi": 0, "pend": [], "gens": [], "seed": seed}
        begun.add(did)

    def emit_gen(did):
        st = state[did]
        inds = gens.get((did, st["gi"]))
        if inds is None:
            return False
        srcs, built = [], []
        prev = st["gens"][-1] if st["gens"] else None
        for g, f in inds:
            t = (gid(g), key(f))
            k = next((i for i, (pg, pk, used) in enumerate(st["pend"]) if not used and (pg, pk) == t), None)
            if k is None:   # the same evaluation may be stored more than once (Nelder-Mead reports an unimproved best again)
                k = next((i for i, (pg, pk, used) in enumerate(st["pend"]) if (pg, pk) == t), None)
            if k is not None:
                st["pend"][k] = (t[0], t[1], True)
                srcs.append(f"Fresh {k}")
            elif prev is not None and t in prev:
                srcs.append(f"Carried {prev.index(t)}")
            elif prev is None and st["seed"] == t:
                srcs.append("SeedRef")
            else:
                raise Inexpressible(f"an individual of generation {st['gi']} of deme {did} (fitness key {t[1]}) neither belonged to the preceding generation "
                                    f"nor was evaluated by the deme after that generation was completed")
            built.append(t)
        events.append(f"HGen {idx[did]}%nat [{'; '.join(srcs)}]")
        st["gens"].append(built)
        st["pend"] = []
        st["gi"] += 1
        expected_gens.setdefault(did, []).append(built)
        return True
    for e in ev:
        k = e["e"]
        if k == "req":
            d = e["deme"]
            if d is None:
                continue
            if d not in begun:
                begin(d)
            events.append(f"HEval {idx[d]}%nat {gid(e['x'])} {z(key(e['v']))}")
            state[d]["pend"].append((gid(e["x"]), key(e["v"]), False))
        elif k == "new":
            if e["id"] not in begun:
                begin(e["id"])
            emit_gen(e["id"])
        elif k == "gsc" and e["where"] == "deme" and e["deme"] in state:
            emit_gen(e["deme"])
        elif k == "local" and e["deme"] in state:
            emit_gen(e["deme"])
    # every recorded generation must have been placed
    for (did, gi) in gens:
        if did not in state or gi >= state[did]["gi"]:
            raise Inexpressible(f"generation {gi} of deme {did} was recorded in its history but no engine iteration of that deme accounts for it")
    nev = sum(1 for x in events if x.startswith("HEval"))
    expected = [len(events), nev]
    for did in sorted(idx, key=lambda q: idx[q]):
        expected.append(-1)
        for g in expected_gens.get(did, []):
            expected.append(-2)
            for gg, kk in g:
                expected += [gg, kk]
    return f"hreplay [{'; '.join(events)}]", expected, {"events": len(events), "evals": nev, "generations": sum(len(v) for v in expected_gens.values())}


def case_of(r):
    if r["error"]:
        return {"skip": "implementation raised " + r["error"]["type"]}
    import math
    for e in r["events"]:
        if e["e"] == "gen" and any(key(f) != key(f) or (f & 0x7FF0000000000000) == 0x7FF0000000000000 and (f & 0xFFFFFFFFFFFFF) != 0 for _, f in e["inds"]):
            return {"skip": "NaN fitness"}
    try:
        term, expected, meta = trace_to_hcase(r)
        return {"term": term, "expected": expected, "meta": meta}
    except Inexpressible as ex:
        return {"inexpressible": str(ex)}
    except Exception:
        import traceback
        return {"inexpressible": "converter failed: " + traceback.format_exc()[-500:]}


def compare(expected, got):
    if expected == got:
        return None
    if got[:1] != expected[:1]:
        return f"the history machine accepted {got[0] if got else None} of {expected[0]} events"
    j = next((i for i, (a, b) in enumerate(zip(expected, got)) if a != b), min(len(expected), len(got)))
    return f"histories differ at digest position {j}: implementation {expected[j:j + 6]} machine {got[j:j + 6]}"
