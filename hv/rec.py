"""Recorder: runs one generated configuration on the real package with recording pass-throughs installed
from OUTSIDE the package (no /repo hooks), and returns the trace: a list of events (dicts) with every float
as a 64-bit pattern, plus abstract snapshots of the tree.  Arrays are copied at the moment they are observed.

Event kinds (field "e"):
  new      deme created         id level cls started_at parent seed pop(initial population) nev
  step     run_step begins      m (metaepoch_count before increment)
  gsc      GSC consulted        v where(main|deme|step) m snap
  run      deme.run_metaepoch begins/ends   id ph(b|e) active
  call     objective invoked    lvl deme x v
  req      evaluation requested through a deme's counting wrapper   deme x v
  eng      engine.run call      deme cls parents out
  gen      generation appended to a deme's history (detected at snapshot time)
  lsc      LSC verdict          id v
  cma      cma ask/tell/stop    deme op n|v
  local    scipy result         deme nfev nit iters
  round    sprouting round      stages: [(name, {deme: [inds]})...] seeds {deme: [inds]} centroids [...] created [...]
  hib      flags after a round  {id: bool}
  end      run() returned       m snap
"""
import functools
import hashlib
import struct

import numpy as np


def fb(x):
    return struct.unpack("<Q", struct.pack("<d", float(x)))[0]


def gbits(g):
    return [fb(v) for v in np.asarray(g, dtype=float).ravel()]


def ind(i):
    return (gbits(i.genome), fb(i.fitness if i.fitness is not None else float("nan")))


class Recorder:
    def __init__(self):
        self.ev = []
        self.stack = []  # current deme ids (creation / run_metaepoch context)
        self.patches = []
        self.gen_digest = {}  # (deme id, flat generation index) -> digest at first sight
        self.mutated = []  # history entries whose content changed after they were recorded
        self.eng_depth = 0

    def emit(self, **kw):
        self.ev.append(kw)

    def cur(self):
        return self.stack[-1] if self.stack else None

    def patch(self, obj, name, new):
        self.patches.append((obj, name, obj.__dict__[name] if isinstance(obj, type) and name in obj.__dict__ else getattr(obj, name)))
        setattr(obj, name, new)

    def unpatch(self):
        for obj, name, old in reversed(self.patches):
            setattr(obj, name, old)
        self.patches = []

    # ------------------------------------------------------------------ abstract state of the live tree
    def snap(self, tree, deep=True):
        demes = []
        for lvl, level in enumerate(tree._levels):
            for d in level:
                hist = d._history
                gens = [[len(g) for g in me] for me in hist]
                rec = {"id": d._id, "lvl": lvl, "level_attr": d._level, "cls": type(d).__name__, "started": d._started_at, "active": bool(d._active),
                       "hib": bool(d._hibernating), "nev": int(d.n_evaluations), "wrapper_nev": int(d._problem.n_evaluations),
                       "gens": gens, "children": [c._id for c in d._children]}
                if deep:
                    flat = [g for me in hist for g in me]
                    for gi, g in enumerate(flat):
                        h = hashlib.blake2b(digest_size=8)
                        for i in g:
                            h.update(np.asarray(i.genome, dtype=float).tobytes())
                            h.update(struct.pack("<d", float(i.fitness) if i.fitness is not None else float("nan")))
                        dg = h.hexdigest()
                        key = (d._id, gi)
                        if key not in self.gen_digest:
                            self.gen_digest[key] = dg
                            self.emit(e="gen", deme=d._id, gi=gi, inds=[ind(i) for i in g])
                        elif self.gen_digest[key] != dg:
                            self.mutated.append({"deme": d._id, "generation": gi, "at_event": len(self.ev)})
                            self.gen_digest[key] = dg
                demes.append(rec)
        return {"m": int(tree.metaepoch_count), "demes": demes}


def install(rec, spec, cfg, info):
    """patch the package (class / module attributes) for the duration of one run"""
    import cma
    import pyhms.tree as tree_mod
    from pyhms.demes import abstract_deme, cma_deme, de_deme, ea_deme, lhs_deme, local_deme, shade_deme, sobol_deme
    from pyhms.demes.single_pop_eas import de as de_mod
    from pyhms.demes.single_pop_eas import sea as sea_mod

    # --- deme construction context + request recorder on the deme's own counting wrapper
    orig_abs_init = abstract_deme.AbstractDeme.__init__

    def abs_init(self, deme_init_args):
        orig_abs_init(self, deme_init_args)
        prob = self._problem
        inner_eval = prob.evaluate
        did = self._id

        def evaluate(phenome, *a, **k):
            x = np.array(phenome, dtype=float, copy=True)
            v = inner_eval(phenome, *a, **k)
            rec.emit(e="req", deme=did, x=gbits(x), v=fb(v))
            return v
        prob.evaluate = evaluate
    rec.patch(abstract_deme.AbstractDeme, "__init__", abs_init)

    orig_ifc = tree_mod.init_from_config

    def ifc(*a, **k):
        new_id = k.get("new_id")
        rec.stack.append(new_id)
        try:
            d = orig_ifc(*a, **k)
        finally:
            rec.stack.pop()
        pd = k.get("parent_deme")
        seed = k.get("sprout_seed")
        rec.emit(e="new", id=d._id, level=d._level, cls=type(d).__name__, started=d._started_at, parent=(pd._id if pd is not None else None),
                 seed=(ind(seed) if seed is not None else None), target_level=k.get("target_level"),
                 pop=[ind(i) for i in d._history[0][0]] if d._history and d._history[0] else [], nev=int(d.n_evaluations))
        return d
    rec.patch(tree_mod, "init_from_config", ifc)

    # --- run_metaepoch context for every deme class
    for mod, cname in ((ea_deme, "EADeme"), (de_deme, "DEDeme"), (shade_deme, "SHADEDeme"), (cma_deme, "CMADeme"), (local_deme, "LocalDeme"),
                       (lhs_deme, "LHSDeme"), (sobol_deme, "SobolDeme")):
        cls = getattr(mod, cname)
        orig = cls.__dict__["run_metaepoch"]

        def mk(orig):
            @functools.wraps(orig)
            def run_metaepoch(self, tree):
                rec.stack.append(self._id)
                rec.emit(e="run", id=self._id, ph="b", m=int(tree.metaepoch_count) if hasattr(tree, "metaepoch_count") else -1)
                try:
                    return orig(self, tree)
                finally:
                    rec.stack.pop()
                    rec.emit(e="run", id=self._id, ph="e", active=bool(self._active))
            return run_metaepoch
        rec.patch(cls, "run_metaepoch", mk(orig))

    # --- engines
    def wrap_run(cls):
        orig = cls.__dict__["run"]

        @functools.wraps(orig)
        def run(self, parents, *a, **k):
            outer = rec.eng_depth == 0
            rec.eng_depth += 1
            if outer:
                par = [ind(i) for i in parents]
                i0 = len(rec.ev)
            try:
                out = orig(self, parents, *a, **k)
            finally:
                rec.eng_depth -= 1
            if outer:
                rec.emit(e="eng", deme=rec.cur(), cls=type(self).__name__, parents=par, out=[ind(i) for i in out], i0=i0,
                         parents_after=[ind(i) for i in parents])
            return out
        rec.patch(cls, "run", run)
    for cls in (sea_mod.BaseSEA, sea_mod.SEAWithAdaptiveMutation, sea_mod.MWEA, de_mod.DE, de_mod.SHADE):
        wrap_run(cls)

    # --- cma
    for nm in ("ask", "tell", "stop"):
        o = getattr(cma.CMAEvolutionStrategy, nm)

        def mk(o, nm):
            def w(self, *a, **k):
                r = o(self, *a, **k)
                if nm == "ask":
                    rec.emit(e="cma", deme=rec.cur(), op="ask", xs=[gbits(x) for x in r])
                elif nm == "tell":
                    rec.emit(e="cma", deme=rec.cur(), op="tell", xs=[gbits(x) for x in a[0]], vs=[fb(v) for v in a[1]])
                else:
                    rec.emit(e="cma", deme=rec.cur(), op="stop", v=bool(r))
                return r
            return w
        rec.patch(cma.CMAEvolutionStrategy, nm, mk(o, nm))

    # --- scipy local search
    orig_cb = local_deme.LocalDeme._history_callback

    def cb(self, intermediate_result):
        rec.emit(e="liter", deme=self._id, x=gbits(np.copy(intermediate_result.x)), f=fb(intermediate_result.fun))
        return orig_cb(self, intermediate_result)
    rec.patch(local_deme.LocalDeme, "_history_callback", cb)

    class SoptProxy:
        def __init__(self, real):
            self._real = real

        def __getattr__(self, n):
            return getattr(self._real, n)

        def minimize(self, *a, **k):
            r = self._real.minimize(*a, **k)
            rec.emit(e="local", deme=rec.cur(), nfev=int(r.nfev), nit=int(getattr(r, "nit", -1)), x=gbits(r.x), f=fb(r.fun), x0=gbits(a[1]))
            return r
    rec.patch(local_deme, "sopt", SoptProxy(local_deme.sopt))

    # --- centroid reads (passive)
    orig_centroid = abstract_deme.AbstractDeme.centroid

    def centroid_get(self):
        c = orig_centroid.fget(self)
        cur = self.current_population
        rec.emit(e="centroid", deme=self._id, c=(gbits(c) if c is not None else None), pop=[gbits(i.genome) for i in cur])
        return c
    rec.patch(abstract_deme.AbstractDeme, "centroid", property(centroid_get))

    # --- tree stepping
    orig_step = tree_mod.DemeTree.run_step

    def run_step(self):
        rec.emit(e="step", m=int(self.metaepoch_count), snap=rec.snap(self))
        r = orig_step(self)
        rec.emit(e="stepend", m=int(self.metaepoch_count), snap=rec.snap(self), bests=bests(self))
        return r
    rec.patch(tree_mod.DemeTree, "run_step", run_step)
    orig_sprout = tree_mod.DemeTree.run_sprout

    def run_sprout(self):
        before = rec.snap(self, deep=False)
        rec.emit(e="round_b", m=int(self.metaepoch_count), snap=before)
        r = orig_sprout(self)
        rec.emit(e="round_e", m=int(self.metaepoch_count), hib={d._id: bool(d._hibernating) for lvl in self._levels for d in lvl},
                 snap=rec.snap(self, deep=False))
        return r
    rec.patch(tree_mod.DemeTree, "run_sprout", run_sprout)


def bests(tree):
    ds = {}
    for lvl in tree._levels:
        for d in lvl:
            b = d.best_individual
            ds[d._id] = ind(b) if b is not None else None
    anyb = [d for lvl in tree._levels for d in lvl if d.best_individual is not None]
    return {"tree": (ind(tree.best_individual) if anyb else None), "demes": ds}


class RecGSC:
    def __init__(self, inner, rec):
        self.inner, self.rec = inner, rec

    def __call__(self, tree):
        v = self.inner(tree)
        r = self.rec
        where = "deme" if r.stack else "tree"
        # the condition must be consulted with the tree; if the caller hands over something else the consult is still recorded (against
        # the real tree's state) so that the monitors can judge what the run did with the answer
        t = tree if hasattr(tree, "_levels") else getattr(r, "tree", None)
        if t is None:
            return v
        r.emit(e="gsc", v=bool(v), where=where, deme=r.cur(), m=int(t.metaepoch_count), snap=r.snap(t), total=int(t.n_evaluations), arg_is_tree=t is tree)
        return v

    def __str__(self):
        return f"Rec({self.inner})"


class RecLSC:
    def __init__(self, inner, rec):
        self.inner, self.rec = inner, rec

    def __call__(self, deme):
        v = self.inner(deme)
        self.rec.emit(e="lsc", id=deme._id, v=bool(v), mc=int(deme.metaepoch_count))
        return v

    def __str__(self):
        return f"Rec({self.inner})"


def cands_copy(c):
    return {d._id: {"inds": [ind(i) for i in dc.individuals], "nbc": (fb(dc.features.nbc_mean_distance) if dc.features.nbc_mean_distance is not None else None)}
            for d, dc in c.items()}


class RecStage:
    """pass-through generator / filter recording its output"""

    def __init__(self, inner, rec, name, is_gen):
        self.inner, self.rec, self.name, self.is_gen = inner, rec, name, is_gen

    def __call__(self, *a):
        if self.is_gen:
            tree = a[0]
            pops = {d._id: {"active": bool(d._active), "lvl": l, "cur": [ind(i) for i in d.current_population], "started": d._started_at,
                            "hist_len": len(d._history), "best": (ind(d.best_individual) if d.best_individual is not None else None)}
                    for l, lvl in enumerate(tree._levels) for d in lvl}
            self.rec.emit(e="pops", pops=pops, m=int(tree.metaepoch_count))
        else:
            tree = a[1]
            self.rec.emit(e="stage_in", name=self.name, sib={d._id: {"lvl": l, "active": bool(d._active), "cur": [gbits(i.genome) for i in d.current_population],
                                                                         "children_seeds": [gbits(c._sprout_seed.genome) for c in d._children]}
                                                                 for l, lvl in enumerate(tree._levels) for d in lvl})
        out = self.inner(*a)
        self.rec.emit(e="stage", name=self.name, out=cands_copy(out), params=stage_params(self.inner))
        return out


def stage_params(f):
    d = {}
    for k in ("min_distance", "norm_ord", "min_distance_factor", "check_only_active", "limit", "distance_factor", "truncation_factor"):
        if hasattr(f, k):
            v = getattr(f, k)
            d[k] = v if isinstance(v, (int, bool)) else float(v)
    return d


def _install_looking_gsc(tree):
    """a user-style global stop condition ("stop when good enough") reads the best individual found so far at every consult — also in the
    middle of a deme's metaepoch, after a generation was evaluated and before it is appended to the history"""
    inner = tree._gsc

    class Looking:
        def __call__(self, t):
            try:
                t.best_individual
                for _, d in t.all_demes:
                    d.best_individual
                t.n_evaluations
            except Exception:
                pass
            return inner(t)

        def __str__(self):
            return f"Looking({inner})"
    tree._gsc = Looking()


def run_spec(spec, mode="run", probes=None, shared=None):
    """runs the configuration; returns {"spec", "events", "mutated", "error", "summary"...}"""
    import random as pyrandom
    import warnings

    import pyhms.tree as tree_mod
    from pyhms.sprout.sprout_mechanisms import SproutMechanism
    from . import gen

    warnings.filterwarnings("ignore")
    np.seterr(all="ignore")
    rec = Recorder()

    def ow(level, f):
        def g(x, *a, **k):
            xx = np.array(x, dtype=float, copy=True)
            v = f(x, *a, **k)
            rec.emit(e="call", lvl=level, deme=rec.cur(), x=gbits(xx), v=fb(v))
            return v
        return g
    cfg, info = gen.build(spec, objective_wrapper=ow, session=shared)
    cfg.gsc = RecGSC(cfg.gsc, rec)
    for lv in cfg.levels:
        lv.lsc = RecLSC(lv.lsc, rec)
    m = cfg.sprout_mechanism
    mech = SproutMechanism(RecStage(m.candidates_generator, rec, "gen:" + type(m.candidates_generator).__name__, True),
                           [RecStage(f, rec, "deme:" + type(f).__name__, False) for f in m.deme_filter_chain],
                           [RecStage(f, rec, "tree:" + type(f).__name__, False) for f in m.tree_filter_chain])
    orig_get = mech.get_seeds

    def get_seeds(tree):
        r = orig_get(tree)
        rec.emit(e="seeds", seeds={d._id: [ind(i) for i in dc.individuals] for d, dc in r.items()})
        return r
    mech.get_seeds = get_seeds
    cfg.sprout_mechanism = mech
    res = {"spec": spec, "error": None}
    install(rec, spec, cfg, info)
    tree = None
    try:
        tree = tree_mod.DemeTree(cfg)
        rec.tree = tree
        rec.emit(e="init", snap=rec.snap(tree), bests=bests(tree), m=0)
        if spec.get("looking_gsc"):
            _install_looking_gsc(tree)
        if probes and "after_init" in probes:
            probes["after_init"](tree, rec, info)
        if mode == "run":
            tree.run()
        else:
            mode(tree, rec, info)
        rec.emit(e="end", m=int(tree.metaepoch_count), snap=rec.snap(tree), total=int(tree.n_evaluations), bests=bests(tree),
                 best=(ind(tree.best_individual) if any(d.best_individual is not None for l in tree._levels for d in l) else None))
    except Exception as ex:  # the implementation raised: recorded, the monitors decide what it means
        import traceback
        res["error"] = {"type": type(ex).__name__, "msg": str(ex)[:300], "tb": traceback.format_exc()[-1500:]}
    finally:
        rec.unpatch()
    res["events"] = rec.ev
    res["mutated"] = rec.mutated
    res["tree"] = tree
    res["info"] = info
    return res
