"""Self-validation against HARMLESS rewrites (/verif/refactors/*.diff): behaviour-preserving refactorings of pyhms written by independent
agents (55 tests pass, seeded-run digests byte-identical).  Each is applied to a scratch worktree; the translators must accept the rewritten
source and every GenEquiv proof must still go through — i.e. no check may alarm on them.   usage: python -m hv.reftest [names...]

This is the counterpart of hv.seedtest (changes that break a property and must be caught).  The patches are NOT applied to /repo."""
import json
import os
import subprocess
import sys

VERIF = os.path.dirname(os.path.dirname(os.path.abspath(__file__)))
PY = "/venv/bin/python"
# refactorings the framework is known not to look through (the check would report the broken obligation with no-failing-input-found)
EXPECTED_TO_FAIL = {"ref-B": "SHADEDeme.run_metaepoch rewritten with a `stopped_by_gsc` flag and `break`: the statement compiler has no `break`",
                    "ref-J": "two of its sixteen edits restructure loops: DEDeme's loop with a `gsc_reached` flag in the condition and merged history appends; "
                             "NoActiveNonrootDemes looping over `tree.levels[1:]` instead of level numbers (ref-J-part is the same patch without de_deme.py / gsc.py)"}
TARGETS = ("Proofs/GenEquivCommon.vo Proofs/GenEquivProblem.vo Proofs/GenEquivEntropy.vo Proofs/DriverCode.vo Proofs/GenEquivStops.vo Proofs/GenEquivLevelLimit.vo "
           "Proofs/GenEquivDemeLimit.vo Proofs/GenEquivFar.vo Proofs/GenEquivAccessors.vo Proofs/GenEquivPop.vo Proofs/GenEquivGenerators.vo Proofs/GenEquivMechanism.vo "
           "Proofs/GenEquivOps.vo Proofs/GenEquivCtor.vo Proofs/GenEquivMinimize.vo Proofs/GenEquivIds.vo Proofs/GenEquivOrder.vo Proofs/GenEquivNBC.vo Proofs/GenEquivPersist.vo Proofs/GenEquivDirection.vo")


def sh(cmd, cwd=None, env=None, timeout=3000):
    e = dict(os.environ)
    if env:
        e.update(env)
    r = subprocess.run(cmd, shell=True, cwd=cwd, env=e, capture_output=True, text=True, timeout=timeout)
    return r.returncode, r.stdout + r.stderr


REGEN = "import sys, json; sys.path.insert(0, %r); from hv import common; e, t = common.regen(); print('REGEN ' + json.dumps(e))" % VERIF


def regen(repo):
    rc, out = sh(f"{PY} -c \"{REGEN}\"", cwd=VERIF, env={"VERIF_REPO": repo, "PYTHONPATH": repo, "PYTHONHASHSEED": "0"})
    for ln in out.splitlines():
        if ln.startswith("REGEN "):
            return json.loads(ln[6:])
    return {"regen": out[-400:]}


def main():
    names = sys.argv[1:] or sorted(f[:-5] for f in os.listdir(os.path.join(VERIF, "refactors")) if f.endswith(".diff"))
    bad = 0
    for name in names:
        wt = f"/tmp/reftest-{name}"
        sh(f"git -C /repo worktree remove --force {wt}")
        sh(f"git -C /repo worktree add -q --detach {wt} HEAD")
        try:
            rc, out = sh(f"git apply {VERIF}/refactors/{name}.diff", cwd=wt)
            if rc != 0:
                print(name, "PATCH DOES NOT APPLY (the pinned tree moved on)")
                continue
            errs = regen(wt)
            rc, out = sh(f"make -j8 -k {TARGETS} 2>&1 | grep -A6 -E '^Error|rror:' | head -20", cwd=os.path.join(VERIF, "coq"))
            ok = not errs and not out.strip()
            expected = name in EXPECTED_TO_FAIL
            print(name, "accepted" if ok else ("NOT ACCEPTED (known limitation: %s)" % EXPECTED_TO_FAIL[name] if expected else "NOT ACCEPTED"),
                  {k: v[:200] for k, v in errs.items()}, out.strip()[:400], flush=True)
            if ok == expected:
                bad += 1
        finally:
            sh(f"git -C /repo worktree remove --force {wt}")
    print("restoring Gen/ from /repo:", regen(os.environ.get("VERIF_REPO", "/repo")) or "ok")
    sys.exit(1 if bad else 0)


if __name__ == "__main__":
    main()
