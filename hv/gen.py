"""Configuration generator: JSON-able specs of whole HMS runs (every choice from one PRNG), and the
builder that turns a spec into pyhms objects.  Specs are what replay files store."""
import json
import math
import random

import numpy as np

SEA_ENGINES = ["SEA", "SEAWithCrossover", "GAStyleSEA", "SEAWithAdaptiveMutation", "MWEA"]
POP_ENGINES = SEA_ENGINES + ["DE", "DEdither", "SHADE"]
ROOT_ENGINES = POP_ENGINES + ["LHS", "Sobol"]
LEAF_ENGINES = POP_ENGINES + ["CMA", "CMAwarm", "CMAstds", "Local", "LHS", "Sobol", "Custom"]
MID_ENGINES = POP_ENGINES + ["CMA", "CMAwarm", "LHS", "Custom"]

# ----------------------------------------------------------------------------- objectives (pure, deterministic)


def make_objective(o, dim):
    kind = o["kind"]
    sh = np.array(o.get("shift", [0.0] * dim), dtype=float)
    sc = float(o.get("scale", 1.0))

    if kind == "sphere":
        f = lambda x: float(np.sum((x - sh) ** 2)) * sc
    elif kind == "funnel":
        c2 = sh + np.array(o["second"])
        f = lambda x: float(min(np.sum((x - sh) ** 2), 0.5 + 2.0 * np.sum((x - c2) ** 2))) * sc
    elif kind == "rastrigin":
        f = lambda x: float(np.sum((x - sh) ** 2 - 2.0 * np.cos(3.0 * math.pi * (x - sh)) + 2.0)) * sc
    elif kind == "linear":
        w = np.array(o["w"], dtype=float)
        f = lambda x: float(np.dot(w, x)) * sc
    elif kind == "plateau":
        f = lambda x: float(np.floor(np.sum(np.abs(x - sh)) * o.get("steps", 2.0))) * sc
    elif kind == "nanhole":  # undefined (NaN) on part of the box, a shifted sphere elsewhere: only used by forced batches (C12 size, C19 RNG)
        thr = float(o["nan_below"])
        f = lambda x: float("nan") if x[0] < thr else float(np.sum((x - sh) ** 2))
    elif kind == "infwall":   # a hard-constraint penalty: +inf (a legitimate, non-NaN value) on part of the box, a shifted sphere elsewhere
        thr = float(o["inf_below"])
        f = lambda x: float("inf") if x[0] < thr else float(np.sum((x - sh) ** 2))
    elif kind == "zero":
        f = lambda x: 0.0
    elif kind == "zerobest":  # optimum value exactly 0.0 at the shift, positive elsewhere (min) — exercises "best == 0.0"
        f = lambda x: float(np.sum(np.abs(x - sh)))
    else:
        raise ValueError(kind)
    # a fresh contiguous copy: numpy reductions round differently for strided views, and the objective must be a
    # function of the VALUES only (deterministic objective)
    if o.get("negate"):
        return lambda x: -f(np.array(x, dtype=float, copy=True, order="C"))
    return lambda x: f(np.array(x, dtype=float, copy=True, order="C"))


def gen_box(rng, dim, style=None):
    style0 = rng.choice(["sym", "asym", "decimal", "tiny", "wide", "narrow", "sym", "asym"])
    style = style or style0
    box = []
    for _ in range(dim):
        if style == "sym":
            a = rng.choice([1.0, 5.0, 5.12, 10.0])
            box.append([-a, a])
        elif style == "asym":
            lo = rng.uniform(-10, 5)
            box.append([lo, lo + rng.uniform(0.5, 12)])
        elif style == "decimal":
            box.append(rng.choice([[-0.1, 0.2], [0.1, 0.3], [-0.3, -0.1], [0.7, 2.3]]))
        elif style == "tiny":
            lo = rng.choice([6.3, 1.0, -2.7, 100.1])
            hi = lo
            for _ in range(rng.randint(3, 40)):
                hi = math.nextafter(hi, math.inf)
            box.append([lo, hi])
        elif style == "wide":
            box.append([-1e6, 1e6 * rng.uniform(0.5, 2)])
        else:
            c = rng.uniform(-3, 3)
            box.append([c - 1e-6, c + 1e-6])
    return box, style


def gen_objective(rng, dim, box, maximize, kind=None):
    kind0 = rng.choice(["sphere", "sphere", "funnel", "rastrigin", "linear", "plateau", "zero", "zerobest", "funnel", "infwall", "sphere", "funnel"])
    kind = kind or kind0
    o = {"kind": kind}
    inside = [lo + rng.random() * (hi - lo) for lo, hi in box]
    if kind in ("sphere", "rastrigin", "plateau", "zerobest"):
        o["shift"] = inside if rng.random() < 0.7 else [lo - 0.3 * (hi - lo) for lo, hi in box]  # optimum outside the box
    if kind == "infwall":
        o["shift"] = inside
        o["inf_below"] = box[0][0] + rng.choice([0.15, 0.3]) * (box[0][1] - box[0][0])
    if kind == "nanhole":
        o["shift"] = inside
        o["nan_below"] = box[0][0] + rng.choice([0.2, 0.35, 0.5]) * (box[0][1] - box[0][0])
    if kind == "funnel":
        o["shift"] = inside
        o["second"] = [rng.uniform(-0.5, 0.5) * (hi - lo) for lo, hi in box]
    if kind == "linear":
        o["w"] = [rng.choice([-1.0, 1.0, 0.5, 0.0, 2.0]) for _ in range(dim)]
    if kind == "plateau":
        o["steps"] = rng.choice([0.5, 1.0, 3.0]) / max(1e-9, max(hi - lo for lo, hi in box)) * dim
    if maximize:
        o["negate"] = True  # maximise -f: same landscape
    return o


def gen_lsc(rng, level, height):
    c = rng.random()
    if c < 0.3:
        return {"kind": "MetaepochLimit", "n": rng.randint(1, 6)}
    if c < 0.5:
        return {"kind": "DontStop"}
    if c < 0.65:
        return {"kind": "FitnessSteadiness", "dev": rng.choice([1e-3, 0.1, 10.0]), "n": rng.randint(1, 4)}
    if c < 0.78 and level < height - 1:
        return {"kind": "AllChildrenStopped"}
    if c < 0.9:
        return {"kind": "Scripted", "stop_after": rng.randint(1, 7)}
    if c < 0.94:
        return {"kind": "DontRun"}
    return {"kind": "MetaepochLimit", "n": rng.randint(2, 8)}


def gen_level(rng, level, height, dim, force_engine=None):
    if force_engine:
        eng = force_engine
    elif level == 0:
        eng = rng.choice(ROOT_ENGINES)
    elif level == height - 1:
        eng = rng.choice(LEAF_ENGINES)
    else:
        eng = rng.choice(MID_ENGINES)
    lv = {"engine": eng, "lsc": gen_lsc(rng, level, height)}
    lv["pop"] = rng.randint(4, 24 if level == 0 else 12)
    lv["gens"] = rng.randint(1, 4)
    lv["sample_std"] = rng.choice([0.05, 0.3, 1.0, 3.0])
    if eng in SEA_ENGINES:
        lv["mutation_std"] = rng.choice([0.01, 0.2, 1.0, 5.0])
        lv["p_mutation"] = rng.choice([1.0, 1.0, 0.3, 0.7, 0.1])
        lv["p_crossover"] = rng.choice([0.7, 1.0, 0.2])
        lv["k_elites"] = rng.choice([1, 1, 2, 3, 0])
        if eng == "SEAWithAdaptiveMutation":
            lv["mutation_std_step"] = rng.choice([0.1, 0.5])
        if eng == "MWEA":
            lv["pop"] = rng.randint(6, 12)
            lv["election_group_size"] = rng.randint(3, min(8, lv["pop"]))
            lv["k_elites"] = rng.randint(1, 3)
    if eng in ("DE", "DEdither"):
        lv["scaling"] = rng.choice([0.5, 0.8, 1.2])
        lv["crossover"] = rng.choice([0.9, 0.5, 0.1])
        lv["pop"] = max(lv["pop"], 5)
    if eng == "SHADE":
        lv["memory"] = rng.randint(2, 6)
        lv["pop"] = max(lv["pop"], 6)
    if eng in ("CMA", "CMAwarm", "CMAstds"):
        lv["sigma0"] = rng.choice([0.1, 0.5, 2.0])
        lv["gens"] = rng.randint(1, 5)
    if eng == "Local":
        lv["maxiter"] = rng.choice([None, 3, 10])
        lv["method"] = rng.choice(["L-BFGS-B", "L-BFGS-B", "Nelder-Mead", "Powell"])   # bound-aware methods whose callback receives an OptimizeResult
        if lv["method"] in ("Nelder-Mead", "Powell") and lv["maxiter"] is None:
            lv["maxiter"] = 15
    return lv


def gen_gsc(rng, height):
    c = rng.random()
    if c < 0.3:
        return {"kind": "MetaepochLimit", "n": rng.randint(0, 12)}
    if c < 0.5:
        return {"kind": "SingularEval", "limit": rng.randint(30, 1500)}
    if c < 0.62:
        w = rng.choice(["equal", "root", None, "list", "equal_str", "root_str"])   # *_str: the plain string instead of the WeightingStrategy member
        g = {"kind": "FitnessEval", "limit": rng.randint(30, 1500), "weights": w}
        if w == "list":
            g["weights"] = [rng.choice([0, 1, 1, 2, 3, 0.5, 1.5]) for _ in range(height)]   # halves are exact in binary64; the machine counts in half units
        return g
    if c < 0.72:
        return {"kind": "Precision", "eps": rng.choice([1e-2, 1e-1, 1.0]), "cap": rng.randint(6, 14)}
    if c < 0.8:
        return {"kind": "RootStopped"}
    if c < 0.88:
        return {"kind": "AllStopped"}
    if c < 0.96:
        return {"kind": "NoActiveNonroot", "n": rng.randint(0, 3), "cap": rng.randint(8, 16)}
    return {"kind": "DontRun"}


def gen_sprout(rng, height):
    c = rng.random()
    L = rng.randint(1, 4)
    if c < 0.3:
        return {"kind": "simple", "far": rng.choice([0.0, 0.05, 0.5, 2.0]), "level_limit": L}
    if c < 0.55:
        return {"kind": "nbc", "gen_dist": rng.choice([1.0, 2.0, 3.0]), "trunc": rng.choice([0.5, 0.7, 1.0]), "fil_dist": rng.choice([0.0, 1.0, 3.0]), "level_limit": L}
    gen = rng.choice(["best", "nbc", "nbc", "nbc_local" if height >= 2 else "nbc"])
    dfs = []
    if gen == "best":
        if rng.random() < 0.7:
            dfs.append({"kind": "FarEnough", "d": rng.choice([0.0, 0.1, 1.0]), "ord": rng.choice([2, 1, "inf"])})
    else:
        if rng.random() < 0.7:
            dfs.append({"kind": "NBC_FarEnough", "f": rng.choice([0.0, 1.0, 2.0]), "ord": rng.choice([2, 2, 1, "inf"]), "only_active": rng.random() < 0.5})
    if rng.random() < 0.7:
        dfs.append({"kind": "DemeLimit", "n": rng.randint(1, 3)})
    tfs = [{"kind": "LevelLimit", "n": L}]
    if rng.random() < 0.5:
        tfs.insert(rng.randint(0, 1), {"kind": "SkipSameSprout"})
    return {"kind": "custom", "generator": gen, "gen_dist": rng.choice([1.0, 2.0]), "trunc": rng.choice([0.5, 0.8, 1.0]), "deme_filters": dfs, "tree_filters": tfs, "level_limit": L}


def gen_spec(seed, **force):
    rng = random.Random(seed)
    height = force.get("height") or rng.choice([1, 2, 2, 2, 3, 3])
    dim = force.get("dim") or rng.randint(2, 5)
    box, style = gen_box(rng, dim, force.get("box_style"))
    if "box" in force:
        box, style = force["box"], "forced"
    maximize = force.get("maximize", rng.random() < 0.4)
    spec = {"seed": seed, "dim": dim, "box": box, "box_style": style, "maximize": maximize, "height": height}
    spec["objective"] = force.get("objective") or gen_objective(rng, dim, box, maximize, force.get("objective_kind"))
    engines = force.get("engines")
    spec["levels"] = [gen_level(rng, l, height, dim, engines[l] if engines else None) for l in range(height)]
    for lv, patch in zip(spec["levels"], force.get("levels_patch") or []):
        lv.update(patch or {})
    if force.get("local_method"):          # C01 quantifies over the L-BFGS-B local deme only (scipy's Powell line search probes a few ulps beyond a face)
        for lv in spec["levels"]:
            if lv["engine"] == "Local":
                lv["method"] = force["local_method"]
    spec["gsc"] = force.get("gsc") or gen_gsc(rng, height)
    spec["sprout"] = force.get("sprout") or gen_sprout(rng, height)
    spec["hibernation"] = force.get("hibernation", rng.random() < 0.35)
    if any(l["engine"] == "SEAWithAdaptiveMutation" for l in spec["levels"]) and "hibernation" not in force:
        # pyhms computes a negative mutation std for a hibernating adaptive deme (iterations since last sprout < 0)
        # and numpy raises; outside every listed property, so the generator does not combine the two
        spec["hibernation"] = False
    spec["random_seed"] = rng.randint(0, 10 ** 6)
    spec["wrappers"] = force.get("wrappers") or rng.choice(["none", "none", "counting", "stats", "shared_counting"])
    if spec["wrappers"] == "shared_counting" and rng.random() < 0.5:
        spec["pre_evals"] = rng.randint(1, 4)
    if spec["wrappers"] == "cutoff" and spec["gsc"]["kind"] == "Precision":
        spec["wrappers"] = "none"      # the precision setting installs its own shared wrapper
    if spec["wrappers"] == "cutoff":
        spec["cutoff"] = force.get("cutoff") or rng.choice([15, 40, 90, 200, 450])
        spec["has_cutoff"] = True
    if force.get("narrowing_boxes") and spec["wrappers"] in ("none", "counting", "stats") and spec["gsc"]["kind"] != "Precision":
        spec["narrowing_boxes"] = True
    if force.get("per_level_problems") and spec["wrappers"] in ("none", "counting", "stats") and spec["gsc"]["kind"] != "Precision":
        spec["level_offsets"] = [0.0] + [rng.choice([0.25, -1.5, 3.0]) for _ in range(height - 1)]
    if force.get("looking_gsc"):       # the stop condition is wrapped by a user-style one that reads tree.best_individual / n_evaluations at every consult
        spec["looking_gsc"] = True
    spec["cap_metaepochs"] = force.get("cap_metaepochs", 14)
    spec["cap_evals"] = force.get("cap_evals", 3000)
    # nbc_local generator needs >= 2 levels below... it iterates levels[:-2] and levels[-2]
    # std / scales relative to the box so that repair is exercised
    rmean = sum(hi - lo for lo, hi in box) / dim
    for lv in spec["levels"]:
        for k in ("mutation_std", "sample_std", "sigma0", "mutation_std_step"):
            if k in lv:
                lv[k] = lv[k] * rmean / 4.0
    for f in spec["sprout"].get("deme_filters", []):
        if f["kind"] == "FarEnough":
            f["d"] *= rmean / 4.0
    if spec["sprout"]["kind"] == "simple":
        spec["sprout"]["far"] *= rmean / 4.0
    return spec


# ----------------------------------------------------------------------------- builder


class Scripted:
    """user-defined local stop condition: stops after a fixed number of metaepochs of the deme"""

    def __init__(self, stop_after):
        self.stop_after = stop_after

    def __call__(self, deme):
        return deme.metaepoch_count >= self.stop_after


class CapGSC:
    """user-composed global stop condition: inner OR hard caps (keeps every generated run small)"""

    def __init__(self, inner, cap_m, cap_e):
        self.inner, self.cap_m, self.cap_e = inner, cap_m, cap_e

    def __call__(self, tree):
        return bool(self.inner(tree)) or tree.metaepoch_count >= self.cap_m or tree.n_evaluations >= self.cap_e

    def __str__(self):
        return f"Cap({self.inner})"


def build(spec, objective_wrapper=None, session=None):
    """returns (TreeConfig, info).  objective_wrapper(level, f) lets the recorder wrap the raw objective."""
    import pyhms
    from pyhms import (AllChildrenStopped, AllStopped, CMALevelConfig, DELevelConfig, DontRun, DontStop, EALevelConfig,
                       FitnessEvalLimitReached, FitnessSteadiness, LHSLevelConfig, MetaepochLimit, NoActiveNonrootDemes,
                       RootStopped, SHADELevelConfig, SingularProblemEvalLimitReached, SingularProblemPrecisionReached,
                       SobolLevelConfig, TreeConfig)
    from pyhms.config import LocalOptimizationConfig
    from pyhms.core.problem import EvalCountingProblem, FunctionProblem, PrecisionCutoffProblem, StatsGatheringProblem
    from pyhms.demes.lhs_deme import LHSDeme
    from pyhms.demes.single_pop_eas import sea as sea_mod
    from pyhms.sprout.sprout_filters import DemeLimit, FarEnough, LevelLimit, NBC_FarEnough, SkipSameSprout
    from pyhms.sprout.sprout_generators import BestPerDeme, NBC_Generator, NBCGeneratorWithLocalMethod
    from pyhms.sprout.sprout_mechanisms import SproutMechanism, get_NBC_sprout, get_simple_sprout

    dim = spec["dim"]
    bounds = np.array(spec["box"], dtype=float)
    raw = make_objective(spec["objective"], dim)
    info = {"problems": [], "base": []}
    shared = None
    prec_problem = None
    problems = []
    offs = spec.get("level_offsets")
    for l in range(spec["height"]):
        raw_l = (lambda x, o=offs[l]: raw(x) + o) if offs else raw     # a different problem per level (multi-accuracy set-ups)
        f = objective_wrapper(l, raw_l) if objective_wrapper else raw_l
        bounds_l = bounds
        if spec.get("narrowing_boxes"):
            # a narrower box on every deeper level (multi-fidelity set-ups): only used by C07's structure / seed monitors
            mid, half = (bounds[:, 0] + bounds[:, 1]) / 2, (bounds[:, 1] - bounds[:, 0]) / 2 * (0.6 ** l)
            bounds_l = np.stack([mid - half, mid + half], axis=1)
        base = FunctionProblem(f, bounds_l, spec["maximize"], use_cache=True) if spec["wrappers"] == "cache" else FunctionProblem(f, bounds_l, spec["maximize"])
        p = base
        w = spec["wrappers"]
        if w == "counting":
            p = EvalCountingProblem(p)
        elif w == "stats":
            p = StatsGatheringProblem(p)
        elif w == "shared_counting":
            if shared is None:
                shared = EvalCountingProblem(p)
                for _ in range(spec.get("pre_evals", 0)):      # the user evaluates a few reference points through the wrapper before building the tree
                    shared.evaluate(np.array([(lo + hi) / 2 for lo, hi in spec["box"]]))
            p = shared
        problems.append(p)
        info["base"].append(base)
    if spec["wrappers"] == "cutoff":
        # one evaluation-cutoff wrapper shared by all levels (what minimize(maxfun=...) builds)
        from pyhms.core.problem import EvalCutoffProblem
        f = objective_wrapper(0, raw) if objective_wrapper else raw
        base = FunctionProblem(f, bounds, spec["maximize"])
        cut = EvalCutoffProblem(base, spec["cutoff"])
        problems = [cut] * spec["height"]
        info["base"] = [base] * spec["height"]
        info["cutoff_problem"] = cut
    g = spec["gsc"]
    if g["kind"] == "Precision":
        # one precision wrapper shared by all levels (the documented "singular problem" setting)
        f = objective_wrapper(0, raw) if objective_wrapper else raw
        base = FunctionProblem(f, bounds, spec["maximize"])
        opt = g.get("opt")
        if opt is None:
            opt = raw(np.array([min(max(s, lo), hi) for s, (lo, hi) in zip(spec["objective"].get("shift", [0.0] * dim), spec["box"])]))
        prec_problem = PrecisionCutoffProblem(base, opt, g["eps"])
        problems = [prec_problem] * spec["height"]
        info["base"] = [base] * spec["height"]
    info["problems"] = problems

    def mk_lsc(s):
        k = s["kind"]
        if k == "MetaepochLimit":
            return MetaepochLimit(s["n"])
        if k == "DontStop":
            return DontStop()
        if k == "DontRun":
            return DontRun()
        if k == "FitnessSteadiness":
            return FitnessSteadiness(s["dev"], s["n"])
        if k == "AllChildrenStopped":
            return AllChildrenStopped()
        return Scripted(s["stop_after"])

    class CustomLevelConfig(LHSLevelConfig):
        pass

    class CustomDeme(LHSDeme):
        """a user-registered deme class (config_class_to_deme_class)"""

    levels = []
    custom_map = {}
    for l, lv in enumerate(spec["levels"]):
        e, p, lsc = lv["engine"], problems[l], mk_lsc(lv["lsc"])
        if e in SEA_ENGINES:
            kw = dict(mutation_std=lv["mutation_std"], p_mutation=lv["p_mutation"], k_elites=lv["k_elites"], sample_std_dev=lv["sample_std"])
            if e in ("SEAWithCrossover", "GAStyleSEA"):
                kw["p_crossover"] = lv["p_crossover"]
            if e == "SEAWithAdaptiveMutation":
                kw["mutation_std_step"] = lv["mutation_std_step"]
            if e == "MWEA":
                kw["election_group_size"] = lv["election_group_size"]
            levels.append(EALevelConfig(ea_class=getattr(sea_mod, e), pop_size=lv["pop"], problem=p, lsc=lsc, generations=lv["gens"], **kw))
        elif e in ("DE", "DEdither"):
            levels.append(DELevelConfig(pop_size=lv["pop"], problem=p, lsc=lsc, generations=lv["gens"], sample_std_dev=lv["sample_std"],
                                        dither=(e == "DEdither"), scaling=lv["scaling"], crossover=lv["crossover"]))
        elif e == "SHADE":
            levels.append(SHADELevelConfig(pop_size=lv["pop"], problem=p, lsc=lsc, generations=lv["gens"], memory_size=lv["memory"], sample_std_dev=lv["sample_std"]))
        elif e == "CMA":
            levels.append(CMALevelConfig(problem=p, lsc=lsc, generations=lv["gens"], sigma0=lv["sigma0"]))
        elif e == "CMAwarm":
            levels.append(CMALevelConfig(problem=p, lsc=lsc, generations=lv["gens"], sigma0=None))
        elif e == "CMAstds":
            levels.append(CMALevelConfig(problem=p, lsc=lsc, generations=lv["gens"], sigma0=None, set_stds=True))
        elif e == "Local":
            kw = {} if lv.get("maxiter") is None else {"maxiter": lv["maxiter"]}
            if lv.get("method", "L-BFGS-B") != "L-BFGS-B":
                kw["method"] = lv["method"]
            levels.append(LocalOptimizationConfig(problem=p, lsc=lsc, **kw))
        elif e == "LHS":
            levels.append(LHSLevelConfig(problem=p, lsc=lsc, pop_size=lv["pop"]))
        elif e == "Sobol":
            levels.append(SobolLevelConfig(problem=p, lsc=lsc, pop_size=lv["pop"]))
        elif e == "Custom":
            levels.append(CustomLevelConfig(problem=p, lsc=lsc, pop_size=lv["pop"]))
            custom_map = {CustomLevelConfig: CustomDeme}
        else:
            raise ValueError(e)

    k = g["kind"]
    if k == "MetaepochLimit":
        gsc = MetaepochLimit(g["n"])
    elif k == "SingularEval":
        gsc = SingularProblemEvalLimitReached(g["limit"])
    elif k == "FitnessEval":
        w = g["weights"]
        from pyhms import WeightingStrategy
        if w == "equal":
            gsc = FitnessEvalLimitReached(g["limit"], WeightingStrategy.EQUAL)
        elif w == "root":
            gsc = FitnessEvalLimitReached(g["limit"], WeightingStrategy.ROOT)
        elif w in ("equal_str", "root_str"):
            gsc = FitnessEvalLimitReached(g["limit"], w[:-4])
        elif w is None:
            gsc = FitnessEvalLimitReached(g["limit"], None)
        else:
            gsc = FitnessEvalLimitReached(g["limit"], list(w))
    elif k == "Precision":
        gsc = SingularProblemPrecisionReached(prec_problem)
    elif k == "RootStopped":
        gsc = RootStopped()
    elif k == "AllStopped":
        gsc = AllStopped()
    elif k == "NoActiveNonroot":
        gsc = NoActiveNonrootDemes(g["n"])
    else:
        gsc = DontRun()
    info["gsc_inner"] = gsc
    info["capped"] = k not in ("MetaepochLimit", "DontRun")
    if info["capped"]:
        gsc = CapGSC(gsc, g.get("cap", spec["cap_metaepochs"]), spec["cap_evals"])

    s = spec["sprout"]
    if s["kind"] == "simple":
        mech = get_simple_sprout(s["far"], s["level_limit"])
    elif s["kind"] == "nbc":
        mech = get_NBC_sprout(s["gen_dist"], s["trunc"], s["fil_dist"], s["level_limit"])
    else:
        gen = {"best": lambda: BestPerDeme(), "nbc": lambda: NBC_Generator(s["gen_dist"], s["trunc"]),
               "nbc_local": lambda: NBCGeneratorWithLocalMethod(s["gen_dist"], s["trunc"])}[s["generator"]]()
        dfs = []
        for f in s["deme_filters"]:
            if f["kind"] == "FarEnough":
                dfs.append(FarEnough(f["d"], np.inf if f["ord"] == "inf" else f["ord"]))
            elif f["kind"] == "NBC_FarEnough":
                dfs.append(NBC_FarEnough(f["f"], np.inf if f["ord"] == "inf" else f["ord"], f["only_active"]))
            elif f["kind"] == "Mahalanobis":
                from pyhms.sprout.sprout_filters import MahalanobisFarEnough
                dfs.append(MahalanobisFarEnough(f["p"]))
            else:
                dfs.append(DemeLimit(f["n"]))
        tfs = [LevelLimit(f["n"]) if f["kind"] == "LevelLimit" else SkipSameSprout() for f in s["tree_filters"]]
        mech = SproutMechanism(gen, dfs, tfs)
    if session is not None and info.get("gsc_inner") is not None:
        key_ = json.dumps(spec["gsc"], sort_keys=True)
        if session.get("gsc_key") == key_ and "gsc" in session:
            gsc = session["gsc"]           # the very same stop-condition object serves the next tree (a benchmark loop)
        else:
            session["gsc_key"], session["gsc"] = key_, gsc
    if session is not None:
        # a session of several trees in one process: the same sprout-mechanism object is handed to every tree of the session
        if "mech" in session:
            mech = session["mech"]
        else:
            session["mech"] = mech
    options = {"random_seed": spec["random_seed"], "hibernation": spec["hibernation"], "log_level": "warning"}
    from pyhms.logging_ import LoggingLevel
    options["log_level"] = LoggingLevel.WARNING
    if spec.get("omit_default_options") and not spec["hibernation"]:
        del options["hibernation"]       # rely on the documented default (False)
    cfg = TreeConfig(levels, gsc, mech, options=options, config_class_to_deme_class=custom_map)
    info["raw_objective"] = raw
    info["bounds"] = bounds
    return cfg, info
