"""Correspondence between the HMS machine (coq/Model/Tree.v) and the implementation: a recorded trace is turned into
the machine's configuration and event sequence, replayed inside Coq (vm_compute), and the machine's states are
compared with abs(tree) snapshots taken from the live object graph at every consult of the global stop condition."""
from .monitors import key

KIND = {"SEA": "KPop", "SEAWithCrossover": "KPop", "GAStyleSEA": "KPop", "SEAWithAdaptiveMutation": "KPop", "MWEA": "KPop", "DE": "KPop",
        "DEdither": "KPop", "SHADE": "KPop", "CMA": "KCma", "CMAwarm": "KCma", "CMAstds": "KCma", "Local": "KLocal", "LHS": "KSampler",
        "Sobol": "KSampler", "Custom": "KSampler"}


def cfg_term(spec):
    H = spec["height"]
    kinds = "[" + "; ".join(KIND[l["engine"]] for l in spec["levels"]) + "]"
    ngens = "[" + "; ".join(str(l["gens"]) for l in spec["levels"]) + "]"

    def lsc(s):
        k = s["kind"]
        if k == "MetaepochLimit":
            return f"LMetaLimit {s['n']}"
        if k == "FitnessSteadiness":
            return f"(LSteadiness {int(s['n'])})"
        return {"DontStop": "LDontStop", "DontRun": "LDontRun", "AllChildrenStopped": "LAllChildrenStopped"}.get(k, "LOracle")
    lscs = "[" + "; ".join(lsc(l["lsc"]) for l in spec["levels"]) + "]"
    g = spec["gsc"]
    k = g["kind"]
    ones = "[" + "; ".join(["1"] * H) + "]"
    capped = True
    if k == "MetaepochLimit":
        inner, capped = f"GMetaLimit {g['n']}", False
    elif k == "DontRun":
        inner, capped = "GDontRun", False
    elif k == "SingularEval":
        inner = f"GEvalLimit {g['limit']} {ones}"
    elif k == "FitnessEval":
        w = g["weights"]
        # the machine's weights are computed by the model of FitnessEvalLimitReached's normalisation (Model/Tree.v weights_of; proved equal to the
        # translated _transform_weights under __call__'s guard: Proofs/GenEquivStops.v effective_weights_ok)
        wspec = {"equal": "WEqual", "equal_str": "WEqual", "root": "WRoot", "root_str": "WRoot", None: "WNone"}.get(w if w is None or isinstance(w, str) else "list",
                                                                                                                 None) or "(WList [" + "; ".join(str(int(x)) for x in w) + "])"
        ws = f"(weights_or_nil {H} {wspec})"
        lim = g["limit"]
        if wspec.startswith("(WList") and any(float(x) != int(x) for x in w):
            # weights with halves: limit <= sum w_l * e_l  <=>  2 * limit <= sum (2 w_l) * e_l, and every product / partial sum is exact in binary64
            assert all(float(2 * x) == int(2 * x) for x in w)
            ws, lim = "(weights_or_nil %d (WList [%s]))" % (H, "; ".join(str(int(2 * x)) for x in w)), 2 * lim
        inner = f"GEvalLimit {lim} {ws}"
    elif k == "Precision":
        inner = "GOracle"
    elif k == "RootStopped":
        inner = "GRootStopped"
    elif k == "AllStopped":
        inner = "GAllStopped"
    elif k == "NoActiveNonroot":
        inner = f"GNoActiveNonroot {g['n']}"
    else:
        raise ValueError(k)
    if capped:
        inner = f"GOr ({inner}) (GOr (GMetaLimit {g.get('cap', spec['cap_metaepochs'])}) (GEvalLimit {spec['cap_evals']} {ones}))"
    s = spec["sprout"]
    L = s.get("level_limit")
    has_ll = s["kind"] in ("simple", "nbc") or any(f["kind"] == "LevelLimit" for f in s.get("tree_filters", []))
    ll = f"Some {L}" if has_ll else "None"
    return (f"{{| height := {H}; kinds := {kinds}; ngens := {ngens}; lscs := {lscs}; gsc := {inner}; hib_on := {'true' if spec['hibernation'] else 'false'}; "
            f"level_lim := {ll}; maximize := {'true' if spec['maximize'] else 'false'} |}}")


def zlist(xs):
    return "[" + "; ".join(f"({x})%Z" if x < 0 else f"{x}%Z" for x in xs) + "]"


def trace_to_case(r):
    """returns (coq term 'replay cfg (init n) events 0', expected list of digests, meta) or raises ValueError if inexpressible"""
    spec, ev = r["spec"], r["events"]
    idx = {}  # python deme id -> creation index
    events, expected = [], []
    pending = {}  # deme -> requests since the last EGen
    in_run = None
    root_evals = None
    i = 0
    n = len(ev)
    stage_outs = []
    round_new = []
    in_round = False

    def full(snap):
        out = [snap["m"]]
        ds = sorted(snap["demes"], key=lambda d: idx[d["id"]])
        for d in ds:
            par = 0
            if d["lvl"] > 0:
                holders = [p for p in snap["demes"] if d["id"] in p["children"]]
                par = idx[holders[0]["id"]] + 1 if holders else -99
            out += [d["lvl"], par, d["started"], int(d["active"]), int(d["hib"]), len(d["gens"]) - 1, d["nev"]]
        # the id strings: last component ("root" -> 0, "3" -> 3, "3/7" -> 7); the parent part is the parent's id (compared through `par`)
        out.append(-4)
        for d in ds:
            try:
                out.append(0 if d["id"] == "root" else int(d["id"].rsplit("/", 1)[-1]))
            except ValueError:
                out.append(-98)
        return out

    def quick(snap):
        return [snap["m"], len(snap["demes"]), sum(d["nev"] for d in snap["demes"]), sum(1 for d in snap["demes"] if d["active"])]
    while i < n:
        e = ev[i]
        k = e["e"]
        if k == "new":
            idx[e["id"]] = len(idx)
            if e["parent"] is None:
                root_evals = e["nev"]
            elif in_round:
                round_new.append(e)
        elif k == "run":
            if e["ph"] == "b":
                in_run = e["id"]
                pending[in_run] = 0
            else:
                in_run = None
        elif k == "req":
            if in_run is not None and e["deme"] == in_run:
                pending[in_run] += 1
        elif k == "gsc":
            if e["where"] == "deme":
                events.append(f"EGen {pending.get(e['deme'], 0)}")
                pending[e["deme"]] = 0
                expected.append([-1] + quick(e["snap"]))
            else:
                # tree-level consult: main loop (boundary, full digest) or before sprouting
                boundary = _at_main(ev, i)
                expected.append(([-2] + full(e["snap"])) if boundary else ([-1] + quick(e["snap"])))
            events.append(f"EGsc {'true' if e['v'] else 'false'}")
        elif k == "lsc":
            events.append(f"ELsc {'true' if e['v'] else 'false'}")
        elif k == "cma" and e["op"] == "stop" and in_run is not None:
            events.append(f"ECma {'true' if e['v'] else 'false'}")
        elif k == "local":
            events.append(f"ELocal {e['nfev']}")
        elif k == "round_b":
            in_round, stage_outs, round_new = True, [], []
        elif k == "stage" and in_round:
            stage_outs.append((e["name"], e["out"]))
        elif k == "seeds":
            seeds = e["seeds"]
        elif k == "round_e":
            in_round = False
            names = [nm for nm, _ in stage_outs]
            if "tree:LevelLimit" in names:
                j = names.index("tree:LevelLimit")
                cin = stage_outs[j - 1][1]
                cll = stage_outs[j][1]
            else:
                # the chain has no LevelLimit: candidates = output of the last deme-level stage
                j = max(ii for ii, nm in enumerate(names) if not nm.startswith("tree:"))
                cin = stage_outs[j][1]
                cll = cin
            final = stage_outs[-1][1]
            cands, post = [], []
            for did, c in cin.items():
                if did not in idx:
                    raise ValueError("candidate for unknown deme " + did)
                cands.append(f"({idx[did]}, {zlist([key(f) for _, f in c['inds']])})")
                kept_ll = [tuple(map(tuple, [x[0]])) + (x[1],) for x in cll[did]["inds"]]
                fin = [tuple(map(tuple, [x[0]])) + (x[1],) for x in final[did]["inds"]]
                mask = []
                for x in kept_ll:
                    if x in fin:
                        fin.remove(x)
                        mask.append("true")
                    else:
                        mask.append("false")
                post.append("[" + "; ".join(mask) + "]")
            inits = [str(x["nev"]) for x in round_new]
            events.append(f"ESprout [{'; '.join(cands)}] [{'; '.join(post)}] [{'; '.join(inits)}]")
        elif k == "end":
            expected.append([-3, len(events)] + full(e["snap"]))
        i += 1
    if root_evals is None:
        raise ValueError("no root")
    term = f"replay_both ({cfg_term(spec)}) (init {root_evals}) [{'; '.join(events)}]"
    return term, expected, {"events": len(events)}


def _at_main(ev, i):
    """a tree-level consult is the main loop's (metaepoch boundary) iff the previous non-gen event is init, stepend (run_step returned)"""
    j = i - 1
    while j >= 0 and ev[j]["e"] == "gen":
        j -= 1
    return j < 0 or ev[j]["e"] in ("init", "stepend")


HEADER = """From Coq Require Import List Bool Arith ZArith. Import ListNotations.
From HV Require Import Ord Sprout Tree TreeCheck DriverCheck.
"""


def split_digests(flat):
    out, cur = [], None
    for x in flat:
        if x in (-1, -2, -3, -5):
            if cur is not None:
                out.append(cur)
            cur = [x]
        else:
            cur.append(x)
    if cur is not None:
        out.append(cur)
    return out


def compare(expected, model_flat):
    """None if equal, else a description of the first difference"""
    got = split_digests(model_flat)
    code = None
    if got and got[-1][0] == -5:
        code = got.pop()[1]
    for j, (a, b) in enumerate(zip(expected, got)):
        if a != b:
            what = "final state / accepted prefix" if a[0] == -3 else ("metaepoch boundary" if a[0] == -2 else "consult")
            return f"digest #{j} ({what}): implementation {a[:40]} model {b[:40]}"
    if len(expected) != len(got):
        return f"{len(expected)} digests recorded, the model produced {len(got)} (last model digest {got[-1][:12] if got else None})"
    if code in (0, 2, 3):
        return ("the run() translated from the current sources (Gen/GenDriver.v) " +
                {0: "ends the recorded event stream in a different state than the machine", 2: "returns before the recorded run did",
                 3: "cannot perform the recorded run (an effect in a different order / under a different condition)"}[code])
    return None


def code_status(model_flat):
    got = split_digests(model_flat)
    return got[-1][1] if got and got[-1][0] == -5 else None


def case_of(r):
    """worker-side hook for hv.batch: (term, expected) or an error string"""
    if r["error"]:
        return {"skip": "implementation raised " + r["error"]["type"]}
    if r["spec"]["objective"]["kind"] == "nanhole":
        return {"skip": "NaN-valued objective: pyhms settles NaN-vs-NaN comparisons by random.choice, outside the machine's LevelLimit model"}
    try:
        term, expected, meta = trace_to_case(r)
        return {"term": term, "expected": expected, "n": meta["events"]}
    except Exception as ex:  # inexpressible trace = a disagreement
        import traceback
        return {"inexpressible": traceback.format_exc()[-600:]}
