"""Prints the markdown table of DESIGN.md section 10 from seeded/*/meta.json (results written by hv.seedtest)."""
import glob
import json
import os

VERIF = os.path.dirname(os.path.dirname(os.path.abspath(__file__)))


def main():
    rows = []
    for d in sorted(glob.glob(os.path.join(VERIF, "seeded", "*"))):
        mp = os.path.join(d, "meta.json")
        if not os.path.exists(mp):
            continue
        m = json.load(open(mp))
        sid = os.path.basename(d)
        c = m.get("check", {})
        files = ", ".join(os.path.basename(f) for f in (m.get("files_touched") or []))
        summ = " ".join(str(m.get("summary", "")).split())[:170]
        if not c:
            how = "not run"
        elif c.get("detected") and c.get("with_failing_input"):
            how = "caught, failing input: " + " ".join(str(c.get("what", "")).split())[:150]
        elif c.get("detected"):
            how = "caught, obligation / correspondence only (no-failing-input-found): " + " ".join(str(c.get("what", "")).split())[:110]
        else:
            how = "**missed**"
        rows.append(f"| {sid} | {files} | {summ} | {how} |")
    print("| change | file(s) | what it does | result of `./check " + "<property>` on the patched tree |")
    print("|---|---|---|---|")
    print("\n".join(rows))
    n = len(rows)
    caught = sum(1 for r in rows if "| caught" in r)
    print(f"\n{caught} of {n} seeded changes caught ({sum(1 for r in rows if 'failing input:' in r)} with a concrete failing input).")


if __name__ == "__main__":
    main()
