"""Property monitors: the executable form of each property statement, evaluated on the IMPLEMENTATION's own
traces (hv/rec.py).  They are the search for a concrete failing input and the producers of replay data;
they are never presented as proof.  Each returns a list of {"key", "what", ...}."""
import math
import struct
from collections import defaultdict

import numpy as np

POP_CLASSES = ("EADeme", "DEDeme", "SHADEDeme")


def fl(b):
    return struct.unpack("<d", struct.pack("<Q", b))[0]


def vec(bs):
    return np.array([fl(b) for b in bs], dtype=float)


def key(b):
    return b if b < 0x8000000000000000 else 0x8000000000000000 - b


def better(a, b, maximize):
    """fitness bit patterns: a strictly better than b in the problem's direction"""
    return key(a) > key(b) if maximize else key(a) < key(b)


def V(k, what, **kw):
    d = {"key": k, "what": what}
    d.update(kw)
    return d


def level_limit(spec):
    s = spec["sprout"]
    return s.get("level_limit")


def ids_level(snap):
    return {d["id"]: d["lvl"] for d in snap["demes"]}


def parent_id(did):
    if did == "root":
        return None
    return "root" if "/" not in did else did.rsplit("/", 1)[0]


# ----------------------------------------------------------------------------- C01
def c01(r):
    out = []
    box = r["spec"]["box"]

    def inbox(bs):
        x = vec(bs)
        return all(lo <= v <= hi for v, (lo, hi) in zip(x, box)) and len(x) == len(box)
    for i, e in enumerate(r["events"]):
        k = e["e"]
        if k == "call" and not inbox(e["x"]):
            out.append(V("C01/call", f"objective invoked outside the box by deme {e['deme']}: x={list(vec(e['x']))} box={box}", event=i))
        elif k == "gen":
            for g, _ in e["inds"]:
                if not inbox(g):
                    out.append(V("C01/history", f"deme {e['deme']} generation {e['gi']} stores a genome outside the box: {list(vec(g))}", event=i))
                    break
        elif k == "new" and e["seed"] is not None and not inbox(e["seed"][0]):
            out.append(V("C01/seed", f"sprout seed of {e['id']} outside the box: {list(vec(e['seed'][0]))}", event=i))
        elif k == "end" and e.get("best") and not inbox(e["best"][0]):
            out.append(V("C01/result", f"best individual outside the box: {list(vec(e['best'][0]))}", event=i))
        if len(out) > 3:
            break
    return out


# ----------------------------------------------------------------------------- C02
def c02(r):
    out = []
    f = r["info"]["raw_objective"]
    mx = r["spec"]["maximize"]
    for m in r["mutated"][:3]:
        out.append(V("C02/immutable", f"generation {m['generation']} of deme {m['deme']} changed after it was recorded in the history", **m))
    memo = {}

    offs = r["spec"].get("level_offsets")
    lvl_of = {}
    seed_of = {}

    def true_fit(g, lvl=0):
        t = (tuple(g), lvl if offs else 0)
        if t not in memo:
            v = float(f(vec(g)))
            if offs:
                v = v + offs[lvl]
            memo[t] = struct.unpack("<Q", struct.pack("<d", v))[0]
        return memo[t]

    sentinel = (float("-inf") if mx else float("inf")) if r["spec"].get("has_cutoff") else None

    def chk(g, fit, where, i, lvl=0):
        tf = true_fit(g, lvl)
        if sentinel is not None and fl(fit) == sentinel:
            return True   # the documented sentinel of an exhausted evaluation-cutoff wrapper
        if tf != fit and not (fl(tf) == fl(fit)):
            out.append(V("C02/truefit", f"{where}: stored fitness {fl(fit)!r} but objective({list(vec(g))}) = {fl(tf)!r}", event=i))
            return False
        return True
    for i, e in enumerate(r["events"]):
        k = e["e"]
        if k == "new":
            lvl_of[e["id"]] = e["level"]
            seed_of[e["id"]] = (e["seed"][0], e["seed"][1]) if e["seed"] is not None else None
        if k == "gen":
            for g, fit in e["inds"]:
                lv = lvl_of.get(e["deme"], 0)
                if e["gi"] == 0 and seed_of.get(e["deme"]) == (g, fit):
                    lv = max(lv - 1, 0)      # a local deme's first generation IS its seed: the parent's individual, valued by the parent level's problem
                if not chk(g, fit, f"deme {e['deme']} generation {e['gi']}", i, lv):
                    break
        elif k == "new" and e["seed"] is not None:
            # the seed is an individual of the PARENT: it carries the parent level's objective value
            chk(e["seed"][0], e["seed"][1], f"seed of {e['id']}", i, max(e["level"] - 1, 0))
        elif k == "end" and e.get("best") and not offs:
            chk(e["best"][0], e["best"][1], "tree best individual", i)
        elif k == "stage":
            for did, c in e["out"].items():
                for g, fit in c["inds"]:
                    if not chk(g, fit, f"sprout candidate of {did} after {e['name']}", i, lvl_of.get(did, 0)):
                        break
        if len(out) > 3:
            break
    return out


# ----------------------------------------------------------------------------- C03
def c03(r):
    out = []
    calls = defaultdict(int)
    reqs = defaultdict(int)
    cutoff = r["spec"].get("cutoff") if r["spec"].get("has_cutoff") else None
    ncalls = 0
    for i, e in enumerate(r["events"]):
        k = e["e"]
        if k == "call":
            calls[e["deme"]] += 1
            ncalls += 1
            if cutoff is not None and ncalls == cutoff + 1:
                out.append(V("C03/budget", f"the objective was invoked more than {cutoff} times although every level's problem is wrapped by EvalCutoffProblem({cutoff}) "
                                           f"(call #{ncalls} by deme {e['deme']})", event=i))
        elif k == "req":
            reqs[e["deme"]] += 1
        elif k in ("gsc", "end"):
            snap = e["snap"]
            tot = sum(d["nev"] for d in snap["demes"])
            if e["total"] != tot:
                out.append(V("C03/sum", f"tree.n_evaluations={e['total']} but the demes sum to {tot}", event=i))
            if cutoff is not None and ncalls >= cutoff:
                continue   # the cutoff wrapper may have started refusing: the counters then also count refused requests (as the property allows)
            for d in snap["demes"]:
                if d["nev"] != calls[d["id"]]:
                    out.append(V("C03/exact", f"deme {d['id']} ({d['cls']}) reports {d['nev']} evaluations, the objective was invoked {calls[d['id']]} times for it "
                                              f"(consult #{i}, metaepoch {snap['m']})", event=i))
                    break
            mine = sum(v for k_, v in calls.items() if k_ is not None)    # invocations made on behalf of this tree's demes
            if mine != e["total"] and not any(d["nev"] != calls[d["id"]] for d in snap["demes"]):
                out.append(V("C03/total", f"tree.n_evaluations={e['total']} but the objective was invoked {mine} times for this tree's demes", event=i))
        if len(out) > 2:
            break
    return out


# ----------------------------------------------------------------------------- C04
def c04_nan(r):
    """objectives that return NaN on part of the box: the reported bests must be the best NUMBERS kept (NaN is worse than every number in both
    directions), and never get worse; nothing is required where only NaN individuals exist"""
    out = []
    mx = r["spec"]["maximize"]
    seen = defaultdict(list)
    prev_best = None
    for i, e in enumerate(r["events"]):
        k = e["e"]
        if k == "gen":
            seen[e["deme"]] += [fit for _, fit in e["inds"] if not isnan_bits(fit)]
        elif k in ("stepend", "end", "init") and e.get("bests") is not None:
            b = e["bests"]
            everything = [x for v in seen.values() for x in v]
            if everything:
                top = max(everything, key=key) if mx else min(everything, key=key)
                if b["tree"] is None or isnan_bits(b["tree"][1]) or key(b["tree"][1]) != key(top):
                    out.append(V("C04/tree-best", f"tree best fitness {fl(b['tree'][1]) if b['tree'] else None!r} but the best number stored in the histories is {fl(top)!r} "
                                                  f"(NaN is worse than every number; metaepoch {e.get('m')})", event=i))
                for did, bi in b["demes"].items():
                    if seen[did]:
                        t = max(seen[did], key=key) if mx else min(seen[did], key=key)
                        if bi is None or isnan_bits(bi[1]) or key(bi[1]) != key(t):
                            out.append(V("C04/deme-best", f"deme {did} best {fl(bi[1]) if bi else None!r} but its history holds the number {fl(t)!r} (NaN is worse than every number)", event=i))
                            break
                if b["tree"] is not None and not isnan_bits(b["tree"][1]):
                    if prev_best is not None and better(prev_best, b["tree"][1], mx):
                        out.append(V("C04/monotone", f"best fitness got worse: {fl(prev_best)!r} -> {fl(b['tree'][1])!r}", event=i))
                    prev_best = b["tree"][1]
        if len(out) > 2:
            break
    return out


def isnan_bits(b):
    return (b & 0x7FF0000000000000) == 0x7FF0000000000000 and (b & 0xFFFFFFFFFFFFF) != 0


def c04(r):
    out = []
    mx = r["spec"]["maximize"]
    # pyhms orders NaN below every number in BOTH directions (FunctionProblem.worse_than); NaN-vs-NaN is a coin and is not compared
    has_nan = r["spec"]["objective"]["kind"] == "nanhole"
    if has_nan:
        return c04_nan(r)
    seen = defaultdict(list)  # deme -> fitness keys of everything in its history
    prev_best = None
    allcalls_nonlocal = []
    allcalls = set()
    cls = {}
    for i, e in enumerate(r["events"]):
        k = e["e"]
        if k == "new":
            cls[e["id"]] = e["cls"]
        if k == "gen":
            seen[e["deme"]] += [fit for _, fit in e["inds"]]
        elif k == "call" and e["deme"] is None:
            # an evaluation the harness made itself through the wrapper before building the tree (spec pre_evals): no engine observed it
            allcalls.add(key(e["v"]))
        elif k == "call" and cls.get(e["deme"]) != "LocalDeme":
            allcalls_nonlocal.append(e["v"])
            allcalls.add(key(e["v"]))
        elif k == "call":
            allcalls.add(key(e["v"]))
        elif k in ("stepend", "end", "init") and e.get("bests") is not None:
            b = e["bests"]
            everything = [x for v in seen.values() for x in v]
            if not everything:
                continue
            top = max(everything, key=key) if mx else min(everything, key=key)
            if b["tree"] is None or key(b["tree"][1]) != key(top):
                out.append(V("C04/tree-best", f"tree best fitness {fl(b['tree'][1]) if b['tree'] else None!r} but the best stored individual has {fl(top)!r} (metaepoch {e.get('m')})", event=i))
            elif not any((g, ft) == tuple(b["tree"]) or (list(g) == b["tree"][0] and ft == b["tree"][1]) for ev2 in r["events"][: i + 1] if ev2["e"] == "gen" for g, ft in ev2["inds"]):
                out.append(V("C04/member", "tree best individual is not an individual of any history", event=i))
            for did, bi in b["demes"].items():
                if seen[did]:
                    t = max(seen[did], key=key) if mx else min(seen[did], key=key)
                    if bi is None or key(bi[1]) != key(t):
                        out.append(V("C04/deme-best", f"deme {did} best {fl(bi[1]) if bi else None!r} but its history holds {fl(t)!r}", event=i))
                        break
            if prev_best is not None and b["tree"] is not None and better(prev_best, b["tree"][1], mx):
                out.append(V("C04/monotone", f"best fitness got worse: {fl(prev_best)!r} -> {fl(b['tree'][1])!r}", event=i))
            if b["tree"] is not None:
                prev_best = b["tree"][1]
            if k == "end" and allcalls_nonlocal and not r["spec"].get("has_cutoff"):
                nonnan = [v for v in allcalls_nonlocal]
                t = max(nonnan, key=key) if mx else min(nonnan, key=key)
                if b["tree"] is not None and better(t, b["tree"][1], mx):
                    out.append(V("C04/observed", f"the objective returned {fl(t)!r} to a non-local engine but the reported best is {fl(b['tree'][1])!r}", event=i))
            if k == "end" and b["tree"] is not None and not r["spec"].get("has_cutoff") and key(b["tree"][1]) not in allcalls:
                out.append(V("C04/observed-member", f"the reported best {fl(b['tree'][1])!r} is not a value the objective returned during this run ({len(allcalls)} distinct values observed)", event=i))
        if len(out) > 2:
            break
    return out


# ----------------------------------------------------------------------------- C05
def c05(r):
    out = []
    ev = r["events"]
    spec = r["spec"]
    seen_true = None
    iters_after = defaultdict(int)
    steps = 0
    cls = {}
    in_ctor = set()
    last_main = None
    for i, e in enumerate(ev):
        k = e["e"]
        if k == "new":
            cls[e["id"]] = e["cls"]
            if seen_true is not None:
                out.append(V("C05/sprout-after-gsc", f"deme {e['id']} sprouted after the global stop condition was observed true (event {seen_true})", event=i))
        elif k == "gsc":
            g5 = spec["gsc"]
            want = None
            if g5["kind"] == "MetaepochLimit":
                want = e["m"] >= g5["n"]
            elif g5["kind"] == "SingularEval":
                want = e["total"] >= g5["limit"] or e["m"] >= g5.get("cap", spec["cap_metaepochs"]) or e["total"] >= spec["cap_evals"]
            if want is not None and bool(e["v"]) != bool(want) and e.get("arg_is_tree", True):
                out.append(V("C05/verdict", f"{g5['kind']} answered {e['v']} with metaepoch_count={e['m']} and {e['total']} evaluations (limit {g5.get('n', g5.get('limit'))})", event=i))
            if e["v"] and seen_true is None:
                seen_true = i
            if e["where"] == "tree":
                last_main = (i, e["v"])
        elif k == "step":
            steps += 1
            # the consult immediately before a step must be a main-loop consult that returned False
            j = i - 1
            while j >= 0 and ev[j]["e"] in ("gen",):
                j -= 1
            if j < 0 or ev[j]["e"] != "gsc" or ev[j]["v"] or ev[j]["where"] != "tree":
                out.append(V("C05/step-without-false-consult", f"run_step #{steps} not preceded by a false consult of the global stop condition", event=i))
            if seen_true is not None:
                out.append(V("C05/step-after-gsc", f"a new metaepoch started after the global stop condition was observed true (event {seen_true})", event=i))
        elif seen_true is not None:
            d = e.get("deme")
            if (k == "eng") or (k == "cma" and e["op"] == "ask") or k == "local":
                iters_after[d] += 1
            elif k == "run" and e["ph"] == "b" and cls.get(e["id"]) in ("LHSDeme", "SobolDeme", "CustomDeme"):
                iters_after[e["id"]] += 1
        if k == "end":
            if e["m"] != steps:
                out.append(V("C05/mcount", f"metaepoch_count={e['m']} after {steps} metaepochs", event=i))
            j = i - 1
            while j >= 0 and ev[j]["e"] == "gen":
                j -= 1
            if ev[j]["e"] != "gsc" or not ev[j]["v"] or ev[j]["where"] != "tree":
                out.append(V("C05/return", "run() returned without a true consult of the global stop condition at a metaepoch boundary", event=i))
            g = spec["gsc"]
            if g["kind"] == "MetaepochLimit" and e["m"] != g["n"]:
                out.append(V("C05/limit", f"MetaepochLimit({g['n']}) ended with metaepoch_count={e['m']}", event=i))
            if g["kind"] == "DontRun" and e["m"] != 0:
                out.append(V("C05/dontrun", f"DontRun ended with metaepoch_count={e['m']}", event=i))
    for d, n in iters_after.items():
        if n > 1:
            out.append(V("C05/wind-down", f"deme {d} performed {n} engine iterations after the global stop condition was first observed true", event=seen_true))
    return out[:4]


# ----------------------------------------------------------------------------- C06
def _steadiness(spec, d, gen_fits, did):
    """the verdict FitnessSteadiness must give for deme snapshot d (None: not judged)"""
    import math
    from fractions import Fraction
    n, dev = int(spec["n"]), spec["dev"]
    hist = d["gens"]                      # per history entry: the sizes of its generations
    if n > len(hist) - 1:
        return False
    if n <= 0:
        return None
    avgs, gi = [], 0
    flat_start = []
    for me in hist:
        flat_start.append(gi)
        gi += len(me)
    for k in range(len(hist) - n, len(hist)):
        vals = []
        for j in range(len(hist[k])):
            f = gen_fits.get((did, flat_start[k] + j))
            if f is None or len(f) != hist[k][j]:
                return None
            vals += f
        if not vals or not all(math.isfinite(v) for v in vals):
            return None
        avgs.append(sum(Fraction(v) for v in vals) / len(vals))
    d_ = sum(avgs) / len(avgs) - min(avgs)
    scale = max(1.0, max(abs(float(a)) for a in avgs))
    if abs(float(d_) - dev) <= 1e-9 * scale:
        return None
    return d_ <= Fraction(dev)


def c06(r):
    out = []
    ev = r["events"]
    hib_on = r["spec"]["hibernation"]
    start = None
    ran = []
    created = []
    lsc_true, gsc_in, selfstop = set(), set(), set()
    inactive_since = {}
    frozen = {}
    cur_run = None
    fresh = []        # demes created in the previous metaepoch: they first run in this one
    gen_fits = {}     # (deme, flat generation index) -> fitness values, as last recorded
    lsc_said = {}     # deme -> last verdict of its local stop condition in this metaepoch
    for i, e in enumerate(ev):
        k = e["e"]
        if k == "gen":
            gen_fits[(e["deme"], e["gi"])] = [fl(f) for _, f in e["inds"]]
        if k == "step":
            lsc_said = {}
        if k == "lsc":
            lsc_said[e["id"]] = bool(e["v"])
        if k == "step":
            start = {d["id"]: d for d in e["snap"]["demes"]}
            fresh = list(created)
            ran, created = [], []
            lsc_true, gsc_in, selfstop = set(), set(), set()
        elif k == "run" and e["ph"] == "b":
            ran.append(e["id"])
            cur_run = e["id"]
        elif k == "run" and e["ph"] == "e":
            cur_run = None
        elif k == "new":
            created.append(e["id"])
        elif k == "lsc" and e["v"]:
            lsc_true.add(e["id"])
        elif k == "gsc" and e["v"] and e["where"] == "deme":
            gsc_in.add(e["deme"])
        elif k == "cma" and e["op"] == "stop" and e["v"]:
            selfstop.add(e["deme"])
        elif k == "local":
            selfstop.add(e["deme"])
        elif k == "stepend" and start is not None:
            now = {d["id"]: d for d in e["snap"]["demes"]}
            for did, d0 in start.items():
                d1 = now[did]
                should = d0["active"] and not (hib_on and d0["hib"])
                adv = len(d1["gens"]) - len(d0["gens"])
                if adv != (1 if should else 0):
                    out.append(V("C06/stepped-once", f"deme {did} (active={d0['active']}, hibernating={d0['hib']}) advanced by {adv} metaepochs in metaepoch {e['m']}", event=i))
                if ran.count(did) != (1 if should else 0):
                    out.append(V("C06/run-count", f"deme {did} (active={d0['active']}, hibernating={d0['hib']}) was run {ran.count(did)} times in metaepoch {e['m']}", event=i))
                if not d0["active"] and d1["active"]:
                    out.append(V("C06/reactivated", f"deme {did} was reactivated in metaepoch {e['m']}", event=i))
                if d0["active"] and not d1["active"] and not (did in lsc_true or did in gsc_in or did in selfstop):
                    out.append(V("C06/stop-cause", f"deme {did} became inactive in metaepoch {e['m']} without LSC, GSC or engine termination", event=i))
                # "a deme becomes inactive exactly when its local stop condition holds at the end of its metaepoch": for the metaepoch-limit
                # condition the verdict is recomputed here from the deme's own history, independently of what the condition was shown
                lsc_spec = r["spec"]["levels"][d1["lvl"]]["lsc"] if d1["lvl"] < len(r["spec"]["levels"]) else {}
                if should and d1["active"] and lsc_spec.get("kind") == "MetaepochLimit" and did not in gsc_in and len(d1["gens"]) - 1 >= lsc_spec["n"] \
                        and d1["cls"] not in ("LocalDeme",):
                    out.append(V("C06/lsc-holds-but-active", f"deme {did} has run {len(d1['gens']) - 1} metaepochs, its local stop condition MetaepochLimit({lsc_spec['n']}) "
                                                             f"holds at the end of metaepoch {e['m']}, but it is still active", event=i))
                # FitnessSteadiness(max_deviation, n): recomputed here in exact rational arithmetic from the recorded history (mean over the last n
                # metaepochs of the per-metaepoch mean fitness, minus the smallest of them, <= max_deviation; false while fewer than n metaepochs
                # have been run); borderline cases (within 1e-9 of the threshold) and non-finite fitness values are not judged
                if lsc_spec.get("kind") == "FitnessSteadiness" and did in lsc_said:
                    exp = _steadiness(lsc_spec, d1, gen_fits, did)
                    if exp is not None and exp != lsc_said[did]:
                        out.append(V("C06/steadiness-verdict", f"deme {did}: FitnessSteadiness(max_deviation={lsc_spec['dev']}, n_metaepochs={lsc_spec['n']}) answered {lsc_said[did]} at the end of "
                                                               f"metaepoch {e['m']} (the deme has run {len(d1['gens']) - 1}); recomputed from its history: {exp}", event=i))
                if d0["active"] and d1["active"] and should and (did in lsc_true or did in gsc_in or (did in selfstop)):
                    out.append(V("C06/ignored-stop", f"deme {did} stayed active in metaepoch {e['m']} although its stop condition held (lsc={did in lsc_true}, gsc={did in gsc_in}, engine={did in selfstop})", event=i))
            for did in fresh:
                if did in start and start[did]["active"] and did not in ran:
                    out.append(V("C06/fresh-first-run", f"deme {did}, created in the previous metaepoch and still active, did not run in metaepoch {e['m']} "
                                                        f"(hibernating={start[did]['hib']})", event=i))
            for did in created:
                if did in ran:
                    out.append(V("C06/fresh-ran", f"deme {did} ran in the metaepoch that created it", event=i))
                if now[did]["started"] != e["m"]:
                    out.append(V("C06/started", f"deme {did} created in metaepoch {e['m']} has started_at={now[did]['started']}", event=i))
        if k in ("gsc", "stepend", "end", "step"):
            for d in e["snap"]["demes"]:
                if not d["active"]:
                    sig = (d["nev"], tuple(map(tuple, d["gens"])))
                    if d["id"] in frozen and frozen[d["id"]] != sig and cur_run != d["id"]:
                        out.append(V("C06/frozen", f"inactive deme {d['id']} changed: (evals, generations) {frozen[d['id']]} -> {sig}", event=i))
                    if cur_run != d["id"]:
                        frozen.setdefault(d["id"], sig)
                elif d["id"] in frozen:
                    out.append(V("C06/reactivated", f"deme {d['id']} was reactivated", event=i))
        if k == "req" and e["deme"] in frozen:
            out.append(V("C06/eval-after-stop", f"inactive deme {e['deme']} evaluated the objective", event=i))
        if len(out) > 3:
            break
    return out[:4]


# ----------------------------------------------------------------------------- C07
CLASS_OF = {"SEA": "EADeme", "SEAWithCrossover": "EADeme", "GAStyleSEA": "EADeme", "SEAWithAdaptiveMutation": "EADeme", "MWEA": "EADeme",
            "DE": "DEDeme", "DEdither": "DEDeme", "SHADE": "SHADEDeme", "CMA": "CMADeme", "CMAwarm": "CMADeme", "CMAstds": "CMADeme",
            "Local": "LocalDeme", "LHS": "LHSDeme", "Sobol": "SobolDeme", "Custom": "CustomDeme"}


def c07(r):
    out = []
    spec = r["spec"]
    H = spec["height"]
    pops = None
    for i, e in enumerate(r["events"]):
        k = e["e"]
        if k == "pops":
            pops = e["pops"]
        if k == "new" and e["parent"] is not None:
            p = pops.get(e["parent"]) if pops else None
            if p is None:
                out.append(V("C07/seed-parent", f"deme {e['id']} created from unknown parent {e['parent']}", event=i))
            else:
                seed = (e["seed"][0], e["seed"][1])
                cur = [(g, f) for g, f in p["cur"]]
                ok = any(g == seed[0] and f == seed[1] for g, f in cur)
                if not ok and spec["sprout"].get("generator") == "nbc_local" and p["best"] is not None:
                    ok = (p["best"][0] == seed[0] and p["best"][1] == seed[1])
                if not ok:
                    out.append(V("C07/seed", f"seed of {e['id']} is not an individual of its parent {e['parent']}'s population at the moment of sprouting", event=i))
            if e["cls"] in POP_CLASSES and not any(g == e["seed"][0] for g, _ in e["pop"]):
                out.append(V("C07/seed-in-pop", f"initial population of {e['id']} ({e['cls']}) does not contain its seed", event=i))
        if k in ("stepend", "end", "init"):
            snap = e["snap"]
            ds = snap["demes"]
            ids = [d["id"] for d in ds]
            byid = {d["id"]: d for d in ds}
            if len(set(ids)) != len(ids):
                out.append(V("C07/unique", f"deme ids are not unique: {sorted(ids)}", event=i))
            roots = [d for d in ds if d["lvl"] == 0]
            if len(roots) != 1 or roots[0]["id"] != "root":
                out.append(V("C07/root", f"level 0 holds {[d['id'] for d in roots]}", event=i))
            if any(d["lvl"] >= H for d in ds):
                out.append(V("C07/height", "a deme exists below the last configured level", event=i))
            for d in ds:
                want = CLASS_OF[spec["levels"][d["lvl"]]["engine"]] if d["lvl"] < H else None
                if d["cls"] != want:
                    out.append(V("C07/engine", f"deme {d['id']} on level {d['lvl']} is a {d['cls']}, configured {want}", event=i))
                if d["level_attr"] != d["lvl"]:
                    out.append(V("C07/level", f"deme {d['id']} sits on level {d['lvl']} but reports level {d['level_attr']}", event=i))
                if not (0 <= d["started"] <= snap["m"]):
                    out.append(V("C07/started", f"deme {d['id']} started_at={d['started']} at metaepoch {snap['m']}", event=i))
                if d["lvl"] > 0:
                    holders = [p for p in ds if d["id"] in p["children"]]
                    if len(holders) != 1 or holders[0]["children"].count(d["id"]) != 1:
                        out.append(V("C07/parent", f"deme {d['id']} is listed as a child by {[p['id'] for p in holders]}", event=i))
                    else:
                        p = holders[0]
                        if p["lvl"] != d["lvl"] - 1:
                            out.append(V("C07/parent-level", f"deme {d['id']} (level {d['lvl']}) has parent {p['id']} on level {p['lvl']}", event=i))
                        if d["started"] < p["started"]:
                            out.append(V("C07/started-parent", f"deme {d['id']} started before its parent", event=i))
                        if parent_id(d["id"]) != p["id"]:
                            out.append(V("C07/id", f"deme id {d['id']} does not name its parent {p['id']}", event=i))
                for c in d["children"]:
                    if c not in byid:
                        out.append(V("C07/child", f"child {c} of {d['id']} is not in the tree's levels", event=i))
        if len(out) > 3:
            break
    return out[:4]


# ----------------------------------------------------------------------------- C08
def c08(r):
    out = []
    L = level_limit(r["spec"])
    if L is None:
        return out
    before = None
    for i, e in enumerate(r["events"]):
        k = e["e"]
        snap = e.get("snap")
        if snap:
            cnt = defaultdict(int)
            for d in snap["demes"]:
                if d["active"] and d["lvl"] >= 1:
                    cnt[d["lvl"]] += 1
            for l, c in cnt.items():
                if c > L:
                    out.append(V("C08/limit", f"{c} active demes on level {l} with level limit {L} (metaepoch {snap['m']})", event=i))
            if k == "round_b":
                before = (cnt, defaultdict(int, {l: sum(1 for d in snap["demes"] if d["lvl"] == l) for l in range(8)}))
            if k == "round_e" and before is not None:
                tot = defaultdict(int, {l: sum(1 for d in snap["demes"] if d["lvl"] == l) for l in range(8)})
                for l in range(1, 8):
                    made = tot[l] - before[1][l]
                    if made > max(0, L - before[0][l]):
                        out.append(V("C08/round", f"a sprouting round created {made} demes on level {l} with {before[0][l]} active there and level limit {L}", event=i))
        if len(out) > 2:
            break
    return out


# ----------------------------------------------------------------------------- C09
def nbc_mean(cur, mx, trunc):
    """mean nearest-better distance of a population as defined (best first, int(n*t) kept, strictly better / tie-with-best rule)"""
    inds = [(vec(g), key(f)) for g, f in cur]
    srt = sorted(inds, key=lambda t: t[1], reverse=mx)      # stable, like sorted(reverse=True) on Individuals
    kept = srt[: int(len(srt) * trunc)]
    if len(kept) < 2 or len({tuple(x.tolist()) for x, _ in kept}) != len(kept):
        return None       # duplicate genomes are outside the clustering's domain (C15): not compared
    good = (lambda k_: -k_) if mx else (lambda k_: k_)
    ds = []
    for pos in range(1, len(kept)):
        x, k_ = kept[pos]
        if good(k_) == good(kept[0][1]):
            cands = [kept[0]]
        else:
            cands = [c for c in kept if good(c[1]) < good(k_)]
        ds.append(min(float(np.linalg.norm(x - c[0])) for c in cands))
    return float(np.mean(ds)) if ds else None


def c09(r):
    out = []
    ev = r["events"]
    sib = None
    prev = None
    pops9 = None
    for i, e in enumerate(ev):
        k = e["e"]
        if k == "centroid":
            if e["c"] is None:
                continue
            pop = np.array([vec(g) for g in e["pop"]])
            want = np.mean(pop, axis=0)
            got = vec(e["c"])
            tol = 8 * np.finfo(float).eps * (np.max(np.abs(pop), axis=0) + 1e-300)
            if np.any(np.abs(got - want) > tol):
                out.append(V("C09/centroid", f"centroid of deme {e['deme']} is {list(got)} but the mean of its current population is {list(want)}", event=i))
        elif k == "stage_in":
            sib = e["sib"]
        elif k == "pops":
            pops9 = e["pops"]
        elif k == "stage":
            nm = e["name"]
            if nm in ("gen:NBC_Generator", "gen:NBCGeneratorWithLocalMethod") and pops9 is not None:
                # the threshold of NBC_FarEnough is factor x the mean nearest-better distance of the PARENT's own population
                mx9 = r["spec"]["maximize"]
                for did, c in e["out"].items():
                    q = pops9.get(did)
                    if q is None or not q["active"] or c["nbc"] is None:
                        continue
                    want = nbc_mean(q["cur"], mx9, e["params"].get("truncation_factor", 1.0))
                    got = fl(c["nbc"])
                    if want is not None and not (abs(got - want) <= 1e-9 * max(1.0, abs(want))):
                        out.append(V("C09/nbc-mean", f"NBC generator attached mean nearest-better distance {got!r} to deme {did}; its own current population gives {want!r}", event=i))
            if nm in ("deme:FarEnough", "deme:NBC_FarEnough") and sib is not None and prev is not None:
                p = e["params"]
                for did, c in e["out"].items():
                    lvl = sib[did]["lvl"]
                    if nm == "deme:FarEnough":
                        thr = p["min_distance"]
                        cons = [s for s in sib.values() if s["lvl"] == lvl + 1 and s["active"]]
                    else:
                        nbc = c["nbc"]
                        thr = p["min_distance_factor"] * (fl(nbc) if nbc is not None else float("nan"))
                        cons = [s for s in sib.values() if s["lvl"] == lvl + 1 and (s["active"] or not p["check_only_active"])]
                    for g, _ in c["inds"]:
                        x = vec(g)
                        for s in cons:
                            if not s["cur"]:
                                continue
                            cen = np.mean(np.array([vec(q) for q in s["cur"]]), axis=0)
                            dist = float(np.linalg.norm(x - cen, ord=p["norm_ord"]))
                            if not dist > thr and abs(dist - thr) > 1e-9 * max(1.0, abs(thr)):
                                out.append(V("C09/far-enough", f"{nm[5:]} accepted a candidate of {did} at distance {dist!r} <= {thr!r} from the current centroid of a considered deme", event=i))
                                break
            prev = e
        if len(out) > 2:
            break
    return out


# ----------------------------------------------------------------------------- C10 (on real rounds)
def multiset_sub(a, b):
    b = list(map(lambda t: (tuple(t[0]), t[1]), b))
    for x in a:
        x = (tuple(x[0]), x[1])
        if x in b:
            b.remove(x)
        else:
            return False
    return True


def c10(r):
    out = []
    spec = r["spec"]
    mx = spec["maximize"]
    H = spec["height"]
    pops, prev, sib = None, None, None
    for i, e in enumerate(r["events"]):
        k = e["e"]
        if k == "pops":
            pops, prev = e["pops"], None
        elif k == "stage_in":
            sib = e["sib"]
        elif k == "stage":
            nm, o, p = e["name"], e["out"], e["params"]
            if nm.startswith("gen:"):
                upto = H - 1
                want = sorted(d for d, q in pops.items() if q["active"] and q["lvl"] < upto) if nm != "gen:NBCGeneratorWithLocalMethod" else None
                if want is not None and sorted(o) != want:
                    out.append(V("C10/generator-demes", f"{nm[4:]} offered candidates for {sorted(o)}, the active non-leaf demes are {want}", event=i))
                for did, c in o.items():
                    q = pops[did]
                    if nm == "gen:BestPerDeme":
                        cur = q["cur"]
                        best = max(cur, key=lambda t: key(t[1])) if mx else min(cur, key=lambda t: key(t[1]))
                        if len(c["inds"]) != 1 or key(c["inds"][0][1]) != key(best[1]) or not multiset_sub(c["inds"], cur):
                            out.append(V("C10/best-per-deme", f"BestPerDeme offered {[fl(f) for _, f in c['inds']]} for deme {did}, its current best is {fl(best[1])!r}", event=i))
                    else:
                        if not multiset_sub(c["inds"], q["cur"]) and not (nm == "gen:NBCGeneratorWithLocalMethod" and not q["active"]):
                            out.append(V("C10/generator-pop", f"{nm[4:]} offered a candidate for {did} that is not in its current population", event=i))
                        if q["active"] and q["cur"] and int(len(q["cur"]) * p.get("truncation_factor", 1.0)) >= 1:
                            bq = max(q["cur"], key=lambda t: key(t[1])) if mx else min(q["cur"], key=lambda t: key(t[1]))
                            if not any(key(f_) == key(bq[1]) for _, f_ in c["inds"]):
                                out.append(V("C10/nbc-contains-best", f"{nm[4:]} offered {len(c['inds'])} candidates for the active deme {did}, none of them its best current individual "
                                                                      f"(nearest-better clustering always returns the best)", event=i))
                        if nm == "gen:NBCGeneratorWithLocalMethod" and not q["active"]:
                            if q["lvl"] != H - 2 or len(c["inds"]) != 1 or c["inds"][0][1] != (q["best"] or [None, None])[1]:
                                out.append(V("C10/local-method", f"local-method generator offered {len(c['inds'])} candidates for the inactive deme {did}", event=i))
            else:
                if prev is not None:
                    for did, c in o.items():
                        if did not in prev or not multiset_sub(c["inds"], prev[did]["inds"]):
                            out.append(V("C10/only-remove", f"{nm} added or changed a candidate of deme {did}", event=i))
                    if nm == "deme:DemeLimit":
                        for did, c in o.items():
                            was = prev[did]["inds"]
                            if len(c["inds"]) != min(p["limit"], len(was)):
                                out.append(V("C10/deme-limit-count", f"DemeLimit({p['limit']}) kept {len(c['inds'])} of {len(was)} candidates", event=i))
                            kept = list(c["inds"])
                            dropped = [x for x in was]
                            for x in kept:
                                if x in dropped:
                                    dropped.remove(x)
                            if any(better(dx[1], kx[1], mx) for dx in dropped for kx in kept):
                                out.append(V("C10/deme-limit-best", "DemeLimit dropped a candidate strictly better than one it kept", event=i))
                    if nm == "tree:LevelLimit" and sib is not None:
                        for lvl in range(H - 1):
                            ds = [d for d in o if sib[d]["lvl"] == lvl]
                            was = [x for d in ds for x in prev[d]["inds"]]
                            kept = [x for d in ds for x in o[d]["inds"]]
                            dropped = list(was)
                            for x in kept:
                                if x in dropped:
                                    dropped.remove(x)
                            act = sum(1 for s in sib.values() if s["lvl"] == lvl + 1 and s["active"])
                            free = max(0, p["limit"] - act)
                            if any(better(dx[1], kx[1], mx) for dx in dropped for kx in kept):
                                out.append(V("C10/level-limit-best", f"LevelLimit dropped a candidate strictly better than one it kept on level {lvl} "
                                                                     f"(kept {[fl(x[1]) for x in kept]}, dropped {[fl(x[1]) for x in dropped]}, maximize={mx})", event=i))
                            if len({x[1] for x in was}) == len(was) and len(kept) != min(free, len(was)):
                                out.append(V("C10/level-limit-fill", f"LevelLimit kept {len(kept)} of {len(was)} distinct candidates with {free} free slots on level {lvl + 1}", event=i))
                    if nm == "tree:SkipSameSprout" and sib is not None:
                        for did, c in o.items():
                            lvl = sib[did]["lvl"]
                            own = [vec(s) for s in sib[did]["children_seeds"]]
                            lev = [vec(s) for q in sib.values() if q["lvl"] == lvl for s in q["children_seeds"]]
                            for g, _ in c["inds"]:
                                if any(np.all(np.isclose(s, vec(g))) for s in own):
                                    out.append(V("C10/skip-same-sound", f"SkipSameSprout let through a candidate of {did} equal to a seed already sprouted from it", event=i))
                            for g, ft in prev[did]["inds"]:
                                if [g, ft] not in [list(x) for x in c["inds"]] and (g, ft) not in [tuple(x) for x in c["inds"]]:
                                    if not any(np.all(np.isclose(s, vec(g))) for s in lev):
                                        out.append(V("C10/skip-same-complete", f"SkipSameSprout rejected a candidate of {did} that differs from every seed of the target level", event=i))
            prev = o
        if len(out) > 3:
            break
    return out[:4]


# ----------------------------------------------------------------------------- C11 / C12
def c11(r):
    out = []
    ev = r["events"]
    last_gen = {}  # deme -> last known generation (list of (genome, fit))
    cls = {}
    reqs = []  # (event index, deme, genome, value)
    last_done = {}
    cma_last_ask = {}
    for i, e in enumerate(ev):
        k = e["e"]
        if k == "new":
            cls[e["id"]] = e["cls"]
            last_gen[e["id"]] = [(tuple(g), f) for g, f in e["pop"]]
            last_done[e["id"]] = i
        elif k == "req":
            reqs.append((i, e["deme"], tuple(e["x"]), e["v"]))
        elif k == "eng":
            d = e["deme"]
            par = [(tuple(g), f) for g, f in e["parents"]]
            if d in last_gen and par != last_gen[d]:
                out.append(V("C11/parents", f"{e['cls']} of deme {d} was not fed the generation immediately before it "
                                            f"(best parent fitness {min(fl(f) for _, f in par)!r} vs previous generation {min(fl(f) for _, f in last_gen[d])!r})", event=i))
            newer = {(x, v) for (j, dd, x, v) in reqs if dd == d and j > last_done.get(d, -1)}
            for g, f in e["out"]:
                t = (tuple(g), f)
                if t not in par and t not in newer and not any(x == t[0] and fl(v) == fl(f) for x, v in newer):
                    out.append(V("C11/bred", f"an individual of deme {d}'s new generation neither belonged to the preceding generation nor was evaluated after it", event=i))
                    break
            last_gen[d] = [(tuple(g), f) for g, f in e["out"]]
            last_done[d] = i
        elif k == "cma":
            d = e["deme"]
            if e["op"] == "ask":
                cma_last_ask[d] = [tuple(x) for x in e["xs"]]
            elif e["op"] == "tell":
                if d in cma_last_ask and [tuple(x) for x in e["xs"]] != cma_last_ask[d]:
                    out.append(V("C11/cma-chain", f"CMA-ES of deme {d} was told a population other than the one it last asked", event=i))
        if len(out) > 2:
            break
    return out


def c12(r):
    out = []
    spec = r["spec"]
    mx = spec["maximize"]
    has_nan = spec["objective"]["kind"] == "nanhole"   # NaN fitness: only the size clause is compared (NaN-vs-NaN ordering is a coin in pyhms)
    gens = defaultdict(list)
    lvl = {}
    for e in r["events"]:
        if e["e"] == "new":
            lvl[e["id"]] = e["level"]
        if e["e"] == "gen":
            gens[e["deme"]].append((e["gi"], [f for _, f in e["inds"]]))
    for d, gl in gens.items():
        gl.sort()
        lv = spec["levels"][lvl.get(d, 0)]
        eng = lv["engine"]
        for (a, fa), (b, fb_) in zip(gl, gl[1:]):
            if eng in ("Local",):
                continue
            if eng in ("CMA", "CMAwarm", "CMAstds") and a == 0:
                pass
            if len(fa) != len(fb_) and eng not in ("Local",):
                out.append(V("C12/size", f"deme {d} ({eng}): generation {a} has {len(fa)} individuals, generation {b} has {len(fb_)}"))
                break
            elit = (eng in ("SEA", "SEAWithCrossover", "GAStyleSEA", "SEAWithAdaptiveMutation") and lv.get("k_elites", 1) >= 1) or eng in ("DE", "DEdither", "SHADE")
            if has_nan:
                # NaN is the worst fitness (Problem.worse_than); DE / SHADE keep the parent against a NaN trial, so their rank-wise guarantee is still
                # well-defined; SEA's numpy-argsort-based top-k is not compared on NaN populations (NaN sorts last in both directions)
                if eng in ("DE", "DEdither", "SHADE"):
                    BIG = 1 << 70
                    isn = lambda b: (b & 0x7FF0000000000000) == 0x7FF0000000000000 and (b & 0xFFFFFFFFFFFFF) != 0
                    gd = lambda b: BIG if isn(b) else (-key(b) if mx else key(b))
                    sa, sb = sorted(gd(x) for x in fa), sorted(gd(x) for x in fb_)
                    if any(y > x for x, y in zip(sa, sb)):
                        out.append(V("C12/kth-best", f"deme {d} ({eng}): some k-th best fitness got worse from generation {a} to {b} (NaN counted as the worst fitness)"))
                        break
                continue
            if elit:
                ba = max(fa, key=key) if mx else min(fa, key=key)
                bb = max(fb_, key=key) if mx else min(fb_, key=key)
                if better(ba, bb, mx):
                    out.append(V("C12/elitism", f"deme {d} ({eng}): best fitness got worse from generation {a} ({fl(ba)!r}) to {b} ({fl(bb)!r})"))
                    break
            if eng in ("DE", "DEdither", "SHADE"):
                sa = sorted((key(x) for x in fa), reverse=mx)
                sb = sorted((key(x) for x in fb_), reverse=mx)
                if any((y < x) if mx else (y > x) for x, y in zip(sa, sb)):
                    out.append(V("C12/kth-best", f"deme {d} ({eng}): some k-th best fitness got worse from generation {a} to {b}"))
                    break
        if gl and eng not in ("Local", "CMA", "CMAwarm", "CMAstds") and len(gl[0][1]) != lv["pop"]:
            out.append(V("C12/pop-size", f"deme {d} ({eng}) starts with {len(gl[0][1])} individuals, configured population size {lv['pop']}"))
    return out[:4]


# ----------------------------------------------------------------------------- C18
def c18(r):
    out = []
    ev = r["events"]
    spec = r["spec"]
    hib_on = spec["hibernation"]
    H = spec["height"]
    before = None
    seeds = None
    hib = {}
    gens_at_hib = {}
    calls_in_step = 0
    iters_in_step = 0
    step_info = None
    round_seen_in_step = False
    last_tree_consult = None
    gen_offered = {}
    for i, e in enumerate(ev):
        k = e["e"]
        if k == "round_b":
            round_seen_in_step = True
            before = {d["id"]: d for d in e["snap"]["demes"]}
        elif k == "stage" and e["name"].startswith("gen:"):
            gen_offered = {d_: len(c_["inds"]) for d_, c_ in e["out"].items()}
        elif k == "seeds":
            seeds = {d for d, inds in e["seeds"].items() if inds}     # a deme "sprouted" only if the round took at least one seed from it
        elif k == "round_e":
            now = {d["id"]: d for d in e["snap"]["demes"]}
            for did, d in now.items():
                if not hib_on:
                    if d["hib"]:
                        out.append(V("C18/off", f"deme {did} hibernates although hibernation is disabled", event=i))
                    continue
                if did not in before:
                    if d["hib"]:
                        out.append(V("C18/newborn", f"deme {did} created by this sprouting round starts hibernating", event=i))
                    continue
                if d["active"] and d["lvl"] < H - 1:
                    took_part = before[did]["active"]
                    want = took_part and did not in seeds
                    if took_part and d["hib"] != want:
                        out.append(V("C18/iff", f"deme {did}: hibernating={d['hib']} after a round that {'took no' if did not in seeds else 'took a'} sprout from it", event=i))
            hib = {did: d["hib"] for did, d in now.items()}
            gens_at_hib = {did: (d["nev"], tuple(map(tuple, d["gens"]))) for did, d in now.items() if d["hib"]}
        elif k == "req" and hib_on and hib.get(e["deme"]):
            out.append(V("C18/hib-eval", f"hibernating deme {e['deme']} evaluated the objective", event=i))
        elif k == "step":
            calls_in_step = 0
            iters_in_step = 0
            round_seen_in_step = False
            last_tree_consult = None
            snap = e["snap"]
            step_info = (i, any(d["active"] for d in snap["demes"]), [d["id"] for d in snap["demes"] if d["active"]],
                         all(d["hib"] for d in snap["demes"] if d["active"]))
            if hib_on:
                for d in snap["demes"]:
                    if d["hib"] and d["id"] in gens_at_hib and gens_at_hib[d["id"]] != (d["nev"], tuple(map(tuple, d["gens"]))):
                        out.append(V("C18/hib-frozen", f"hibernating deme {d['id']} changed", event=i))
        elif k == "call":
            calls_in_step += 1
        elif (k == "eng") or (k == "cma" and e["op"] == "ask") or k == "local" or (k == "run" and e["ph"] == "b"):
            iters_in_step += 1
        elif k == "gsc" and e["where"] == "tree":
            last_tree_consult = (i, e["v"])
        elif k == "round_b":
            round_seen_in_step = True
        elif k == "stepend" and step_info is not None and last_tree_consult is not None and not last_tree_consult[1] and not round_seen_in_step \
                and last_tree_consult[0] > step_info[0]:
            out.append(V("C18/no-round", f"metaepoch {e['m']} ended with the global stop condition false but no sprouting round was held (rounds are what wakes hibernating demes)", event=i))
            step_info = None
        elif k == "stepend" and step_info is not None:
            # liveness premise (DESIGN section 0): an engine iteration that ran but evaluated nothing (all-false mutation
            # mask, ...) is not a stall; a metaepoch in which NO engine iteration happened at all is
            if step_info[1] and calls_in_step == 0 and iters_in_step == 0:
                starved = [d_ for d_ in step_info[2] if gen_offered.get(d_, 1) == 0]
                if hib_on and step_info[3] and starved:
                    out.append(V("C18/progress/generator-offered-nothing", f"metaepoch {e['m']} passed without an evaluation: the hibernating deme(s) {starved} were offered NO candidates "
                                                                           f"at all by the generator in the last round, so no round can ever wake them", event=i))
                elif hib_on and step_info[3]:
                    out.append(V("C18/progress/all-active-demes-hibernating",
                                 f"metaepoch {e['m']} passed without a single objective evaluation: every active deme ({step_info[2]}) was hibernating", event=i))
                else:
                    out.append(V("C18/progress", f"metaepoch {e['m']} passed without a single objective evaluation although demes {step_info[2]} were active", event=i))
        if len(out) > 4:
            break
    return out


MONITORS = {"C01": c01, "C02": c02, "C03": c03, "C04": c04, "C05": c05, "C06": c06, "C07": c07, "C08": c08, "C09": c09, "C10": c10,
            "C11": c11, "C12": c12, "C18": c18}
