"""Correspondence for the sprout filters and generators (coq/Model/Sprout.v, Select.v): the real filter classes are called on
synthetic trees (fake demes carrying exactly the attributes the filters read) with real Individuals and DemeCandidates; the
model is evaluated on the same candidate keys by vm_compute.  Plus the executable filter laws (monitor)."""
import random

import numpy as np

from .components import HEADER, k_, nl, zl
from .coqrun import run_cases

HDR = HEADER.replace("From HV Require Import Ord Select", "From HV Require Import Ord Sprout Far Select") + \
    "Definition flat (c : cmap) : list Z := flat_map (fun pk => (Z.of_nat (fst pk) :: Z.of_nat (length (snd pk)) :: snd pk)) c.\n"


class FakeDeme:
    def __init__(self, did, level, active, centroid, pop=None):
        self._id, self.id, self.level, self.is_active, self._active = did, did, level, active, active
        self.centroid = centroid
        self.children = []
        self._sprout_seed = None
        self.current_population = pop or []
        self.started_at = 0
        self._history = [[pop or []]]

    @property
    def best_current_individual(self):
        return max(self.current_population) if self.current_population else None

    @property
    def best_individual(self):
        return self.best_current_individual

    def __hash__(self):
        return id(self)


class FakeTree:
    """what the filters and generators may look at on a tree (the read-only part of DemeTree's interface)"""

    def __init__(self, levels):
        self.levels = levels
        self._levels = levels
        self.metaepoch_count = 3

    @property
    def height(self):
        return len(self.levels)

    @property
    def root(self):
        return self.levels[0][0]

    @property
    def leaves(self):
        return self.levels[-1]

    @property
    def all_demes(self):
        return [(ln, d) for ln in range(self.height) for d in self.levels[ln]]

    @property
    def active_demes(self):
        return [(ln, d) for ln in range(self.height) for d in self.levels[ln] if d.is_active]

    @property
    def active_non_leaves(self):
        return [(ln, d) for ln in range(self.height - 1) for d in self.levels[ln] if d.is_active]


def gen_tree(rng, prob, dim=2):
    from pyhms.core.individual import Individual
    H = rng.choice([2, 3, 3])
    levels = [[] for _ in range(H)]
    fitpool = [float(rng.randint(-3, 3)) for _ in range(4)]

    def fit():
        return rng.choice(fitpool) if rng.random() < 0.5 else rng.uniform(-5, 5)

    def mkpop(n):
        return [Individual(np.array([rng.uniform(-3, 3) for _ in range(dim)]), prob, fit()) for _ in range(n)]
    n0 = 1
    for lv in range(H):
        n = n0 if lv == 0 else rng.randint(0, 5)
        for j in range(n):
            pop = mkpop(rng.randint(2, 6))
            d = FakeDeme(f"{lv}-{j}", lv, rng.random() < 0.65 or lv == 0, np.mean([i.genome for i in pop], axis=0), pop)
            levels[lv].append(d)
            if lv > 0 and levels[lv - 1]:
                par = rng.choice(levels[lv - 1])
                par.children.append(d)
                d._sprout_seed = rng.choice(par.current_population) if rng.random() < 0.8 else mkpop(1)[0]
    return FakeTree(levels), mkpop


def run_direct(ctx, n, tag, pid="C10"):
    from pyhms.core.problem import FunctionProblem
    from pyhms.sprout.sprout_candidates import DemeCandidates, DemeFeatures
    from pyhms.sprout.sprout_filters import DemeLimit, FarEnough, LevelLimit, NBC_FarEnough, SkipSameSprout
    from pyhms.sprout.sprout_generators import BestPerDeme
    rng = random.Random(ctx.seed + 991)
    viol, disagreements, terms, impls, metas = [], [], [], [], []
    dist = {}
    for ci in range(n):
        mx = rng.random() < 0.5
        prob = FunctionProblem(lambda x: float("nan"), np.array([[-3.0, 3.0]] * 2), mx)
        tree, mkpop = gen_tree(rng, prob)
        H = len(tree.levels)
        g = (lambda f: -k_(f)) if mx else k_
        kind = ["level", "deme", "skip", "far", "nbcfar", "best"][ci % 6]
        dist[kind] = dist.get(kind, 0) + 1
        parents = [d for lv in tree.levels[:-1] for d in lv if d.is_active]
        rng.shuffle(parents)
        cands = {}
        for d in parents:
            src = d.current_population
            inds = [rng.choice(src) for _ in range(rng.randint(0, 4))]
            if kind == "skip" and d.children and rng.random() < 0.6:
                c = rng.choice(d.children)._sprout_seed
                inds.append(type(c)(np.array(c.genome) + rng.choice([0.0, 1e-12, 1e-3]), prob, c.fitness))
            cands[d] = DemeCandidates(individuals=list(inds), features=DemeFeatures(nbc_mean_distance=rng.choice([0.0, 0.5, 1.5])))
        if kind == "level" and H == 3 and rng.random() < 0.4:
            # an upper level that proposes nothing in this round (root inactive / filtered out / an empty entry) while a deeper level proposes a lot
            for d in list(cands):
                if d.level == 0:
                    if rng.random() < 0.5:
                        cands[d].individuals = []
                    else:
                        del cands[d]
                elif d.level == 1 and len(cands[d].individuals) < 2:
                    cands[d].individuals = [rng.choice(d.current_population) for _ in range(rng.randint(2, 4))]
        before = {d: list(c.individuals) for d, c in cands.items()}
        idx = {d: i for i, d in enumerate(cands)}
        meta = {"kind": kind, "mx": mx, "height": H, "cands": {d.id: [float(i.fitness) for i in before[d]] for d in cands}}
        if kind == "level":
            act = [sum(1 for d in lv if d.is_active) for lv in tree.levels] + [0]
            # reachable occupancies only: the level-limit invariant (C08) keeps active <= L on every non-root level
            L = max(max(act[1:]), 1) + rng.choice([0, 0, 1, 2])
            out = LevelLimit(L)(cands, tree)
            lvls = [d.level for d in cands]
            cm = "[" + "; ".join(f"({idx[d]}%nat, {zl([k_(i.fitness) for i in before[d]])})" for d in cands) + "]"
            terms.append(f"flat (level_limit {str(mx).lower()} {L}%nat (fun i => nth i {nl(lvls)} 0%nat) (fun l => nth l {nl(act)} 0%nat) {cm})")
            impls.append([x for d in cands for x in ([idx[d], len(out[d].individuals)] + [k_(i.fitness) for i in out[d].individuals])])
            meta.update(limit=L, active=act)
            for lv in range(H - 1):
                ds = [d for d in cands if d.level == lv]
                was = [i for d in ds for i in before[d]]
                kept = [i for d in ds for i in out[d].individuals]
                dropped = [i for i in was if not any(i is k for k in kept)]
                free = max(0, L - act[lv + 1])
                if any(g(x.fitness) < g(y.fitness) for x in dropped for y in kept):
                    viol.append({"key": "C10/level-limit-best", "what": f"LevelLimit({L}) dropped a candidate strictly better than a kept one on level {lv}: "
                                 f"kept {[y.fitness for y in kept]} dropped {[x.fitness for x in dropped]} maximize={mx}", "case": meta})
                if len(kept) > free and act[lv + 1] + len(was) > L:
                    viol.append({"key": "C10/level-limit-count", "what": f"LevelLimit({L}) kept {len(kept)} candidates with {free} free slots", "case": meta})
                if len({x.fitness for x in was}) == len(was) and len(kept) != min(free, len(was)) and act[lv + 1] <= L:
                    viol.append({"key": "C10/level-limit-fill", "what": f"LevelLimit({L}) kept {len(kept)} of {len(was)} distinct candidates with {free} free slots", "case": meta})
        elif kind == "deme":
            lim = rng.randint(1, 3)
            out = DemeLimit(lim)(cands, tree)
            terms.append("flat [" + "; ".join(f"({idx[d]}%nat, deme_limit {str(mx).lower()} {lim}%nat {zl([k_(i.fitness) for i in before[d]])})" for d in cands) + "]")
            impls.append([x for d in cands for x in ([idx[d], len(out[d].individuals)] + [k_(i.fitness) for i in out[d].individuals])])
            for d in cands:
                kept, was = out[d].individuals, before[d]
                dropped = [i for i in was if not any(i is k for k in kept)]
                if len(kept) != min(lim, len(was)):
                    viol.append({"key": "C10/deme-limit-count", "what": f"DemeLimit({lim}) kept {len(kept)} of {len(was)}", "case": meta})
                if any(g(x.fitness) < g(y.fitness) for x in dropped for y in kept):
                    viol.append({"key": "C10/deme-limit-best", "what": f"DemeLimit({lim}) dropped a strictly better candidate (maximize={mx}): kept {[y.fitness for y in kept]} of {[x.fitness for x in was]}", "case": meta})
        elif kind == "skip":
            out = SkipSameSprout()(cands, tree)
            for d in cands:
                own = [c._sprout_seed.genome for c in d.children]
                lev = [c._sprout_seed.genome for q in tree.levels[d.level] for c in q.children]
                for i in out[d].individuals:
                    if any(np.all(np.isclose(s, i.genome)) for s in own):
                        viol.append({"key": "C10/skip-same-sound", "what": f"SkipSameSprout let through a candidate equal to a seed already sprouted from {d.id}", "case": meta})
                for i in before[d]:
                    if not any(i is k for k in out[d].individuals) and not any(np.all(np.isclose(s, i.genome)) for s in lev):
                        viol.append({"key": "C10/skip-same-complete", "what": f"SkipSameSprout rejected a candidate of {d.id} that differs from every seed of the target level", "case": meta})
        elif kind in ("far", "nbcfar"):
            thr = rng.choice([0.0, 0.5, 2.0, 3.0])
            only_active = rng.random() < 0.5
            nord = rng.choice([2, 2, 1, np.inf])         # every norm the filters accept
            f = FarEnough(thr, nord) if kind == "far" else NBC_FarEnough(thr, nord, only_active)
            meta["norm_ord"] = str(nord)
            out = f(cands, tree)
            for d in cands:
                below = list(tree.levels[d.level + 1])
                sibs = [s for s in below if s.is_active or (kind == "nbcfar" and not only_active)]
                t = thr if kind == "far" else thr * cands[d].features.nbc_mean_distance
                # model: distance keys as numpy computes them, threshold key, the whole level below with its activity flags
                if before[d] and below:
                    M = "[" + "; ".join(zl([k_(np.linalg.norm(i.genome - s.centroid, ord=nord)) for s in below]) for i in before[d]) + "]"
                    acts = "[" + "; ".join("true" if s.is_active else "false" for s in below) + "]"
                    oa = "true" if (kind == "far" or only_active) else "false"
                    tk = k_(t)
                    terms.append(f"map Z.of_nat (far_filter (fun c s => nth s (nth c {M} []) 0) (fun s => nth s {acts} false) {oa} {('(%d)' % tk) if tk < 0 else tk} "
                                 f"(seq 0 {len(below)}) (seq 0 {len(before[d])}))")
                    impls.append([j for j, i in enumerate(before[d]) if any(i is k for k in out[d].individuals)])
                    metas.append(dict(meta, deme=d.id, thr=t))
                for i in before[d]:
                    far = all(np.linalg.norm(i.genome - s.centroid, ord=nord) > t for s in sibs)
                    inn = any(i is k for k in out[d].individuals)
                    margin = min([abs(np.linalg.norm(i.genome - s.centroid, ord=nord) - t) for s in sibs] or [1.0])
                    if far != inn and margin > 1e-9:
                        viol.append({"key": "C09/far-enough" if not far else "C10/only-remove-too-much",
                                     "what": f"{type(f).__name__}({thr}) {'accepted' if inn else 'rejected'} a candidate whose minimal distance to the considered centroids is "
                                             f"{'not ' if not far else ''}above the threshold {t}", "case": meta})
        else:
            out = BestPerDeme()(tree)
            want = sorted(d.id for lv in tree.levels[:-1] for d in lv if d.is_active)
            if sorted(d.id for d in out) != want:
                viol.append({"key": "C10/generator-demes", "what": f"BestPerDeme offered candidates for {sorted(d.id for d in out)}, active non-leaf demes are {want}", "case": meta})
            terms.append("flat [" + "; ".join(f"({j}%nat, match best_of {str(mx).lower()} {zl([k_(i.fitness) for i in d.current_population])} with Some b => [b] | None => [] end)"
                                             for j, d in enumerate(out)) + "]")
            impls.append([x for j, d in enumerate(out) for x in ([j, len(out[d].individuals)] + [k_(i.fitness) for i in out[d].individuals])])
            for d, c in out.items():
                if len(c.individuals) != 1 or not any(c.individuals[0] is i for i in d.current_population):
                    viol.append({"key": "C10/best-per-deme", "what": f"BestPerDeme offered {len(c.individuals)} individuals for {d.id}, not one individual of its current population", "case": meta})
        for d in cands if kind != "best" else []:
            for i in out[d].individuals:
                if not any(i is b for b in before[d]):
                    viol.append({"key": "C10/only-remove", "what": f"{kind} filter added or replaced a candidate of {d.id}", "case": meta})
        if kind in ("level", "deme", "best"):
            metas.append(meta)
    model, err = run_cases(tag, HDR, terms)
    if model is None:
        disagreements.append({"what": "model evaluation failed: " + err[-400:]})
    else:
        for t, im, mo, me in zip(terms, impls, model, metas):
            if im != mo:
                disagreements.append({"what": f"{me['kind']} filter (maximize={me['mx']}): implementation {im} model {mo}", "case": me})
    return {"violations": [dict(v, replay_fn="direct") for v in viol], "disagreements": disagreements[:10], "evaluations": n, "distinct_nontrivial": len({str(m) for m in metas}),
            "validated": len(terms) if model is not None else 0, "far_cases": sum(1 for m in metas if m["kind"] in ("far", "nbcfar")), "distribution": dist, "samples": metas[:2]}
