from . import accessors_py, common_py, ctor_py, minimize_py, nbc_py, driver_py, entropy_py, filters_py, ops_py, popops_py, problem_py, stops_py

FRONT_ENDS = {"common": common_py, "problem": problem_py, "entropy": entropy_py, "driver": driver_py, "stops": stops_py, "levellimit": filters_py.LEVELLIMIT, "demelimit": filters_py.DEMELIMIT, "farfilters": filters_py.FARFILTERS, "generators": filters_py.GENERATORS, "mechanism": filters_py.MECHANISM, "accessors": accessors_py, "popops": popops_py, "ops": ops_py, "ctor": ctor_py, "minimize": minimize_py, "order": ctor_py.ORDER, "nbc": nbc_py}
