from . import common_py

FRONT_ENDS = {"common": common_py}
