from . import common_py, driver_py, entropy_py, filters_py, problem_py, stops_py

FRONT_ENDS = {"common": common_py, "problem": problem_py, "entropy": entropy_py, "driver": driver_py, "stops": stops_py, "filters": filters_py}
