from . import common_py, problem_py

FRONT_ENDS = {"common": common_py, "problem": problem_py}
