"""The read-only accessors behind "reported best" (property C04, and what C20's reports print): AbstractDeme.history / all_individuals /
current_population / best_current_individual / best_individual / metaepoch_count and DemeTree.best_individual / best_leaf_individual /
all_individuals  ->  Gen/GenAccessors.v : pure functions of a deme's stored history (metaepochs -> generations -> fitness keys) and of the
tree's levels of demes.  Proofs/GenEquivAccessors.v proves them equal to `best_of` over everything stored, which is what C04's theorems
are about.  python's max() on Individuals is `best_of` (the first maximal element; Individual ordering = Problem.worse_than on the
fitness, translated from problem.py by the `problem` front end)."""
import ast

from .core import Unsupported, find_def
from .driver_py import dotted
from .lazy import Inliner, normalise, return_paths

OUTPUTS = ["GenAccessors.v"]
DEME, TREE = "pyhms/demes/abstract_deme.py", "pyhms/tree.py"
ELEM = {"hist3": "gens", "gens": "inds", "inds": "ind", "levels": "dhists", "dhists": "dhist", "optinds": "optind"}
NIL = {"hist3", "gens", "inds", "levels", "dhists"}


class PTr:
    """pure expressions over one deme's history `h` (ctx deme) or the tree's levels `lv` (ctx tree)"""

    def __init__(self, src, ctx, known):
        self.src, self.ctx, self.known = src, ctx, known   # known: property name -> result type

    def bad(self, node, what):
        raise Unsupported(f"{self.src}:{getattr(node, 'lineno', '?')}: unsupported {what}: {ast.unparse(node)[:160]}")

    def expr(self, e, env):
        if isinstance(e, ast.Name) and e.id in env:
            return env[e.id]
        if isinstance(e, ast.Constant) and e.value is None:
            return ("None", "optind")
        if isinstance(e, ast.Constant) and isinstance(e.value, int) and 0 <= e.value < 100:
            return (str(e.value), "nat")
        if isinstance(e, ast.Attribute):
            d = dotted(e)
            if d == "self._history" and self.ctx == "deme":
                return ("h", "hist3")
            if d in ("self._levels", "self.levels") and self.ctx == "tree":
                return ("lv", "levels")
            if d == "self.leaves" and self.ctx == "tree" and "leaves" in self.known:
                return ("(gen_leaves lv)", "dhists")
            if isinstance(e.value, ast.Name) and e.value.id == "self" and e.attr in self.known:
                arg = "mx h" if self.ctx == "deme" else "mx lv"
                return (f"(gen_{'deme' if self.ctx == 'deme' else 'tree'}_{e.attr} {arg})", self.known[e.attr])
            base = self.expr(e.value, env)
            if base[1] == "dhist" and e.attr in DEME_PROPS:
                return (f"(gen_deme_{e.attr} mx {base[0]})", DEME_PROPS[e.attr])
            self.bad(e, f"attribute of {base[1]}")
        if isinstance(e, ast.Subscript):
            base = self.expr(e.value, env)
            sl = e.slice
            if isinstance(sl, ast.UnaryOp) and isinstance(sl.op, ast.USub) and isinstance(sl.operand, ast.Constant) and sl.operand.value == 1 and base[1] in NIL:
                return (f"(last {base[0]} [])", ELEM[base[1]])
            self.bad(e, "subscript")
        if isinstance(e, (ast.ListComp, ast.GeneratorExp)):
            env2 = dict(env)
            srcs, binders = [], []
            for g in e.generators:
                it = self.expr(g.iter, env2)
                if it[1] not in ELEM or not isinstance(g.target, ast.Name):
                    self.bad(e, f"comprehension over {it[1]}")
                x = "v_" + g.target.id
                env2[g.target.id] = (x, ELEM[it[1]])
                src = it[0]
                for c in g.ifs:
                    cv = self.expr(c, env2)
                    if cv[1] == "optind":
                        cv = (f"(is_some {cv[0]})", "bool")
                    if cv[1] != "bool":
                        self.bad(c, "filter")
                    src = f"(filter (fun {x} => {cv[0]}) {src})"
                srcs.append(src)
                binders.append(x)
            elt = self.expr(e.elt, env2)
            out_ty = {"gens": "hist3", "inds": "gens", "ind": "inds", "optind": "optinds"}.get(elt[1])
            if out_ty is None:
                self.bad(e, f"element of type {elt[1]}")
            inner = srcs[-1] if elt[0] == binders[-1] else f"(map (fun {binders[-1]} => {elt[0]}) {srcs[-1]})"
            for x, src in zip(reversed(binders[:-1]), reversed(srcs[:-1])):
                inner = f"(flat_map (fun {x} => {inner}) {src})"
            return (inner, out_ty)
        if isinstance(e, ast.Call):
            d = dotted(e.func)
            if d == "max" and len(e.args) == 1 and not e.keywords:
                v = self.expr(e.args[0], env)
                if v[1] == "inds":
                    return (f"(best_of mx {v[0]})", "optind")
                if v[1] == "optinds":   # max over demes' bests (all present: Individuals; a None among them would raise in python)
                    return (f"(best_of mx (somes {v[0]}))", "optind")
            if d == "len" and len(e.args) == 1:
                v = self.expr(e.args[0], env)
                if v[1] in NIL:
                    return (f"(length {v[0]})", "nat")
            self.bad(e, "call")
        if isinstance(e, ast.UnaryOp) and isinstance(e.op, ast.Not):
            v = self.expr(e.operand, env)
            if v[1] in NIL:
                return (f"(is_nil {v[0]})", "bool")
            if v[1] == "bool":
                return (f"(negb {v[0]})", "bool")
            if v[1] == "optind":
                return (f"(negb (is_some {v[0]}))", "bool")
        if isinstance(e, ast.IfExp):
            c = self.expr(e.test, env)
            a, b = self.expr(e.body, env), self.expr(e.orelse, env)
            if c[1] in NIL:
                c = (f"(negb (is_nil {c[0]}))", "bool")
            if c[1] == "bool" and a[1] == b[1] == "optind":
                return (f"(if {c[0]} then {a[0]} else {b[0]})", "optind")
            self.bad(e, "conditional expression")
        if isinstance(e, ast.BinOp) and isinstance(e.op, ast.Sub):
            a, b = self.expr(e.left, env), self.expr(e.right, env)
            if a[1] == b[1] == "nat":
                return (f"({a[0]} - {b[0]})", "nat")
        self.bad(e, "expression")


COQ = {"hist3": "list (list (list Z))", "gens": "list (list Z)", "inds": "list Z", "optind": "option Z", "nat": "nat", "dhists": "list (list (list (list Z)))"}
DEME_PROPS = {"history": "gens", "all_individuals": "inds", "current_population": "inds", "best_current_individual": "optind", "best_individual": "optind",
              "metaepoch_count": "nat"}


def prop_body(mod, cls, name, src):
    """the value a property returns, after shape normalisation, with its local temporaries inlined (hv/translate/lazy.py); several guarded
    returns become one conditional expression"""
    fn = normalise(find_def(mod, name, cls))
    paths = return_paths(fn, src)
    if len(paths) == 1 and not paths[0][0]:
        return paths[0][1]
    # if c: return a ... return b   ->   a if c else b   (paths come in source order; the last one is the fall-through)
    expr = paths[-1][1]
    for conds, e in reversed(paths[:-1]):
        if not conds or any(pol_ for _, pol_ in conds[:-1]):
            raise Unsupported(f"{src}:{fn.lineno}: {cls}.{name}: returns nested under several tests")
        t, pol = conds[-1]
        test = t if pol else ast.UnaryOp(op=ast.Not(), operand=t)
        expr = ast.IfExp(test=test, body=e, orelse=expr)
    return ast.fix_missing_locations(expr)


def translate(repo):
    out = ["(* GENERATED from pyhms/demes/abstract_deme.py and pyhms/tree.py by hv/translate/accessors_py.py — do not edit *)",
           "From Coq Require Import List Bool Arith ZArith.", "From HV Require Import Ord Select.", "Import ListNotations.", "",
           "Definition is_nil {A} (l : list A) : bool := match l with [] => true | _ => false end.",
           "Definition is_some {A} (o : option A) : bool := match o with Some _ => true | None => false end.",
           "Fixpoint somes {A} (l : list (option A)) : list A := match l with [] => [] | Some x :: r => x :: somes r | None :: r => somes r end.", ""]
    fns = []
    dmod = ast.parse(open(f"{repo}/{DEME}").read())
    known = {}
    for name in ["history", "all_individuals", "current_population", "best_current_individual", "best_individual", "metaepoch_count"]:
        tr = PTr(DEME, "deme", dict(known))
        code, ty = tr.expr(prop_body(dmod, "AbstractDeme", name, DEME), {})
        if ty != DEME_PROPS[name]:
            raise Unsupported(f"{DEME}: AbstractDeme.{name} has type {ty}, expected {DEME_PROPS[name]}")
        out.append(f"Definition gen_deme_{name} (mx : bool) (h : list (list (list Z))) : {COQ[ty]} :=\n  {code}.\n")
        known[name] = ty
        fns.append(f"{DEME}:AbstractDeme.{name}")
    # centroid: the mean genome of the CURRENT population, recomputed on every read (no stored value is consulted)
    e = prop_body(dmod, "AbstractDeme", "centroid", DEME)
    if not (isinstance(e, ast.Call) and dotted(e.func) == "compute_centroid" and len(e.args) == 1 and not e.keywords):
        raise Unsupported(f"{DEME}: AbstractDeme.centroid is not compute_centroid(<population>): {ast.unparse(e)[:120]}")
    code, ty = PTr(DEME, "deme", dict(known)).expr(e.args[0], {})
    if ty != "inds":
        raise Unsupported(f"{DEME}: AbstractDeme.centroid is computed from a value of type {ty}")
    from .lazy import canon
    cfn = normalise(find_def(dmod, "compute_centroid"))
    pn = cfn.args.args[0].arg
    seen = {}
    for conds, e_ in return_paths(cfn, DEME):
        if len(conds) != 1:
            raise Unsupported(f"{DEME}:{cfn.lineno}: compute_centroid: more than one test")
        t_ = conds[0][0]
        u_ = ast.unparse(t_)
        if u_ in (f"not {pn}", f"len({pn}) == 0"):
            empty = conds[0][1]
        elif u_ in (pn, f"len({pn}) > 0", f"len({pn}) != 0"):
            empty = not conds[0][1]
        else:
            raise Unsupported(f"{DEME}:{cfn.lineno}: compute_centroid: unsupported test {u_[:80]}")
        seen[empty] = ast.unparse(canon(e_))
    if seen != {True: "None", False: f"np.mean([_c0.genome for _c0 in {pn}], axis=0)"}:
        raise Unsupported(f"{DEME}:{cfn.lineno}: compute_centroid is not `None for an empty population, else np.mean of the genomes (axis=0)`: {seen}")
    out.append("Definition gen_deme_centroid {M} (mean : list Z -> M) (mx : bool) (h : list (list (list Z))) : M :=\n"
               f"  mean {code}.   (* mean [] stands for None *)\n")
    fns += [f"{DEME}:AbstractDeme.centroid", f"{DEME}:compute_centroid"]
    tmod = ast.parse(open(f"{repo}/{TREE}").read())
    # leaves = self.levels[-1]
    tr = PTr(TREE, "tree", {})
    code, ty = tr.expr(prop_body(tmod, "DemeTree", "leaves", TREE), {})
    if ty != "dhists":
        raise Unsupported(f"{TREE}: DemeTree.leaves has type {ty}")
    out.append(f"Definition gen_leaves (lv : list (list (list (list (list Z))))) : {COQ['dhists']} :=\n  {code}.\n")
    tknown = {"leaves": "dhists"}
    for name in ["best_individual", "best_leaf_individual"]:
        tr = PTr(TREE, "tree", dict(tknown))
        code, ty = tr.expr(prop_body(tmod, "DemeTree", name, TREE), {})
        if ty != "optind":
            raise Unsupported(f"{TREE}: DemeTree.{name} has type {ty}")
        out.append(f"Definition gen_tree_{name} (mx : bool) (lv : list (list (list (list (list Z))))) : option Z :=\n  {code}.\n")
        fns.append(f"{TREE}:DemeTree.{name}")
    return {"GenAccessors.v": "\n".join(out)}, fns
