"""pyhms.minimize() (hms.py)  ->  Gen/GenMinimize.v : the plan it sets up — the default budget, the evaluation-cutoff wrapper on the ONE
FunctionProblem both levels share, the global stop condition chosen from maxfun / maxiter, and which counter / individual the
OptimizeResult reports.  maxfun / maxiter are `option Z`; `x is None` / `x is not None` are the only tests understood (truthiness such
as `if not maxfun` is refused: 0 is a budget)."""
import ast

from .core import Unsupported, find_def
from .driver_py import dotted
from .lazy import Inliner

OUTPUTS = ["GenMinimize.v"]
SRC = "pyhms/hms.py"


def bad(node, what):
    raise Unsupported(f"{SRC}:{getattr(node, 'lineno', '?')}: minimize(): unsupported {what}: {ast.unparse(node)[:160]}")


class Tr:
    def __init__(self, consts):
        self.consts = consts
        self.ver = {"maxfun": 0, "maxiter": 0}

    def cur(self, name):
        return f"{name}{self.ver[name]}"

    def test(self, t):
        if isinstance(t, ast.BoolOp):
            parts = [self.test(v) for v in t.values]
            op = "andb" if isinstance(t.op, ast.And) else "orb"
            code = parts[-1]
            for p in reversed(parts[:-1]):
                code = f"({op} {p} {code})"
            return code
        if isinstance(t, ast.UnaryOp) and isinstance(t.op, ast.Not) and isinstance(t.operand, (ast.BoolOp, ast.Compare)):
            return f"(negb {self.test(t.operand)})"
        if isinstance(t, ast.Compare) and len(t.ops) == 1 and isinstance(t.left, ast.Name) and t.left.id in self.ver \
                and isinstance(t.comparators[0], ast.Constant) and t.comparators[0].value is None:
            if isinstance(t.ops[0], ast.Is):
                return f"(is_none {self.cur(t.left.id)})"
            if isinstance(t.ops[0], ast.IsNot):
                return f"(is_some {self.cur(t.left.id)})"
        bad(t, "test (only `maxfun is None` / `is not None` and their combinations are understood; truthiness would treat a budget of 0 as absent)")

    def optz(self, e):
        """an expression of type option Z: maxfun / maxiter / an int constant / a module constant"""
        if isinstance(e, ast.Name) and e.id in self.ver:
            return self.cur(e.id)
        if isinstance(e, ast.Name) and e.id in self.consts:
            return f"(Some {self.consts[e.id]})"
        if isinstance(e, ast.Constant) and type(e.value) is int and e.value >= 0:
            return f"(Some {e.value})"
        if isinstance(e, ast.Constant) and e.value is None:
            return "None"
        bad(e, "budget expression")


def translate(repo):
    mod = ast.parse(open(f"{repo}/{SRC}").read())
    consts = {}
    for n in mod.body:
        if isinstance(n, ast.Assign) and len(n.targets) == 1 and isinstance(n.targets[0], ast.Name) and isinstance(n.value, ast.Constant) and type(n.value.value) is int:
            consts[n.targets[0].id] = n.value.value
    fn = find_def(mod, "minimize")
    argn = [a.arg for a in fn.args.args]
    if argn[:4] != ["fun", "bounds", "maxfun", "maxiter"]:
        raise Unsupported(f"{SRC}:{fn.lineno}: minimize signature {argn}")
    dflt = dict(zip(argn[-len(fn.args.defaults):], fn.args.defaults))
    for a in ("maxfun", "maxiter"):
        if not (isinstance(dflt.get(a), ast.Constant) and dflt[a].value is None):
            raise Unsupported(f"{SRC}:{fn.lineno}: default of {a} is not None")
    tr = Tr(consts)
    lets = []
    body = list(fn.body)
    ret = body[-1]
    if not (isinstance(ret, ast.Return) and isinstance(ret.value, ast.Call) and dotted(ret.value.func) == "OptimizeResult" and not ret.value.args):
        bad(ret, "last statement (must be return OptimizeResult(x=..., nfev=..., fun=..., nit=...))")
    tree_name = levels = gsc_expr = None
    problems = {}         # local name -> ("base", maximize) | ("wrapped", code of the stack)
    for s in body[:-1]:
        if isinstance(s, ast.Expr) and isinstance(s.value, ast.Constant):
            continue
        if isinstance(s, ast.AnnAssign) and s.value is not None:
            s = ast.copy_location(ast.Assign(targets=[s.target], value=s.value), s)
        # `if <test>: maxfun = <budget>` (no else): a new version of maxfun / maxiter
        if isinstance(s, ast.If) and not s.orelse and len(s.body) == 1 and isinstance(s.body[0], ast.Assign) and isinstance(s.body[0].targets[0], ast.Name) \
                and s.body[0].targets[0].id in tr.ver:
            nm = s.body[0].targets[0].id
            t, v, old = tr.test(s.test), tr.optz(s.body[0].value), tr.cur(nm)
            tr.ver[nm] += 1
            lets.append(f"let {tr.cur(nm)} := if {t} then {v} else {old} in")
            continue
        if isinstance(s, ast.If) and ast.unparse(s.test) == "isinstance(bounds, list)" and all(isinstance(x, ast.Assign) and ast.unparse(x.targets[0]) == "bounds" for x in s.body) and not s.orelse:
            continue
        if isinstance(s, ast.Assign) and len(s.targets) == 1 and isinstance(s.targets[0], ast.Name):
            nm, v = s.targets[0].id, s.value
            if nm in tr.ver:
                bad(s, "unconditional reassignment of the budget")
            if isinstance(v, ast.Call) and dotted(v.func) == "FunctionProblem":
                kw = {k.arg: k.value for k in v.keywords}
                mx = kw.get("maximize")
                if not (isinstance(mx, ast.Constant) and isinstance(mx.value, bool)) or not v.args or ast.unparse(v.args[0]) != "fun" or ast.unparse(kw.get("bounds", ast.Constant(0))) != "bounds":
                    bad(s, "FunctionProblem(fun, maximize=<bool>, bounds=bounds)")
                problems[nm] = ("base", "true" if mx.value else "false")
                continue

            def wrapped(e):
                """stack code of a problem expression"""
                if isinstance(e, ast.Name) and e.id in problems:
                    return "[]" if problems[e.id][0] == "base" else problems[e.id][1]
                if isinstance(e, ast.Call) and dotted(e.func) == "EvalCutoffProblem":
                    kw = {k.arg: k.value for k in e.keywords}
                    inner = e.args[0] if e.args else kw.get("decorated_problem")
                    cut = e.args[1] if len(e.args) > 1 else kw.get("eval_cutoff")
                    if inner is None or cut is None:
                        bad(e, "EvalCutoffProblem arguments")
                    return f"((KCutoff, fresh_cutoff (oget {tr.optz(cut)})) :: {wrapped(inner)})"
                if isinstance(e, ast.IfExp):
                    return f"(if {tr.test(e.test)} then {wrapped(e.body)} else {wrapped(e.orelse)})"
                bad(e, "problem expression")
            if (isinstance(v, ast.IfExp) and any(isinstance(n, ast.Call) and dotted(n.func) == "EvalCutoffProblem" for n in ast.walk(v))) or (isinstance(v, ast.Call) and dotted(v.func) == "EvalCutoffProblem"):
                problems[nm] = ("wrapped", wrapped(v))
                continue
            if nm == "gsc":
                gsc_expr = v
                continue
            if nm == "level_config":
                levels = v
                continue
            if isinstance(v, ast.Call) and dotted(v.func) == "DemeTree":
                tree_name = nm
                continue
            if any(isinstance(n, ast.Name) and (n.id in tr.ver or n.id in problems) for n in ast.walk(v)):
                bad(s, "use of the budget / the problem")
            continue
        if isinstance(s, ast.If) and any(isinstance(n, ast.Name) and (n.id in tr.ver or n.id in problems) for n in ast.walk(s)):
            bad(s, "conditional on the budget")
        if isinstance(s, ast.Expr) and isinstance(s.value, ast.Call) and tree_name and ast.unparse(s.value) == f"{tree_name}.run()":
            continue
        if any(isinstance(n, ast.Name) and (n.id in tr.ver or n.id in problems) for n in ast.walk(s)):
            bad(s, "statement using the budget / the problem")
    if gsc_expr is None or levels is None or tree_name is None:
        raise Unsupported(f"{SRC}:{fn.lineno}: minimize(): gsc / level_config / the tree not found")

    def gsc(e):
        if isinstance(e, ast.IfExp):
            return f"(if {tr.test(e.test)} then {gsc(e.body)} else {gsc(e.orelse)})"
        if isinstance(e, ast.Call) and dotted(e.func) == "SingularProblemEvalLimitReached" and len(e.args) == 1 and not e.keywords:
            return f"(ByEvals (oget {tr.optz(e.args[0])}))"
        if isinstance(e, ast.Call) and dotted(e.func) == "MetaepochLimit" and len(e.args) == 1 and not e.keywords:
            return f"(ByMetaepochs {tr.optz(e.args[0])})"
        bad(e, "global stop condition")
    gsc_code = gsc(gsc_expr)
    # both levels are given the same problem object
    if not (isinstance(levels, ast.List) and len(levels.elts) == 2 and all(isinstance(x, ast.Call) for x in levels.elts)):
        bad(levels, "level_config (two levels expected)")
    probs = [ast.unparse({k.arg: k.value for k in x.keywords}.get("problem", ast.Constant(None))) for x in levels.elts]
    if len(set(probs)) != 1 or probs[0] not in problems:
        bad(levels, f"problems of the two levels {probs}")
    shared = probs[0]
    stack = "[]" if problems[shared][0] == "base" else problems[shared][1]
    base = [n for n, v in problems.items() if v[0] == "base"]
    mx = problems[base[0]][1] if base else "false"
    # the result
    kw = {k.arg: k.value for k in ret.value.keywords}

    def nfev(e):
        if isinstance(e, ast.IfExp):
            return f"(if {tr.test(e.test)} then {nfev(e.body)} else {nfev(e.orelse)})"
        u = ast.unparse(e)
        if u == f"{shared}.n_evaluations" and problems[shared][0] == "wrapped":
            return "FromCutoffWrapper"
        if u == f"{tree_name}.n_evaluations":
            return "FromTree"
        bad(e, "nfev")
    nfev_code = nfev(kw.get("nfev", ast.Constant(None)))
    flags = {"x": f"{tree_name}.best_individual.genome", "fun": f"{tree_name}.best_individual.fitness", "nit": f"{tree_name}.metaepoch_count"}
    inl = Inliner(fn, SRC, keep=("maxfun", "maxiter", tree_name))
    fl = {k: ("true" if ast.unparse(inl.inline(kw[k], ret)) == v else "false") if k in kw else "false" for k, v in flags.items()}
    out = ["(* GENERATED from pyhms/hms.py by hv/translate/minimize_py.py — do not edit *)", "From Coq Require Import ZArith List Bool.",
           "From HV Require Import F64 WMonad Problem Minimize.", "Import ListNotations.", "Local Open Scope Z_scope.", "",
           "Definition gen_minimize_plan (maxfun0 maxiter0 : option Z) : plan :=\n  " + "\n  ".join(lets) +
           f"\n  {{| pl_stack := {stack}; pl_maximize := {mx}; pl_gsc := {gsc_code}; pl_nfev := {nfev_code}; pl_levels_share_problem := true;\n"
           f"     pl_x_is_tree_best := {fl['x']}; pl_fun_is_tree_best := {fl['fun']}; pl_nit_is_metaepochs := {fl['nit']} |}}.\n"]
    return {"GenMinimize.v": "\n".join(out)}, [f"{SRC}:minimize"]
