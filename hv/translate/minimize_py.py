"""pyhms.minimize() (hms.py)  ->  Gen/GenMinimize.v : the plan it sets up — the default budget, the evaluation-cutoff wrapper on the ONE
FunctionProblem both levels share, the global stop condition chosen from maxfun / maxiter, and which counter / individual the
OptimizeResult reports.  Sink-driven: the arguments of TreeConfig(...) / DemeTree(...) / OptimizeResult(...) are expressed in terms of the
parameters by inlining every local (hv/translate/lazy.py), then interpreted.  maxfun / maxiter are `option Z`; `x is None` /
`x is not None` are the only tests understood (truthiness such as `if not maxfun` is refused: 0 is a budget)."""
import ast

from .core import Unsupported, find_def
from .driver_py import dotted
from .lazy import Inliner

OUTPUTS = ["GenMinimize.v"]
SRC = "pyhms/hms.py"


def bad(node, what):
    raise Unsupported(f"{SRC}:{getattr(node, 'lineno', '?')}: minimize(): unsupported {what}: {ast.unparse(node)[:160]}")


class Tr:
    def __init__(self, consts):
        self.consts = consts

    def optz(self, e):
        """an expression of type option Z over the parameters maxfun / maxiter"""
        if isinstance(e, ast.Name) and e.id in ("maxfun", "maxiter"):
            return e.id + "0"
        if isinstance(e, ast.Name) and e.id in self.consts:
            return f"(Some {self.consts[e.id]})"
        if isinstance(e, ast.Constant) and type(e.value) is int and e.value >= 0:
            return f"(Some {e.value})"
        if isinstance(e, ast.Constant) and e.value is None:
            return "None"
        if isinstance(e, ast.IfExp):
            return f"(if {self.test(e.test)} then {self.optz(e.body)} else {self.optz(e.orelse)})"
        bad(e, "budget expression")

    def test(self, t):
        if isinstance(t, ast.BoolOp):
            parts = [self.test(v) for v in t.values]
            op = "andb" if isinstance(t.op, ast.And) else "orb"
            code = parts[-1]
            for p in reversed(parts[:-1]):
                code = f"({op} {p} {code})"
            return code
        if isinstance(t, ast.UnaryOp) and isinstance(t.op, ast.Not) and isinstance(t.operand, (ast.BoolOp, ast.Compare, ast.UnaryOp)):
            return f"(negb {self.test(t.operand)})"
        if isinstance(t, ast.Compare) and len(t.ops) == 1 and isinstance(t.comparators[0], ast.Constant) and t.comparators[0].value is None and isinstance(t.ops[0], (ast.Is, ast.IsNot)):
            return f"({'is_none' if isinstance(t.ops[0], ast.Is) else 'is_some'} {self.optz(t.left)})"
        bad(t, "test (only `maxfun is None` / `is not None` and their combinations are understood; truthiness would treat a budget of 0 as absent)")

    def problem(self, e):
        """stack code of a problem expression (outermost wrapper first) and the direction of the FunctionProblem underneath"""
        if isinstance(e, ast.IfExp):
            a, ma = self.problem(e.body)
            b, mb = self.problem(e.orelse)
            if ma != mb:
                bad(e, "direction differs between the branches")
            return f"(if {self.test(e.test)} then {a} else {b})", ma
        if isinstance(e, ast.Call) and dotted(e.func) == "EvalCutoffProblem":
            kw = {k.arg: k.value for k in e.keywords}
            inner = e.args[0] if e.args else kw.get("decorated_problem")
            cut = e.args[1] if len(e.args) > 1 else kw.get("eval_cutoff")
            if inner is None or cut is None:
                bad(e, "EvalCutoffProblem arguments")
            st, mx = self.problem(inner)
            return f"((KCutoff, fresh_cutoff (oget {self.optz(cut)})) :: {st})", mx
        if isinstance(e, ast.Call) and dotted(e.func) == "FunctionProblem":
            kw = {k.arg: k.value for k in e.keywords}
            mx = kw.get("maximize")
            if not (isinstance(mx, ast.Constant) and isinstance(mx.value, bool)) or not e.args or ast.unparse(e.args[0]) != "fun":
                bad(e, "FunctionProblem(fun, maximize=<bool>, bounds=...)")
            return "[]", "true" if mx.value else "false"
        bad(e, "problem expression")

    def gsc(self, e):
        if isinstance(e, ast.IfExp):
            return f"(if {self.test(e.test)} then {self.gsc(e.body)} else {self.gsc(e.orelse)})"
        if isinstance(e, ast.Call) and dotted(e.func) == "SingularProblemEvalLimitReached" and len(e.args) == 1 and not e.keywords:
            return f"(ByEvals (oget {self.optz(e.args[0])}))"
        if isinstance(e, ast.Call) and dotted(e.func) == "MetaepochLimit" and len(e.args) == 1 and not e.keywords:
            return f"(ByMetaepochs {self.optz(e.args[0])})"
        bad(e, "global stop condition")


def translate(repo):
    mod = ast.parse(open(f"{repo}/{SRC}").read())
    consts = {}
    for n in mod.body:
        if isinstance(n, ast.Assign) and len(n.targets) == 1 and isinstance(n.targets[0], ast.Name) and isinstance(n.value, ast.Constant) and type(n.value.value) is int:
            consts[n.targets[0].id] = n.value.value
    fn = find_def(mod, "minimize")
    argn = [a.arg for a in fn.args.args]
    if argn[:4] != ["fun", "bounds", "maxfun", "maxiter"]:
        raise Unsupported(f"{SRC}:{fn.lineno}: minimize signature {argn}")
    dflt = dict(zip(argn[-len(fn.args.defaults):], fn.args.defaults))
    for a in ("maxfun", "maxiter"):
        if not (isinstance(dflt.get(a), ast.Constant) and dflt[a].value is None):
            raise Unsupported(f"{SRC}:{fn.lineno}: default of {a} is not None")
    tr = Tr(consts)
    ret = [s for s in fn.body if isinstance(s, ast.Return)]
    if len(ret) != 1 or fn.body[-1] is not ret[0] or any(isinstance(n, ast.Return) for s in fn.body[:-1] for n in ast.walk(s)):
        bad(fn, "control flow (one return, at the end)")
    ret = ret[0]
    # the tree: DemeTree(<config>) assigned to a local, run once
    trees = [s for s in fn.body if isinstance(s, ast.Assign) and isinstance(s.value, ast.Call) and dotted(s.value.func) == "DemeTree" and isinstance(s.targets[0], ast.Name)]
    if len(trees) != 1 or len(trees[0].value.args) != 1:
        bad(fn, "the tree (one DemeTree(config))")
    tree_name = trees[0].targets[0].id
    if sum(1 for s in fn.body if isinstance(s, ast.Expr) and ast.unparse(s.value) == f"{tree_name}.run()") != 1:
        bad(fn, "the tree is not run exactly once")
    RP = ("maxfun", "maxiter")
    # which local names hold problems?  the two levels must be handed ONE AND THE SAME object
    inl_names = Inliner(fn, SRC, reassigned_params=RP)
    cfg = inl_names.inline(trees[0].value.args[0], trees[0])
    if not (isinstance(cfg, ast.Call) and dotted(cfg.func) == "TreeConfig" and len(cfg.args) >= 2):
        bad(cfg, "tree configuration (TreeConfig(levels, gsc, sprout, options=...))")
    # look at the levels BEFORE inlining the problem: find the `level_config` list expression with names intact
    lv_assign = [s for s in fn.body if isinstance(s, ast.Assign) and isinstance(s.value, ast.List) and len(s.value.elts) == 2 and all(isinstance(x, ast.Call) for x in s.value.elts)
                 and all(any(k.arg == "problem" for k in x.keywords) for x in s.value.elts)]
    if len(lv_assign) != 1:
        bad(fn, "level configuration (one list of two level configs with problem=...)")
    probs = [{k.arg: k.value for k in x.keywords}["problem"] for x in lv_assign[0].value.elts]
    if not all(isinstance(p, ast.Name) for p in probs) or len({p.id for p in probs}) != 1:
        bad(lv_assign[0], "problems of the two levels (must be one and the same local variable, i.e. one object)")
    shared = probs[0].id
    if ast.unparse(inl_names.inline(lv_assign[0].value, lv_assign[0])) != ast.unparse(cfg.args[0]):
        bad(cfg.args[0], "levels handed to TreeConfig")
    stack, mx = tr.problem(Inliner(fn, SRC, reassigned_params=RP).inline(probs[0], lv_assign[0]))
    gsc_code = tr.gsc(cfg.args[1])
    # the result
    if not (isinstance(ret.value, ast.Call) and dotted(ret.value.func) == "OptimizeResult" and not ret.value.args):
        bad(ret, "last statement (must be return OptimizeResult(x=..., nfev=..., fun=..., nit=...))")
    kw = {k.arg: k.value for k in ret.value.keywords}
    inl_res = Inliner(fn, SRC, keep=(tree_name, shared), reassigned_params=RP)

    def nfev(e):
        if isinstance(e, ast.IfExp):
            return f"(if {tr.test(e.test)} then {nfev(e.body)} else {nfev(e.orelse)})"
        u = ast.unparse(e)
        if u == f"{shared}.n_evaluations":
            return "FromCutoffWrapper"       # the counter of the outermost wrapper of the shared problem (meaningful where a cutoff was installed: proved)
        if u == f"{tree_name}.n_evaluations":
            return "FromTree"
        bad(e, "nfev")
    if "nfev" not in kw:
        bad(ret, "OptimizeResult without nfev")
    nfev_code = nfev(inl_res.inline(kw["nfev"], ret))
    flags = {"x": f"{tree_name}.best_individual.genome", "fun": f"{tree_name}.best_individual.fitness", "nit": f"{tree_name}.metaepoch_count"}
    fl = {k: ("true" if k in kw and ast.unparse(inl_res.inline(kw[k], ret)) == v else "false") for k, v in flags.items()}
    out = ["(* GENERATED from pyhms/hms.py by hv/translate/minimize_py.py — do not edit *)", "From Coq Require Import ZArith List Bool.",
           "From HV Require Import F64 WMonad Problem Minimize.", "Import ListNotations.", "Local Open Scope Z_scope.", "",
           "Definition gen_minimize_plan (maxfun0 maxiter0 : option Z) : plan :=\n"
           f"  {{| pl_stack := {stack}; pl_maximize := {mx}; pl_gsc := {gsc_code}; pl_nfev := {nfev_code}; pl_levels_share_problem := true;\n"
           f"     pl_x_is_tree_best := {fl['x']}; pl_fun_is_tree_best := {fl['fun']}; pl_nit_is_metaepochs := {fl['nit']} |}}.\n"]
    return {"GenMinimize.v": "\n".join(out)}, [f"{SRC}:minimize"]
