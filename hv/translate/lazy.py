"""Inlining of local temporaries at the AST level, for the pattern-directed front ends (popops_py, ops_py): an expression that occurs
in a function is rewritten so that every local name it mentions is replaced by the expression assigned to it on the way to that point
(recursively; a name assigned in both branches of an `if` becomes a conditional expression).  Renaming a local, introducing or removing a
temporary, splitting a line, or reordering statements that do not depend on each other therefore does not change what is translated.

Only straight-line code and `if` statements are looked through; a name assigned inside a loop, by an augmented assignment, by tuple
unpacking or as a subscript / attribute target is left alone (the front end then has to know it or fail)."""
import ast
import copy

from .core import Unsupported


class Inliner:
    def __init__(self, fn, src, keep=()):
        self.fn, self.src, self.keep = fn, src, set(keep) | {a.arg for a in fn.args.args}
        self.where = {}     # id(stmt) -> (block, index, parent stmt or None)
        self._index(fn.body, None)
        self.depth = 0

    def _index(self, block, parent):
        for i, s in enumerate(block):
            self.where[id(s)] = (block, i, parent)
            for fld in ("body", "orelse", "finalbody"):
                sub = getattr(s, fld, None)
                if isinstance(sub, list) and sub and isinstance(sub[0], ast.stmt) and not isinstance(s, (ast.FunctionDef, ast.ClassDef)):
                    self._index(sub, s)

    # ---------------------------------------------------------------- which statement contains an expression
    def stmt_of(self, node):
        for s_id, (block, i, parent) in self.where.items():
            s = block[i]
            if isinstance(s, (ast.If, ast.For, ast.While, ast.With, ast.Try)):
                # only the header expressions belong to the compound statement itself
                heads = [getattr(s, "test", None), getattr(s, "iter", None)]
                if any(h is not None and any(n is node for n in ast.walk(h)) for h in heads):
                    return s
                continue
            if any(n is node for n in ast.walk(s)):
                return s
        raise Unsupported(f"{self.src}: expression not found in {self.fn.name}")

    # ---------------------------------------------------------------- the value of a name
    @staticmethod
    def assigned_value(s, name):
        """the expression assigned to `name` by statement s (plain, annotated, or element-wise tuple assignment), else None"""
        if isinstance(s, ast.AnnAssign):
            return s.value if (s.value is not None and isinstance(s.target, ast.Name) and s.target.id == name) else None
        if isinstance(s, ast.Assign) and len(s.targets) == 1:
            t = s.targets[0]
            if isinstance(t, ast.Name) and t.id == name:
                return s.value
            if isinstance(t, ast.Tuple) and isinstance(s.value, ast.Tuple) and len(t.elts) == len(s.value.elts) and all(isinstance(x, ast.Name) for x in t.elts):
                hits = [v for x, v in zip(t.elts, s.value.elts) if x.id == name]
                if len(hits) == 1:
                    return hits[0]
        return None

    @classmethod
    def assigns(cls, s, name):
        return cls.assigned_value(s, name) is not None

    @staticmethod
    def mentions_store(stmts, name):
        for s in stmts:
            for n in ast.walk(s):
                if isinstance(n, ast.Name) and n.id == name and isinstance(n.ctx, (ast.Store, ast.Del)):
                    return True
                if isinstance(n, ast.NamedExpr) and n.target.id == name:
                    return True
        return False

    def value_at_end(self, stmts, name, fallback):
        """expression (AST) holding the value of `name` after the statement list, or None if it cannot be told"""
        for i in range(len(stmts) - 1, -1, -1):
            s = stmts[i]
            if self.assigns(s, name):
                return self.inline(self.assigned_value(s, name), s)
            if isinstance(s, ast.If) and (self.mentions_store(s.body, name) or self.mentions_store(s.orelse, name)):
                before = lambda: self.value_at_end(stmts[:i], name, fallback)  # noqa: E731
                a, b = self.value_at_end(s.body, name, before), self.value_at_end(s.orelse, name, before)
                if a is None or b is None:
                    return None
                return ast.copy_location(ast.IfExp(test=self.inline(s.test, s), body=a, orelse=b), s)
            if self.mentions_store([s], name):
                return None       # assigned in a loop / by unpacking / augmented: not looked through
        return fallback() if callable(fallback) else fallback

    def value_before(self, stmt, name):
        block, i, parent = self.where[id(stmt)]
        if parent is None:
            outer = None
        elif isinstance(parent, ast.If):
            outer = lambda: self.value_before(parent, name)  # noqa: E731
        else:
            # inside a loop body: assignments earlier in the same iteration; a name the loop never assigns has the value it had before the loop
            if self.mentions_store([parent], name):
                return self.value_at_end(block[:i], name, None)
            return self.value_before(parent, name)
        return self.value_at_end(block[:i], name, outer)

    def inline(self, expr, stmt):
        """a copy of `expr` (which occurs in statement `stmt`) with the locals replaced by what was assigned to them"""
        self.depth += 1
        if self.depth > 60:
            raise Unsupported(f"{self.src}:{getattr(expr, 'lineno', '?')}: circular local definitions in {self.fn.name}")
        me = self

        class T(ast.NodeTransformer):
            def visit_Name(self, n):
                if not isinstance(n.ctx, ast.Load) or n.id in me.keep:
                    return n
                v = me.value_before(stmt, n.id)
                return n if v is None else v

            def visit_Lambda(self, n):
                return n

            def visit_ListComp(self, n):
                # comprehension variables shadow locals: only the outermost iterable is inlined
                n = copy.copy(n)
                n.generators = [copy.copy(g) for g in n.generators]
                n.generators[0].iter = self.visit(n.generators[0].iter)
                return n
            visit_GeneratorExp = visit_SetComp = visit_DictComp = visit_ListComp
        out = T().visit(copy.deepcopy(expr))
        self.depth -= 1
        return ast.fix_missing_locations(out)

    def inline_at(self, expr):
        return self.inline(expr, self.stmt_of(expr))
