"""Inlining of local temporaries at the AST level, for the pattern-directed front ends (popops_py, ops_py): an expression that occurs
in a function is rewritten so that every local name it mentions is replaced by the expression assigned to it on the way to that point
(recursively; a name assigned in both branches of an `if` becomes a conditional expression).  Renaming a local, introducing or removing a
temporary, splitting a line, or reordering statements that do not depend on each other therefore does not change what is translated.

Only straight-line code and `if` statements are looked through; a name assigned inside a loop, by an augmented assignment, by tuple
unpacking or as a subscript / attribute target is left alone (the front end then has to know it or fail)."""
import ast
import copy

from .core import Unsupported


class Inliner:
    def __init__(self, fn, src, keep=(), reassigned_params=()):
        """reassigned_params: parameters whose later re-assignments are to be looked through (their initial value is the parameter itself)"""
        self.initial = set(reassigned_params)
        self.fn, self.src, self.keep = fn, src, (set(keep) | {a.arg for a in fn.args.args}) - self.initial
        self.where = {}     # id(stmt) -> (block, index, parent stmt or None)
        self._index(fn.body, None)
        self.depth = 0

    def _index(self, block, parent):
        for i, s in enumerate(block):
            self.where[id(s)] = (block, i, parent)
            for fld in ("body", "orelse", "finalbody"):
                sub = getattr(s, fld, None)
                if isinstance(sub, list) and sub and isinstance(sub[0], ast.stmt) and not isinstance(s, (ast.FunctionDef, ast.ClassDef)):
                    self._index(sub, s)

    # ---------------------------------------------------------------- which statement contains an expression
    def stmt_of(self, node):
        for s_id, (block, i, parent) in self.where.items():
            s = block[i]
            if isinstance(s, (ast.If, ast.For, ast.While, ast.With, ast.Try)):
                # only the header expressions belong to the compound statement itself
                heads = [getattr(s, "test", None), getattr(s, "iter", None)]
                if any(h is not None and any(n is node for n in ast.walk(h)) for h in heads):
                    return s
                continue
            if any(n is node for n in ast.walk(s)):
                return s
        raise Unsupported(f"{self.src}: expression not found in {self.fn.name}")

    # ---------------------------------------------------------------- the value of a name
    @staticmethod
    def assigned_value(s, name):
        """the expression assigned to `name` by statement s (plain, annotated, or element-wise tuple assignment), else None"""
        if isinstance(s, ast.AnnAssign):
            return s.value if (s.value is not None and isinstance(s.target, ast.Name) and s.target.id == name) else None
        if isinstance(s, ast.Assign) and len(s.targets) == 1:
            t = s.targets[0]
            if isinstance(t, ast.Name) and t.id == name:
                return s.value
            if isinstance(t, ast.Tuple) and isinstance(s.value, ast.Tuple) and len(t.elts) == len(s.value.elts) and all(isinstance(x, ast.Name) for x in t.elts):
                hits = [v for x, v in zip(t.elts, s.value.elts) if x.id == name]
                if len(hits) == 1:
                    return hits[0]
        return None

    @classmethod
    def assigns(cls, s, name):
        return cls.assigned_value(s, name) is not None

    @staticmethod
    def mentions_store(stmts, name):
        for s in stmts:
            for n in ast.walk(s):
                if isinstance(n, ast.Name) and n.id == name and isinstance(n.ctx, (ast.Store, ast.Del)):
                    return True
                if isinstance(n, ast.NamedExpr) and n.target.id == name:
                    return True
        return False

    def value_at_end(self, stmts, name, fallback):
        """expression (AST) holding the value of `name` after the statement list, or None if it cannot be told"""
        for i in range(len(stmts) - 1, -1, -1):
            s = stmts[i]
            if self.assigns(s, name):
                return self.inline(self.assigned_value(s, name), s)
            if isinstance(s, ast.If) and (self.mentions_store(s.body, name) or self.mentions_store(s.orelse, name)):
                before = lambda: self.value_at_end(stmts[:i], name, fallback)  # noqa: E731
                a, b = self.value_at_end(s.body, name, before), self.value_at_end(s.orelse, name, before)
                if a is None or b is None:
                    return None
                return ast.copy_location(ast.IfExp(test=self.inline(s.test, s), body=a, orelse=b), s)
            if self.mentions_store([s], name):
                return None       # assigned in a loop / by unpacking / augmented: not looked through
        return fallback() if callable(fallback) else fallback

    def value_before(self, stmt, name):
        block, i, parent = self.where[id(stmt)]
        if parent is None:
            outer = ast.Name(id=name, ctx=ast.Load()) if name in self.initial else None
        elif isinstance(parent, ast.If):
            outer = lambda: self.value_before(parent, name)  # noqa: E731
        else:
            # inside a loop body: assignments earlier in the same iteration; a name the loop never assigns has the value it had before the loop
            if self.mentions_store([parent], name):
                return self.value_at_end(block[:i], name, None)
            return self.value_before(parent, name)
        return self.value_at_end(block[:i], name, outer)

    def inline(self, expr, stmt):
        """a copy of `expr` (which occurs in statement `stmt`) with the locals replaced by what was assigned to them"""
        self.depth += 1
        if self.depth > 60:
            raise Unsupported(f"{self.src}:{getattr(expr, 'lineno', '?')}: circular local definitions in {self.fn.name}")
        me = self

        class T(ast.NodeTransformer):
            def visit_Name(self, n):
                if not isinstance(n.ctx, ast.Load) or n.id in me.keep:
                    return n
                v = me.value_before(stmt, n.id)
                return n if v is None else v

            def visit_Lambda(self, n):
                return n

            def visit_ListComp(self, n):
                # comprehension variables shadow locals: every other name in the comprehension is inlined
                bound = {x.id for g in n.generators for x in ast.walk(g.target) if isinstance(x, ast.Name)}
                added = bound - me.keep
                me.keep |= added
                try:
                    n = self.generic_visit(n)
                finally:
                    me.keep -= added
                return n
            visit_GeneratorExp = visit_SetComp = visit_DictComp = visit_ListComp
        out = T().visit(copy.deepcopy(expr))
        self.depth -= 1
        return ast.fix_missing_locations(out)

    def inline_at(self, expr):
        return self.inline(expr, self.stmt_of(expr))


# ------------------------------------------------------------------------------------------------ shape normalisation
def _is_continue_guard(s):
    return isinstance(s, ast.If) and not s.orelse and len(s.body) == 1 and isinstance(s.body[0], ast.Continue)


def _sum_loop(init, loop):
    """`X = 0` followed by `for T in IT: X += E`  ->  `X = sum(E for T in IT)`"""
    tgt = init.targets[0] if isinstance(init, ast.Assign) and len(init.targets) == 1 else (init.target if isinstance(init, ast.AnnAssign) else None)
    if not (isinstance(tgt, ast.Name) and isinstance(init.value, ast.Constant) and init.value.value == 0 and type(init.value.value) is int):
        return None
    if not (isinstance(loop, ast.For) and not loop.orelse and len(loop.body) == 1):
        return None
    st = _self_add(loop.body[0])
    mentions = lambda e: any(isinstance(n, ast.Name) and n.id == tgt.id for n in ast.walk(e))  # noqa: E731
    if not (isinstance(st, ast.AugAssign) and isinstance(st.op, ast.Add) and isinstance(st.target, ast.Name) and st.target.id == tgt.id and not mentions(st.value) and not mentions(loop.iter)):
        return None
    gen = ast.GeneratorExp(elt=st.value, generators=[ast.comprehension(target=loop.target, iter=loop.iter, ifs=[], is_async=0)])
    new = ast.Assign(targets=[ast.Name(id=tgt.id, ctx=ast.Store())], value=ast.Call(func=ast.Name(id="sum", ctx=ast.Load()), args=[gen], keywords=[]))
    return ast.fix_missing_locations(ast.copy_location(new, loop))


def _quantifier_loop(loop, nxt):
    """`for T in IT: if C: return False` followed by `return True`  ->  `return all(not C for T in IT)`   (and the dual with any)"""
    if not (isinstance(loop, ast.For) and not loop.orelse and len(loop.body) == 1 and isinstance(nxt, ast.Return) and isinstance(nxt.value, ast.Constant)
            and isinstance(nxt.value.value, bool)):
        return None
    g = loop.body[0]
    if not (isinstance(g, ast.If) and not g.orelse and len(g.body) == 1 and isinstance(g.body[0], ast.Return) and isinstance(g.body[0].value, ast.Constant)
            and isinstance(g.body[0].value.value, bool) and g.body[0].value.value != nxt.value.value):
        return None
    if nxt.value.value:     # falls through to True: all(not C)
        elt = g.test.operand if isinstance(g.test, ast.UnaryOp) and isinstance(g.test.op, ast.Not) else ast.UnaryOp(op=ast.Not(), operand=g.test)
        fn = "all"
    else:
        elt, fn = g.test, "any"
    gen = ast.GeneratorExp(elt=elt, generators=[ast.comprehension(target=loop.target, iter=loop.iter, ifs=[], is_async=0)])
    new = ast.Return(value=ast.Call(func=ast.Name(id=fn, ctx=ast.Load()), args=[gen], keywords=[]))
    return ast.fix_missing_locations(ast.copy_location(new, loop))


def _subst_single_use_temps(stmts):
    """[t1 = e1; ...; S]  ->  [S with t_i replaced by e_i]  when every t_i is a plain name assigned once and read exactly once, later in the list
    (one read: the evaluation happens once, at a point where nothing else of the list has run in between except other such temporaries)"""
    stmts = list(stmts)
    while len(stmts) > 1 and isinstance(stmts[0], (ast.Assign, ast.AnnAssign)):
        s0 = stmts[0]
        t = s0.targets[0] if isinstance(s0, ast.Assign) and len(s0.targets) == 1 else (s0.target if isinstance(s0, ast.AnnAssign) else None)
        if not isinstance(t, ast.Name) or s0.value is None:
            break
        reads = [n for st in stmts[1:] for n in ast.walk(st) if isinstance(n, ast.Name) and n.id == t.id]
        call_free = not any(isinstance(n, (ast.Call, ast.Await, ast.Yield, ast.YieldFrom, ast.NamedExpr, ast.Lambda)) for n in ast.walk(s0.value))
        in_next = all(any(n is r for n in ast.walk(stmts[1])) for r in reads)
        if not reads or not all(isinstance(r.ctx, ast.Load) for r in reads) or not in_next or (len(reads) != 1 and not (call_free and len(stmts) == 2)):
            break       # several reads are fine for a call-free value (attribute / item reads) used by the one remaining statement only

        class R(ast.NodeTransformer):
            def visit_Name(self, n):
                return copy.deepcopy(s0.value) if any(n is r for r in reads) else n
        stmts = [R().visit(stmts[1])] + stmts[2:]
    return stmts


def canon(e):
    """a copy of the expression with comprehension-bound variables renamed canonically by nesting depth and position (so that
    `[i.g for i in xs]` and `[b.g for b in xs]` unparse alike, wherever they occur)"""
    e = copy.deepcopy(e)

    def go(n, ren, depth):
        if isinstance(n, (ast.ListComp, ast.GeneratorExp, ast.SetComp, ast.DictComp)):
            ren = dict(ren)
            k = 0
            for g in n.generators:
                go(g.iter, ren, depth + 1)
                for x in ast.walk(g.target):
                    if isinstance(x, ast.Name):
                        ren[x.id] = f"_c{depth}" if k == 0 else f"_c{depth}_{k}"
                        k += 1
                go(g.target, ren, depth + 1)
                for c in g.ifs:
                    go(c, ren, depth + 1)
            for fld in ("elt", "key", "value"):
                if hasattr(n, fld):
                    go(getattr(n, fld), ren, depth + 1)
            return
        if isinstance(n, ast.Name) and n.id in ren:
            n.id = ren[n.id]
        if isinstance(n, ast.IfExp) and isinstance(n.test, ast.UnaryOp) and isinstance(n.test.op, ast.Not):
            n.test, n.body, n.orelse = n.test.operand, n.orelse, n.body      # `a if not t else b`  =  `b if t else a`
        for c in ast.iter_child_nodes(n):
            go(c, ren, depth)
    go(e, {}, 0)
    return e


def _append_loop(init, loop):
    """`X = []` / `X = {}` (or annotated) followed by a nest `for v in IT: [for w in IT2: ...] [if C:] X.append(E)` / `X.extend(E)` / `X[K] = E`
    ->  the comprehension assigned to X, or None"""
    tgt = init.targets[0] if isinstance(init, ast.Assign) and len(init.targets) == 1 else (init.target if isinstance(init, ast.AnnAssign) else None)
    val = init.value
    is_list = isinstance(val, ast.List) and not val.elts
    is_dict = isinstance(val, ast.Dict) and not val.keys
    is_self_attr = isinstance(tgt, ast.Attribute) and isinstance(tgt.value, ast.Name) and tgt.value.id == "self"
    if not ((isinstance(tgt, ast.Name) or is_self_attr) and (is_list or is_dict)):
        return None
    tsrc = ast.unparse(tgt)
    same = lambda n: isinstance(n, (ast.Name, ast.Attribute)) and ast.unparse(n) == tsrc  # noqa: E731
    mentions = lambda e: any(same(n) for n in ast.walk(e))  # noqa: E731
    gens, st = [], loop
    while isinstance(st, ast.For):
        tnames = [st.target] if isinstance(st.target, ast.Name) else (st.target.elts if isinstance(st.target, ast.Tuple) else [None])
        if len(st.body) > 1:
            st = copy.copy(st)
            st.body = _subst_single_use_temps(st.body)
        if st.orelse or not all(isinstance(x, ast.Name) for x in tnames) or len(st.body) != 1 or mentions(st.iter):
            return None
        gens.append(ast.comprehension(target=st.target, iter=st.iter, ifs=[], is_async=0))
        st = st.body[0]
        if isinstance(st, ast.If) and not st.orelse and len(st.body) > 1:
            st = copy.copy(st)
            st.body = _subst_single_use_temps(st.body)
        if isinstance(st, ast.If) and not st.orelse and len(st.body) == 1 and not isinstance(st.body[0], ast.Continue):
            if mentions(st.test):
                return None
            gens[-1].ifs.append(st.test)
            st = st.body[0]
    if not gens:
        return None
    if is_list:
        if not (isinstance(st, ast.Expr) and isinstance(st.value, ast.Call) and isinstance(st.value.func, ast.Attribute) and same(st.value.func.value)
                and st.value.func.attr in ("append", "extend") and len(st.value.args) == 1 and not st.value.keywords):
            return None
        if mentions(st.value.args[0]):
            return None
        if st.value.func.attr == "append":
            elt = st.value.args[0]
        else:
            en = "_elt_of_" + tsrc.replace(".", "_")
            inner = ast.Name(id=en, ctx=ast.Store())
            gens.append(ast.comprehension(target=inner, iter=st.value.args[0], ifs=[], is_async=0))
            elt = ast.Name(id=en, ctx=ast.Load())
        comp = ast.ListComp(elt=elt, generators=gens)
    else:
        if not (isinstance(st, ast.Assign) and len(st.targets) == 1 and isinstance(st.targets[0], ast.Subscript) and same(st.targets[0].value)
                and not mentions(st.value) and not mentions(st.targets[0].slice)):
            return None
        comp = ast.DictComp(key=st.targets[0].slice, value=st.value, generators=gens)
    new = ast.Assign(targets=[copy.deepcopy(tgt)], value=comp)
    return ast.fix_missing_locations(ast.copy_location(new, loop))


def _dict_view_loop(s):
    """`for v in D.values(): B`  /  `for k, v in D.items(): B`   ->   `for k in D.keys(): B[v := D[k]]`   (v, k not rebound in B; D a plain name)"""
    it = s.iter
    if not (isinstance(s, ast.For) and isinstance(it, ast.Call) and isinstance(it.func, ast.Attribute) and isinstance(it.func.value, ast.Name)
            and it.func.attr in ("values", "items") and not it.args and not it.keywords):
        return s
    d = it.func.value.id
    if it.func.attr == "values" and isinstance(s.target, ast.Name):
        k, v = "_key_of_" + s.target.id, s.target.id
    elif it.func.attr == "items" and isinstance(s.target, ast.Tuple) and len(s.target.elts) == 2 and all(isinstance(x, ast.Name) for x in s.target.elts):
        k, v = s.target.elts[0].id, s.target.elts[1].id
    else:
        return s
    if Inliner.mentions_store(s.body + s.orelse, v) or Inliner.mentions_store(s.body + s.orelse, k) or Inliner.mentions_store(s.body + s.orelse, d):
        return s

    class Sub(ast.NodeTransformer):
        def visit_Name(self, n):
            if n.id == v and isinstance(n.ctx, ast.Load):
                return ast.copy_location(ast.Subscript(value=ast.Name(id=d, ctx=ast.Load()), slice=ast.Name(id=k, ctx=ast.Load()), ctx=ast.Load()), n)
            return n
    new = ast.For(target=ast.Name(id=k, ctx=ast.Store()), iter=ast.Call(func=ast.Attribute(value=ast.Name(id=d, ctx=ast.Load()), attr="keys", ctx=ast.Load()), args=[], keywords=[]),
                  body=[Sub().visit(b) for b in s.body], orelse=s.orelse)
    return ast.fix_missing_locations(ast.copy_location(new, s))


def _self_add(s):
    """`X = X + E`  ->  `X += E`  for a name or attribute X (numbers: the two are the same)"""
    if isinstance(s, ast.Assign) and len(s.targets) == 1 and isinstance(s.targets[0], (ast.Name, ast.Attribute)) and isinstance(s.value, ast.BinOp) \
            and isinstance(s.value.op, ast.Add) and ast.unparse(s.value.left) == ast.unparse(s.targets[0]):
        return ast.fix_missing_locations(ast.copy_location(ast.AugAssign(target=s.targets[0], op=ast.Add(), value=s.value.right), s))
    return s


def _while_true_break(s):
    """`while True: if C: break; rest`  ->  `while not C: rest`   (no other break / continue in rest)"""
    if not (isinstance(s, ast.While) and isinstance(s.test, ast.Constant) and s.test.value is True and not s.orelse and len(s.body) >= 2):
        return s
    g = s.body[0]
    if not (isinstance(g, ast.If) and not g.orelse and len(g.body) == 1 and isinstance(g.body[0], ast.Break)):
        return s

    def jumps(stmts):
        for st in stmts:
            if isinstance(st, (ast.Break, ast.Continue)):
                return True
            if isinstance(st, (ast.For, ast.While, ast.FunctionDef)):
                continue
            for fld in ("body", "orelse", "finalbody"):
                sub = getattr(st, fld, None)
                if isinstance(sub, list) and sub and isinstance(sub[0], ast.stmt) and jumps(sub):
                    return True
        return False
    if jumps(s.body[1:]):
        return s
    neg = g.test.operand if isinstance(g.test, ast.UnaryOp) and isinstance(g.test.op, ast.Not) else ast.UnaryOp(op=ast.Not(), operand=g.test)
    return ast.fix_missing_locations(ast.copy_location(ast.While(test=neg, body=s.body[1:], orelse=[]), s))


def normalise_block(stmts, in_loop=False, dict_views=True, sums=True):
    """behaviour-preserving reshaping of a statement list into the forms the translators know:
       * inside a loop body, `if T: continue` followed by the rest  ->  `if not T: <rest>`
       * `X = X + E` -> `X += E`;  `while True: if C: break; rest` -> `while not C: rest`
       * `X = 0` directly followed by a loop that only does `X += E`  ->  `X = sum(E for ...)`
       * `for T in IT: if C: return False` directly followed by `return True`  ->  `return all(not C for T in IT)`  (dually any)
       * `for v in D.values()` / `for k, v in D.items()`  ->  `for k in D.keys()` with D[k] for v
       * `X = []` / `X = {}` directly followed by a loop nest that only appends to / extends / sets one key of X  ->  `X = <comprehension>`
         (a dict built by distinct keys in loop order is the dict comprehension; a repeated key keeps its first position and last value in both)"""
    out = []
    i = 0
    stmts = list(stmts)
    while i < len(stmts):
        s = stmts[i]
        if in_loop and _is_continue_guard(s) and i + 1 < len(stmts):
            rest = normalise_block(stmts[i + 1:], in_loop, dict_views, sums)
            neg = s.test.operand if isinstance(s.test, ast.UnaryOp) and isinstance(s.test.op, ast.Not) else ast.UnaryOp(op=ast.Not(), operand=s.test)
            new = ast.If(test=neg, body=rest, orelse=[])
            out.append(ast.fix_missing_locations(ast.copy_location(new, s)))
            return out
        if isinstance(s, ast.For) and dict_views:
            s = _dict_view_loop(s)
        s = _self_add(_while_true_break(s))
        for fld in ("body", "orelse"):
            sub = getattr(s, fld, None)
            if isinstance(sub, list) and sub and isinstance(sub[0], ast.stmt) and not isinstance(s, (ast.FunctionDef, ast.ClassDef)):
                setattr(s, fld, normalise_block(sub, in_loop or (fld == "body" and isinstance(s, (ast.For, ast.While))), dict_views, sums))
        if out and isinstance(out[-1], ast.For):
            q = _quantifier_loop(out[-1], s)
            if q is not None:
                out[-1] = q
                i += 1
                continue
        if out and isinstance(out[-1], (ast.Assign, ast.AnnAssign)) and out[-1].value is not None:
            comp = _append_loop(out[-1], s) or (_sum_loop(out[-1], s) if sums else None)
            if comp is not None:
                out[-1] = comp
                i += 1
                continue
        out.append(s)
        i += 1
    return out


def normalise(fn, dict_views=True, sums=True):
    fn.body = normalise_block(fn.body, False, dict_views, sums)
    return fn


def return_paths(fn, src, inl=None):
    """the function as guarded returns: [(conditions, returned expression)], conditions = [(test, polarity)] along the path; straight-line
    code with if / elif / else, assignments to local temporaries (looked through with the Inliner) and returns only"""
    inl = inl or Inliner(fn, src)
    out = []

    def walk(stmts, conds):
        """returns True if every path through stmts ends in a return"""
        for i, s in enumerate(stmts):
            if isinstance(s, ast.Expr) and isinstance(s.value, ast.Constant):
                continue
            if isinstance(s, (ast.Assign, ast.AnnAssign)) and isinstance(s.targets[0] if isinstance(s, ast.Assign) else s.target, ast.Name):
                continue
            if isinstance(s, ast.Return):
                if s.value is None:
                    raise Unsupported(f"{src}:{s.lineno}: {fn.name}: bare return")
                out.append((list(conds), inl.inline(s.value, s)))
                return True
            if isinstance(s, ast.If):
                t = inl.inline(s.test, s)
                pos = True
                while isinstance(t, ast.UnaryOp) and isinstance(t.op, ast.Not):      # `if not T` = the other polarity of T
                    t, pos = t.operand, not pos
                a = walk(s.body, conds + [(t, pos)])
                b = walk(s.orelse, conds + [(t, not pos)]) if s.orelse else False
                if a and b:
                    return True
                if a and not b:
                    if s.orelse:
                        raise Unsupported(f"{src}:{s.lineno}: {fn.name}: an else branch that falls through")
                    return walk(stmts[i + 1:], conds + [(t, not pos)])
                if not a and not b and not s.orelse:
                    raise Unsupported(f"{src}:{s.lineno}: {fn.name}: an if without a return in it")
                raise Unsupported(f"{src}:{s.lineno}: {fn.name}: unsupported branching")
            raise Unsupported(f"{src}:{s.lineno}: {fn.name}: unsupported statement {ast.unparse(s)[:100]}")
        return False
    if not walk(fn.body, []):
        raise Unsupported(f"{src}:{fn.lineno}: {fn.name} can fall off its end")
    return out


def effect_paths(fn, src, inl=None):
    """every path through a function made of if / elif / else, returns, assignments to local temporaries (looked through) and other simple
    statements: [(conditions, the non-temporary statements executed in order, the returned expression or None)]"""
    inl = inl or Inliner(fn, src)
    out = []

    def walk(stmts, conds, done):
        for i, s in enumerate(stmts):
            if isinstance(s, ast.Expr) and isinstance(s.value, ast.Constant):
                continue
            if isinstance(s, (ast.Assign, ast.AnnAssign)) and isinstance(s.targets[0] if isinstance(s, ast.Assign) else s.target, ast.Name):
                continue
            if isinstance(s, ast.Return):
                out.append((list(conds), list(done), inl.inline(s.value, s) if s.value is not None else None))
                return
            if isinstance(s, ast.If):
                t = inl.inline(s.test, s)
                pos = True
                while isinstance(t, ast.UnaryOp) and isinstance(t.op, ast.Not):
                    t, pos = t.operand, not pos
                walk(list(s.body) + stmts[i + 1:], conds + [(t, pos)], done)
                walk(list(s.orelse) + stmts[i + 1:], conds + [(t, not pos)], done)
                return
            if isinstance(s, (ast.For, ast.While, ast.Try, ast.With)):
                raise Unsupported(f"{src}:{s.lineno}: {fn.name}: unsupported statement {ast.unparse(s)[:100]}")
            done = done + [s]
        out.append((list(conds), list(done), None))
    walk(list(fn.body), [], [])
    return out
