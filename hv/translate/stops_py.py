"""pyhms/stop_conditions/{gsc,usc,lsc}.py (+ DemeTree.all_demes / n_evaluations) -> Gen/GenStops.v : the shipped stop conditions as
read-only programs of the event monad D (Model/DriverPrim.v) returning their verdict; Proofs/GenEquivStops.v proves each equal to the
verdict the HMS machine computes for the corresponding configuration (gsc_eval / lsc_eval of Model/Tree.v).

Same compiler as driver_py (statements in continuation-passing style), in "function returning a value" mode: `return e` yields Some e,
`for` loops are forv_ (a return inside) or forl_ (an accumulator carried through).  Conditions whose verdict depends on floats
(FitnessSteadiness, SingularProblemPrecisionReached) stay oracles of the machine and are not translated."""
import ast

from .core import Unsupported, find_def
from .driver_py import COQTY, MTr, V, dotted, opaque, prop_listcomp, returned_value
from .lazy import normalise

OUTPUTS = ["GenStops.v"]
COQTY.update({"deme_list": "(list nat)"})
GSC, USC, LSC, TREE = "pyhms/stop_conditions/gsc.py", "pyhms/stop_conditions/usc.py", "pyhms/stop_conditions/lsc.py", "pyhms/tree.py"
DEME_FIELDS = {"is_active": ("d_active", "bool"), "_active": ("d_active", "bool"), "level": ("d_lvl", "nat"), "_level": ("d_lvl", "nat"),
               "n_evaluations": ("d_evals", "nat"), "started_at": ("d_started", "nat"), "_started_at": ("d_started", "nat"),
               "metaepoch_count": ("d_meta", "nat"), "_hibernating": ("d_hib", "bool")}


class STr(MTr):
    """ctx 'stop': the receiver object is `tree` (a DemeTree) or `deme` (an AbstractDeme, index d) or `obj` (either: universal conditions)"""

    def __init__(self, src, cls, fname, obj_is, params):
        super().__init__(src, "stop", cls, fname)
        self.obj_is, self.sparams = obj_is, params   # params: attribute of self -> (coq name, type)

    def params(self, env, exclude=(), text=None):
        decl, use = super().params(env, exclude, text)
        extra = "".join(f"({n} : {COQTY[t]}) " for n, t in self.sparams.values()) + ("(d : nat) " if self.obj_is == "deme" else "")
        extra_use = "".join(f"{n} " for n, _ in self.sparams.values()) + ("d " if self.obj_is == "deme" else "")
        return decl.replace("(c : cfg) (fuel : nat) ", "(c : cfg) (fuel : nat) " + extra), use.replace("c fuel ", "c fuel " + extra_use, 1)

    # ---------------------------------------------------------------- expressions
    def attribute(self, e, env, pre):
        d = dotted(e)
        if d is not None and d.startswith("self.") and d[5:] in self.sparams:
            n, t = self.sparams[d[5:]]
            return V(n, t)
        if isinstance(e.value, ast.Name) and isinstance(env.get(e.value.id), V) and env[e.value.id].ty == "treeobj":
            a = e.attr
            if a == "metaepoch_count":
                return V(f"(mcount {self.read(pre)})", "nat")
            if a == "height":
                return V("(height c)", "nat")
            if a == "active_demes":
                return V(f"(gen_active_demes c (demes {self.read(pre)}))", "ld_list")
            if a == "all_demes":
                return V(f"(gen_all_demes c (demes {self.read(pre)}))", "ld_list")
            if a == "n_evaluations":
                return V(f"(gen_n_evaluations c (demes {self.read(pre)}))", "nat")
            if a == "root":
                return V("0", "deme")
            self.bad(e, "tree attribute")
        if d is not None and d.endswith(".config.levels") and isinstance(env.get(d.split(".")[0]), V) and env[d.split(".")[0]].ty == "treeobj":
            return V("(seq 0 (height c))", "nat_list")   # only its length is used
        base = self._expr(e.value, env, pre)
        if base.ty == "deme":
            if e.attr == "children":
                return V(f"(child_ids (demes {self.read(pre)}) {base.code})", "deme_list")
            fld = DEME_FIELDS.get(e.attr)
            if fld:
                return V(f"({fld[0]} (dnth {base.code} (demes {self.read(pre)})))", fld[1])
        self.bad(e, f"attribute .{e.attr} of {base.ty}")

    def subscript(self, e, env, pre):
        d = dotted(e.value)
        if d is not None and d.endswith(".levels") and isinstance(env.get(d.split(".")[0]), V) and env[d.split(".")[0]].ty == "treeobj":
            i = self._expr(e.slice, env, pre)
            if i.ty != "nat":
                self.bad(e, "level index")
            return V(f"(level_ids (demes {self.read(pre)}) {i.code})", "deme_list")
        if d == "self.weights" and "weights" in self.sparams:
            i = self._expr(e.slice, env, pre)
            if i.ty != "nat":
                self.bad(e, "weight index")
            return V(f"(nth {i.code} {self.sparams['weights'][0]} 0)", "nat")
        if isinstance(e.value, ast.Name) and isinstance(env.get(e.value.id), V) and env[e.value.id].ty == "natlist":
            i = self._expr(e.slice, env, pre)            # a local holding the list of weights
            if i.ty != "nat":
                self.bad(e, "weight index")
            return V(f"(nth {i.code} {env[e.value.id].code} 0)", "nat")
        self.bad(e, "subscript")

    def call(self, e, env, pre):
        d = dotted(e.func)
        if d == "all" and len(e.args) == 1 and isinstance(e.args[0], ast.GeneratorExp) and len(e.args[0].generators) == 1 and not e.args[0].generators[0].ifs:
            g = e.args[0].generators[0]
            it = self._expr(g.iter, env, pre)
            if it.ty in ("nat_list", "ld_list", "deme_list") and isinstance(g.target, ast.Name):
                x = "v_" + g.target.id
                env2 = dict(env)
                env2[g.target.id] = V(x, "deme")
                p2 = []
                body = self._expr(e.args[0].elt, env2, p2)
                # reads inside the generator body use one state variable bound outside (the loop has no effects)
                if body.ty != "bool":
                    self.bad(e, "all() over non-booleans")
                if p2:
                    if not all(ln.endswith("<- get_st ;;") for ln in p2):
                        self.bad(e, "effects inside all()")
                    s0 = self.read(pre)
                    code = body.code
                    for ln in p2:
                        code = code.replace(ln.split(" ")[0], s0)
                    body = V(code, "bool")
                return V(f"(forallb (fun {x} => {body.code}) {it.code})", "bool")
        if d in ("len", "list", "range", "reversed"):
            return super().call(e, env, pre)
        self.bad(e, "call")

    def _expr(self, e, env, pre):
        if isinstance(e, ast.BinOp) and isinstance(e.op, ast.Mult):
            a, b = self._expr(e.left, env, pre), self._expr(e.right, env, pre)
            if a.ty == b.ty == "nat":
                return V(f"({a.code} * {b.code})", "nat")
            self.bad(e, "multiplication")
        if isinstance(e, ast.UnaryOp) and isinstance(e.op, ast.Not):
            v = self._expr(e.operand, env, pre)
            if v.ty in ("nat_list", "deme_list"):   # `not deme.children`
                return V(f"(Nat.eqb (length {v.code}) 0)", "bool")
        if isinstance(e, ast.Name) and e.id == "_" and e.id not in env:
            self.bad(e, "use of the ignored argument")
        return super()._expr(e, env, pre)

    # ---------------------------------------------------------------- statements
    def block(self, stmts, env, k, ret):
        if not stmts:
            return k(env)
        s, rest = stmts[0], stmts[1:]
        if isinstance(s, ast.Return):
            if s.value is None:
                self.bad(s, "return without a value")
            env = dict(env)
            pre, v = self.expr(s.value, env)
            if v.ty != "bool":
                self.bad(s, f"return of type {v.ty}")
            return " ".join(pre) + f" ret (Some {v.code})"
        if isinstance(s, ast.If) and not s.orelse and len(s.body) == 1 and isinstance(s.body[0], ast.Expr) and isinstance(s.body[0].value, ast.Call) \
                and dotted(s.body[0].value.func) == "self._transform_weights" \
                and all(dotted(n) in ("self.weights", "self") for n in ast.walk(s.test) if isinstance(n, ast.Attribute)) \
                and all(n.id in ("self", "str", "isinstance", "WeightingStrategy") for n in ast.walk(s.test) if isinstance(n, ast.Name)) \
                and all(dotted(n.func) == "isinstance" for n in ast.walk(s.test) if isinstance(n, ast.Call)):
            # `if self.weights is None or isinstance(self.weights, str): self._transform_weights(n_levels)`: normalisation of the configured
            # weights (a strategy name becomes a list, once); afterwards self.weights is the list `ws` the machine configuration carries
            a = s.body[0].value.args
            if len(a) == 1:
                env2 = dict(env)
                pre_a, va = self.expr(a[0], env2)
                if va.ty == "nat" and not pre_a:
                    return self.block(rest, env, k, ret)
            self.bad(s, "_transform_weights argument")
        if isinstance(s, ast.For):
            if s.orelse or self.has(s.body, ast.Break) or self.has(s.body, ast.Continue):
                self.bad(s, "for with else/break/continue")
            env = dict(env)
            pre, it = self.expr(s.iter, env)
            inner = dict(env)
            x = self.fresh("it")
            if it.ty == "ld_list" and isinstance(s.target, ast.Tuple) and len(s.target.elts) == 2 and all(isinstance(n, ast.Name) for n in s.target.elts) \
                    and not any(isinstance(n, ast.Name) and n.id == s.target.elts[0].id for st in s.body for n in ast.walk(st)):   # the level component is not used
                inner[s.target.elts[1].id] = V(x, "deme")
            elif it.ty in ("nat_list", "deme_list") and isinstance(s.target, ast.Name):
                inner[s.target.id] = V(x, "deme" if it.ty == "deme_list" else "nat")
            else:
                self.bad(s, f"for over {it.ty}")
            carried = self.assigned_tracked(s.body, env)
            self.nloops = getattr(self, "nloops", 0) + 1
            k_id = self.nloops
            go = lambda env2: self.block(rest, env2, k, ret)  # noqa: E731
            if carried:
                if len(carried) != 1 or self.has(s.body, ast.Return):
                    self.bad(s, "accumulating loop with a return or several accumulators")
                nm = carried[0]
                inner[nm] = V("v_" + nm, env[nm].ty)
                body = super().block(s.body, inner, lambda e2: f"ret {e2[nm].code}", lambda e2: self.bad(s, "return"))
                decl, use = self.params(env, exclude={"v_" + nm}, text=body)
                self.aux.append(f"Definition {self.fname}_forl{k_id} {decl}(v_{nm} : {COQTY[env[nm].ty]}) ({x} : nat) : D {COQTY[env[nm].ty]} :=\n  {body}.\n")
                after = dict(env)
                after[nm] = V("v_" + nm, env[nm].ty)
                return " ".join(pre) + f" v_{nm} <- forl_ {it.code} ({self.fname}_forl{k_id} {use}) {env[nm].code} ;;\n  " + go(after)
            body = self.block(s.body, inner, lambda e2: "ret None", ret)
            decl, use = self.params(env, text=body)
            self.aux.append(f"Definition {self.fname}_forv{k_id} {decl}({x} : nat) : D (option bool) :=\n  {body}.\n")
            r = self.fresh("r")
            return " ".join(pre) + f" {r} <- forv_ {it.code} ({self.fname}_forv{k_id} {use}) ;;\n  (match {r} with Some v_ => ret (Some v_) | None => {go(env)} end)"
        return super().block(stmts, env, k, ret)


def stop_method(mod, src, cls, params, obj_is, fname):
    fn = normalise(find_def(mod, "__call__", cls), sums=False)
    argn = [a.arg for a in fn.args.args]
    if len(argn) != 2 or argn[0] != "self":
        raise Unsupported(f"{src}:{fn.lineno}: {cls}.__call__ signature changed: {argn}")
    tr = STr(src, cls, fname, obj_is, params)
    env = {}
    if argn[1] != "_":
        env[argn[1]] = V("tree", "treeobj", deps=set()) if obj_is == "tree" else V("d", "deme", deps=set())
    body = tr.block(fn.body, env, lambda e2: "ret None", None)
    decl = "(c : cfg) (fuel : nat) " + "".join(f"({n} : {COQTY[t]}) " for n, t in params.values()) + ("(d : nat) " if obj_is == "deme" else "")
    return "".join(a + "\n" for a in tr.aux) + f"Definition {fname} {decl}: D bool :=\n  returned ({body}).\n"


def translate(repo):
    out = ["(* GENERATED from pyhms/stop_conditions/*.py and pyhms/tree.py by hv/translate/stops_py.py — do not edit *)",
           "From Coq Require Import List Bool Arith ZArith.", "From HV Require Import Ord Sprout Tree DriverPrim GenDriver.", "Import ListNotations.", ""]
    fns = []
    tmod = ast.parse(open(f"{repo}/{TREE}").read())
    out.append(prop_listcomp(tmod, "DemeTree", "all_demes", TREE))
    # n_evaluations: sum(deme.n_evaluations for _, deme in self.all_demes)
    fn, rv = returned_value(tmod, "DemeTree", "n_evaluations", TREE)
    ok = (isinstance(rv, ast.Call) and dotted(rv.func) == "sum" and len(rv.args) == 1 and not rv.keywords and isinstance(rv.args[0], ast.GeneratorExp))
    if ok:
        g = rv.args[0]
        gen = g.generators[0]
        ok = (len(g.generators) == 1 and not gen.ifs and dotted(gen.iter) == "self.all_demes" and isinstance(gen.target, ast.Tuple) and len(gen.target.elts) == 2
              and isinstance(gen.target.elts[1], ast.Name) and dotted(g.elt) == gen.target.elts[1].id + ".n_evaluations")
    if not ok:
        raise Unsupported(f"{TREE}:{fn.lineno}: DemeTree.n_evaluations is not sum(deme.n_evaluations for _, deme in self.all_demes)")
    out.append("Definition gen_n_evaluations (c : cfg) (ds : list deme) : nat :=\n  fold_left (fun a v_deme => a + d_evals (dnth v_deme ds)) (gen_all_demes c ds) 0.\n")
    fns += [f"{TREE}:DemeTree.all_demes", f"{TREE}:DemeTree.n_evaluations"]
    gmod, umod, lmod = (ast.parse(open(f"{repo}/{p}").read()) for p in (GSC, USC, LSC))
    L, N, W = {"limit": ("p_limit", "nat")}, {"n_metaepochs": ("p_n", "nat")}, {"limit": ("p_limit", "nat"), "weights": ("p_ws", "natlist")}
    COQTY["natlist"] = "(list nat)"
    for mod, src, cls, params, obj in [(gmod, GSC, "RootStopped", {}, "tree"), (gmod, GSC, "AllStopped", {}, "tree"),
                                       (gmod, GSC, "SingularProblemEvalLimitReached", L, "tree"), (gmod, GSC, "FitnessEvalLimitReached", W, "tree"),
                                       (gmod, GSC, "NoActiveNonrootDemes", N, "tree"),
                                       (umod, USC, "MetaepochLimit", L, "tree"), (umod, USC, "MetaepochLimit", L, "deme"),
                                       (umod, USC, "DontStop", {}, "tree"), (umod, USC, "DontRun", {}, "tree"),
                                       (umod, USC, "DontStop", {}, "deme"), (umod, USC, "DontRun", {}, "deme"),
                                       (lmod, LSC, "AllChildrenStopped", {}, "deme")]:
        name = f"gen_{cls}_{obj}" if src == USC else f"gen_{cls}"
        out.append(stop_method(mod, src, cls, params, obj, name))
        fns.append(f"{src}:{cls}.__call__[{obj}]")
    # FitnessEvalLimitReached._transform_weights: strategy -> list of weights
    return {"GenStops.v": "\n".join(out)}, fns
