"""pyhms/stop_conditions/{gsc,usc,lsc}.py (+ DemeTree.all_demes / n_evaluations) -> Gen/GenStops.v : the shipped stop conditions as
read-only programs of the event monad D (Model/DriverPrim.v) returning their verdict; Proofs/GenEquivStops.v proves each equal to the
verdict the HMS machine computes for the corresponding configuration (gsc_eval / lsc_eval of Model/Tree.v).

Same compiler as driver_py (statements in continuation-passing style), in "function returning a value" mode: `return e` yields Some e,
`for` loops are forv_ (a return inside) or forl_ (an accumulator carried through).  Conditions whose verdict depends on floats
(FitnessSteadiness, SingularProblemPrecisionReached) stay oracles of the machine and are not translated."""
import ast

from .core import Unsupported, find_def
from .driver_py import COQTY, MTr, V, dotted, opaque, prop_listcomp, returned_value
from .lazy import normalise

OUTPUTS = ["GenStops.v", "GenStopsPrecision.v"]
COQTY.update({"deme_list": "(list nat)"})
GSC, USC, LSC, TREE = "pyhms/stop_conditions/gsc.py", "pyhms/stop_conditions/usc.py", "pyhms/stop_conditions/lsc.py", "pyhms/tree.py"
DEME_FIELDS = {"is_active": ("d_active", "bool"), "_active": ("d_active", "bool"), "level": ("d_lvl", "nat"), "_level": ("d_lvl", "nat"),
               "n_evaluations": ("d_evals", "nat"), "started_at": ("d_started", "nat"), "_started_at": ("d_started", "nat"),
               "metaepoch_count": ("d_meta", "nat"), "_hibernating": ("d_hib", "bool")}


class STr(MTr):
    """ctx 'stop': the receiver object is `tree` (a DemeTree) or `deme` (an AbstractDeme, index d) or `obj` (either: universal conditions)"""

    def __init__(self, src, cls, fname, obj_is, params):
        super().__init__(src, "stop", cls, fname)
        self.obj_is, self.sparams = obj_is, params   # params: attribute of self -> (coq name, type)

    def params(self, env, exclude=(), text=None):
        decl, use = super().params(env, exclude, text)
        extra = "".join(f"({n} : {COQTY[t]}) " for n, t in self.sparams.values()) + ("(d : nat) " if self.obj_is == "deme" else "")
        extra_use = "".join(f"{n} " for n, _ in self.sparams.values()) + ("d " if self.obj_is == "deme" else "")
        return decl.replace("(c : cfg) (fuel : nat) ", "(c : cfg) (fuel : nat) " + extra), use.replace("c fuel ", "c fuel " + extra_use, 1)

    # ---------------------------------------------------------------- expressions
    def attribute(self, e, env, pre):
        d = dotted(e)
        if d is not None and d.startswith("self.") and d[5:] in self.sparams:
            n, t = self.sparams[d[5:]]
            return V(n, t)
        if isinstance(e.value, ast.Name) and isinstance(env.get(e.value.id), V) and env[e.value.id].ty == "treeobj":
            a = e.attr
            if a == "metaepoch_count":
                return V(f"(mcount {self.read(pre)})", "nat")
            if a == "height":
                return V("(height c)", "nat")
            if a == "active_demes":
                return V(f"(gen_active_demes c (demes {self.read(pre)}))", "ld_list")
            if a == "all_demes":
                return V(f"(gen_all_demes c (demes {self.read(pre)}))", "ld_list")
            if a == "n_evaluations":
                return V(f"(gen_n_evaluations c (demes {self.read(pre)}))", "nat")
            if a == "root":
                return V("0", "deme")
            self.bad(e, "tree attribute")
        if d is not None and d.endswith(".config.levels") and isinstance(env.get(d.split(".")[0]), V) and env[d.split(".")[0]].ty == "treeobj":
            return V("(seq 0 (height c))", "nat_list")   # only its length is used
        base = self._expr(e.value, env, pre)
        if base.ty == "deme":
            if e.attr == "children":
                return V(f"(child_ids (demes {self.read(pre)}) {base.code})", "deme_list")
            fld = DEME_FIELDS.get(e.attr)
            if fld:
                return V(f"({fld[0]} (dnth {base.code} (demes {self.read(pre)})))", fld[1])
        self.bad(e, f"attribute .{e.attr} of {base.ty}")

    def subscript(self, e, env, pre):
        d = dotted(e.value)
        if d is not None and d.endswith(".levels") and isinstance(env.get(d.split(".")[0]), V) and env[d.split(".")[0]].ty == "treeobj":
            i = self._expr(e.slice, env, pre)
            if i.ty != "nat":
                self.bad(e, "level index")
            return V(f"(level_ids (demes {self.read(pre)}) {i.code})", "deme_list")
        if d == "self.weights" and "weights" in self.sparams:
            i = self._expr(e.slice, env, pre)
            if i.ty != "nat":
                self.bad(e, "weight index")
            return V(f"(nth {i.code} {self.sparams['weights'][0]} 0)", "nat")
        if isinstance(e.value, ast.Name) and isinstance(env.get(e.value.id), V) and env[e.value.id].ty == "natlist":
            i = self._expr(e.slice, env, pre)            # a local holding the list of weights
            if i.ty != "nat":
                self.bad(e, "weight index")
            return V(f"(nth {i.code} {env[e.value.id].code} 0)", "nat")
        self.bad(e, "subscript")

    def call(self, e, env, pre):
        d = dotted(e.func)
        if d == "all" and len(e.args) == 1 and isinstance(e.args[0], ast.GeneratorExp) and len(e.args[0].generators) == 1 and not e.args[0].generators[0].ifs:
            g = e.args[0].generators[0]
            it = self._expr(g.iter, env, pre)
            if it.ty in ("nat_list", "ld_list", "deme_list") and isinstance(g.target, ast.Name):
                x = "v_" + g.target.id
                env2 = dict(env)
                env2[g.target.id] = V(x, "deme")
                p2 = []
                body = self._expr(e.args[0].elt, env2, p2)
                # reads inside the generator body use one state variable bound outside (the loop has no effects)
                if body.ty != "bool":
                    self.bad(e, "all() over non-booleans")
                if p2:
                    if not all(ln.endswith("<- get_st ;;") for ln in p2):
                        self.bad(e, "effects inside all()")
                    s0 = self.read(pre)
                    code = body.code
                    for ln in p2:
                        code = code.replace(ln.split(" ")[0], s0)
                    body = V(code, "bool")
                return V(f"(forallb (fun {x} => {body.code}) {it.code})", "bool")
        if d in ("len", "list", "range", "reversed"):
            return super().call(e, env, pre)
        self.bad(e, "call")

    def _expr(self, e, env, pre):
        if isinstance(e, ast.BinOp) and isinstance(e.op, ast.Mult):
            a, b = self._expr(e.left, env, pre), self._expr(e.right, env, pre)
            if a.ty == b.ty == "nat":
                return V(f"({a.code} * {b.code})", "nat")
            self.bad(e, "multiplication")
        if isinstance(e, ast.UnaryOp) and isinstance(e.op, ast.Not):
            v = self._expr(e.operand, env, pre)
            if v.ty in ("nat_list", "deme_list"):   # `not deme.children`
                return V(f"(Nat.eqb (length {v.code}) 0)", "bool")
        if isinstance(e, ast.Name) and e.id == "_" and e.id not in env:
            self.bad(e, "use of the ignored argument")
        return super()._expr(e, env, pre)

    # ---------------------------------------------------------------- statements
    def block(self, stmts, env, k, ret):
        if not stmts:
            return k(env)
        s, rest = stmts[0], stmts[1:]
        if isinstance(s, ast.Return):
            if s.value is None:
                self.bad(s, "return without a value")
            env = dict(env)
            pre, v = self.expr(s.value, env)
            if v.ty != "bool":
                self.bad(s, f"return of type {v.ty}")
            return " ".join(pre) + f" ret (Some {v.code})"
        if isinstance(s, ast.If) and not s.orelse and len(s.body) == 1 and isinstance(s.body[0], ast.Expr) and isinstance(s.body[0].value, ast.Call) \
                and dotted(s.body[0].value.func) == "self._transform_weights":   # the test itself is translated by transform_weights() below
            # `if self.weights is None or isinstance(self.weights, str): self._transform_weights(n_levels)`: normalisation of the configured
            # weights (a strategy name becomes a list, once); afterwards self.weights is the list `ws` the machine configuration carries
            a = s.body[0].value.args
            if len(a) == 1:
                env2 = dict(env)
                pre_a, va = self.expr(a[0], env2)
                if va.ty == "nat" and not pre_a:
                    return self.block(rest, env, k, ret)
            self.bad(s, "_transform_weights argument")
        if isinstance(s, ast.For):
            if s.orelse or self.has(s.body, ast.Break) or self.has(s.body, ast.Continue):
                self.bad(s, "for with else/break/continue")
            env = dict(env)
            pre, it = self.expr(s.iter, env)
            inner = dict(env)
            x = self.fresh("it")
            if it.ty == "ld_list" and isinstance(s.target, ast.Tuple) and len(s.target.elts) == 2 and all(isinstance(n, ast.Name) for n in s.target.elts) \
                    and not any(isinstance(n, ast.Name) and n.id == s.target.elts[0].id for st in s.body for n in ast.walk(st)):   # the level component is not used
                inner[s.target.elts[1].id] = V(x, "deme")
            elif it.ty in ("nat_list", "deme_list") and isinstance(s.target, ast.Name):
                inner[s.target.id] = V(x, "deme" if it.ty == "deme_list" else "nat")
            else:
                self.bad(s, f"for over {it.ty}")
            carried = self.assigned_tracked(s.body, env)
            self.nloops = getattr(self, "nloops", 0) + 1
            k_id = self.nloops
            go = lambda env2: self.block(rest, env2, k, ret)  # noqa: E731
            if carried:
                if len(carried) != 1 or self.has(s.body, ast.Return):
                    self.bad(s, "accumulating loop with a return or several accumulators")
                nm = carried[0]
                inner[nm] = V("v_" + nm, env[nm].ty)
                body = super().block(s.body, inner, lambda e2: f"ret {e2[nm].code}", lambda e2: self.bad(s, "return"))
                decl, use = self.params(env, exclude={"v_" + nm}, text=body)
                self.aux.append(f"Definition {self.fname}_forl{k_id} {decl}(v_{nm} : {COQTY[env[nm].ty]}) ({x} : nat) : D {COQTY[env[nm].ty]} :=\n  {body}.\n")
                after = dict(env)
                after[nm] = V("v_" + nm, env[nm].ty)
                return " ".join(pre) + f" v_{nm} <- forl_ {it.code} ({self.fname}_forl{k_id} {use}) {env[nm].code} ;;\n  " + go(after)
            body = self.block(s.body, inner, lambda e2: "ret None", ret)
            decl, use = self.params(env, text=body)
            self.aux.append(f"Definition {self.fname}_forv{k_id} {decl}({x} : nat) : D (option bool) :=\n  {body}.\n")
            r = self.fresh("r")
            return " ".join(pre) + f" {r} <- forv_ {it.code} ({self.fname}_forv{k_id} {use}) ;;\n  (match {r} with Some v_ => ret (Some v_) | None => {go(env)} end)"
        return super().block(stmts, env, k, ret)


def stop_method(mod, src, cls, params, obj_is, fname, fn=None):
    fn = normalise(fn if fn is not None else find_def(mod, "__call__", cls), sums=False)
    argn = [a.arg for a in fn.args.args]
    if len(argn) != 2 or argn[0] != "self":
        raise Unsupported(f"{src}:{fn.lineno}: {cls}.__call__ signature changed: {argn}")
    tr = STr(src, cls, fname, obj_is, params)
    env = {}
    if argn[1] != "_":
        env[argn[1]] = V("tree", "treeobj", deps=set()) if obj_is == "tree" else V("d", "deme", deps=set())
    body = tr.block(fn.body, env, lambda e2: "ret None", None)
    decl = "(c : cfg) (fuel : nat) " + "".join(f"({n} : {COQTY[t]}) " for n, t in params.values()) + ("(d : nat) " if obj_is == "deme" else "")
    return "".join(a + "\n" for a in tr.aux) + f"Definition {fname} {decl}: D bool :=\n  returned ({body}).\n"


def translate(repo):
    out = ["(* GENERATED from pyhms/stop_conditions/*.py and pyhms/tree.py by hv/translate/stops_py.py — do not edit *)",
           "From Coq Require Import List Bool Arith ZArith.", "From HV Require Import Ord Sprout Tree DriverPrim GenDriver.", "Import ListNotations.", ""]
    fns = []
    tmod = ast.parse(open(f"{repo}/{TREE}").read())
    out.append(prop_listcomp(tmod, "DemeTree", "all_demes", TREE))
    # n_evaluations: sum(deme.n_evaluations for _, deme in self.all_demes)
    fn, rv = returned_value(tmod, "DemeTree", "n_evaluations", TREE)
    ok = (isinstance(rv, ast.Call) and dotted(rv.func) == "sum" and len(rv.args) == 1 and not rv.keywords and isinstance(rv.args[0], ast.GeneratorExp))
    if ok:
        g = rv.args[0]
        gen = g.generators[0]
        ok = (len(g.generators) == 1 and not gen.ifs and dotted(gen.iter) == "self.all_demes" and isinstance(gen.target, ast.Tuple) and len(gen.target.elts) == 2
              and isinstance(gen.target.elts[1], ast.Name) and dotted(g.elt) == gen.target.elts[1].id + ".n_evaluations")
    if not ok:
        raise Unsupported(f"{TREE}:{fn.lineno}: DemeTree.n_evaluations is not sum(deme.n_evaluations for _, deme in self.all_demes)")
    out.append("Definition gen_n_evaluations (c : cfg) (ds : list deme) : nat :=\n  fold_left (fun a v_deme => a + d_evals (dnth v_deme ds)) (gen_all_demes c ds) 0.\n")
    fns += [f"{TREE}:DemeTree.all_demes", f"{TREE}:DemeTree.n_evaluations"]
    gmod, umod, lmod = (ast.parse(open(f"{repo}/{p}").read()) for p in (GSC, USC, LSC))
    L, N, W = {"limit": ("p_limit", "nat")}, {"n_metaepochs": ("p_n", "nat")}, {"limit": ("p_limit", "nat"), "weights": ("p_ws", "natlist")}
    COQTY["natlist"] = "(list nat)"
    for mod, src, cls, params, obj in [(gmod, GSC, "RootStopped", {}, "tree"), (gmod, GSC, "AllStopped", {}, "tree"),
                                       (gmod, GSC, "SingularProblemEvalLimitReached", L, "tree"), (gmod, GSC, "FitnessEvalLimitReached", W, "tree"),
                                       (gmod, GSC, "NoActiveNonrootDemes", N, "tree"),
                                       (umod, USC, "MetaepochLimit", L, "tree"), (umod, USC, "MetaepochLimit", L, "deme"),
                                       (umod, USC, "DontStop", {}, "tree"), (umod, USC, "DontRun", {}, "tree"),
                                       (umod, USC, "DontStop", {}, "deme"), (umod, USC, "DontRun", {}, "deme"),
                                       (lmod, LSC, "AllChildrenStopped", {}, "deme")]:
        name = f"gen_{cls}_{obj}" if src == USC else f"gen_{cls}"
        out.append(stop_method(mod, src, cls, params, obj, name))
        fns.append(f"{src}:{cls}.__call__[{obj}]")
    out.append(transform_weights(gmod))
    fns += [f"{GSC}:FitnessEvalLimitReached._transform_weights", f"{GSC}:FitnessEvalLimitReached.__call__[weights guard]"]
    out.append(steadiness_early(lmod))
    fns.append(f"{LSC}:FitnessSteadiness.__call__[early return; window]")
    fns.append(f"{GSC}:SingularProblemPrecisionReached.__call__")
    return {"GenStops.v": "\n".join(out), "GenStopsPrecision.v": precision_reached(gmod)}, fns


# ---------------------------------------------------------------- FitnessSteadiness: the part that is not float arithmetic
def steadiness_early(lmod):
    """FitnessSteadiness.__call__ = [statements that may return early on counters] + [a side-effect-free float computation over the last
    n_metaepochs entries of the deme's history, returned].  The first part is translated (True = no early return: the verdict is the float
    computation's, an oracle of the machine); the second is checked for shape only: no assignment to attributes or subscripts, one return at
    the end, and the history is read at the entries range(-self.n_metaepochs, 0) (or the slice [-self.n_metaepochs:]) and nowhere else."""
    cls = "FitnessSteadiness"
    fn = find_def(lmod, "__call__", cls)
    argn = [a.arg for a in fn.args.args]
    if len(argn) != 2 or argn[0] != "self":
        raise Unsupported(f"{LSC}:{fn.lineno}: {cls}.__call__ signature changed: {argn}")
    dn = argn[1]

    def floaty(st):
        return any((isinstance(n, ast.Attribute) and n.attr in ("_history", "history", "fitness")) or (isinstance(n, ast.Name) and n.id in ("np", "numpy", "math", "statistics")) for n in ast.walk(st))
    body = [st for st in fn.body if not (isinstance(st, ast.Expr) and isinstance(st.value, ast.Constant))]
    k = next((i for i, st in enumerate(body) if floaty(st)), len(body))
    prefix, rest = body[:k], body[k:]
    if not rest or not isinstance(rest[-1], ast.Return) or rest[-1].value is None:
        raise Unsupported(f"{LSC}:{fn.lineno}: {cls}.__call__ does not end in the return of its float computation")
    for st in rest:
        for n in ast.walk(st):
            if isinstance(n, ast.Return) and n is not rest[-1]:
                raise Unsupported(f"{LSC}:{n.lineno}: {cls}.__call__: a return inside the float computation")
            if isinstance(n, (ast.Assign, ast.AugAssign, ast.AnnAssign)):
                for t in (n.targets if isinstance(n, ast.Assign) else [n.target]):
                    if not isinstance(t, ast.Name):
                        raise Unsupported(f"{LSC}:{n.lineno}: {cls}.__call__: the float computation assigns to {ast.unparse(t)[:60]}")
            if isinstance(n, (ast.Delete, ast.Global, ast.Nonlocal, ast.While, ast.Raise, ast.Try, ast.With)):
                raise Unsupported(f"{LSC}:{n.lineno}: {cls}.__call__: statement not expected in the float computation")
            if isinstance(n, ast.Call) and isinstance(n.func, ast.Attribute) and n.func.attr in ("append", "extend", "pop", "clear", "insert", "remove", "sort", "reverse", "update", "setdefault") \
                    and any(isinstance(m, ast.Name) and m.id in ("self", dn) for m in ast.walk(n.func.value)):
                raise Unsupported(f"{LSC}:{n.lineno}: {cls}.__call__: the float computation mutates {ast.unparse(n.func.value)[:60]}")
    # the window of history entries
    want = ast.dump(ast.parse("range(-self.n_metaepochs, 0)", mode="eval").body)
    window_vars = set()
    for st in rest:
        for n in ast.walk(st):
            if isinstance(n, ast.comprehension) and isinstance(n.iter, ast.Call) and dotted(n.iter.func) == "range":
                if ast.dump(n.iter) != want or not isinstance(n.target, ast.Name):
                    raise Unsupported(f"{LSC}:{fn.lineno}: {cls}.__call__: window of metaepochs is not range(-self.n_metaepochs, 0): {ast.unparse(n.iter)[:60]}")
                window_vars.add(n.target.id)
            if isinstance(n, ast.For):
                raise Unsupported(f"{LSC}:{n.lineno}: {cls}.__call__: for statement in the float computation (comprehensions only)")
    reads = 0
    sl_want = ast.dump(ast.parse("x[-self.n_metaepochs:]", mode="eval").body.slice)
    hist_nodes = []
    for st in rest:
        for n in ast.walk(st):
            if isinstance(n, ast.Subscript) and dotted(n.value) in (f"{dn}._history", f"{dn}.history"):
                ok = (isinstance(n.slice, ast.Name) and n.slice.id in window_vars) or ast.dump(n.slice) == sl_want
                if not ok:
                    raise Unsupported(f"{LSC}:{n.lineno}: {cls}.__call__: history read at {ast.unparse(n.slice)[:60]}")
                reads += 1
                hist_nodes.append(id(n.value))
    for st in rest:
        for n in ast.walk(st):
            if isinstance(n, ast.Attribute) and dotted(n) in (f"{dn}._history", f"{dn}.history") and id(n) not in hist_nodes:
                raise Unsupported(f"{LSC}:{n.lineno}: {cls}.__call__: the whole history is used, not the window")
    if reads == 0:
        raise Unsupported(f"{LSC}:{fn.lineno}: {cls}.__call__: the float computation does not read the history window")
    for st in prefix:
        for n in ast.walk(st):
            if isinstance(n, ast.Return) and not (isinstance(n.value, ast.Constant) and isinstance(n.value.value, bool)):
                raise Unsupported(f"{LSC}:{n.lineno}: {cls}.__call__: early return of something other than a boolean constant")
    # early returns must all be False (a True before looking at any fitness is not FitnessSteadiness): the synthetic function returns True when none fires
    for st in prefix:
        for n in ast.walk(st):
            if isinstance(n, ast.Return) and n.value.value is not False:
                raise Unsupported(f"{LSC}:{n.lineno}: {cls}.__call__: early `return True`")
    synth = ast.FunctionDef(name="__call__", args=fn.args, body=prefix + [ast.Return(value=ast.Constant(value=True))], decorator_list=[], returns=None, lineno=fn.lineno, col_offset=0)
    ast.fix_missing_locations(synth)
    return stop_method(lmod, LSC, cls, {"n_metaepochs": ("p_n", "nat")}, "deme", "gen_FitnessSteadiness_early", fn=synth)


# ---------------------------------------------------------------- SingularProblemPrecisionReached: reads the flag of the wrapper it was given
def precision_reached(gmod):
    cls = "SingularProblemPrecisionReached"
    init, call = find_def(gmod, "__init__", cls), find_def(gmod, "__call__", cls)
    ia = [a.arg for a in init.args.args]
    if len(ia) != 2 or ia[0] != "self" or init.args.defaults or init.args.vararg or init.args.kwarg:
        raise Unsupported(f"{GSC}:{init.lineno}: {cls}.__init__ signature changed: {ia}")
    stores = {}
    for st in init.body:
        if isinstance(st, ast.Expr) and isinstance(st.value, ast.Constant):
            continue
        if isinstance(st, ast.Assign) and len(st.targets) == 1 and dotted(st.targets[0]) and dotted(st.targets[0]).startswith("self.") and isinstance(st.value, ast.Name) and st.value.id == ia[1]:
            stores[dotted(st.targets[0])] = "w"
        else:
            raise Unsupported(f"{GSC}:{st.lineno}: {cls}.__init__ does more than keep the wrapper it is given: {ast.unparse(st)[:80]}")
    ca = [a.arg for a in call.args.args]
    body = [st for st in call.body if not (isinstance(st, ast.Expr) and isinstance(st.value, ast.Constant))]
    if len(ca) != 2 or len(body) != 1 or not isinstance(body[0], ast.Return) or body[0].value is None:
        raise Unsupported(f"{GSC}:{call.lineno}: {cls}.__call__ is not a single return")

    def ex(e):
        if isinstance(e, ast.Call) and dotted(e.func) == "bool" and len(e.args) == 1 and not e.keywords:
            return ex(e.args[0])
        if isinstance(e, ast.UnaryOp) and isinstance(e.op, ast.Not):
            return f"(negb {ex(e.operand)})"
        if isinstance(e, ast.BoolOp):
            op = "orb" if isinstance(e.op, ast.Or) else "andb"
            code = ex(e.values[0])
            for v in e.values[1:]:
                code = f"({op} {code} {ex(v)})"
            return code
        if isinstance(e, ast.Compare) and len(e.ops) == 1 and isinstance(e.ops[0], (ast.Is, ast.Eq)) and isinstance(e.comparators[0], ast.Constant) and e.comparators[0].value is True:
            return ex(e.left)
        if isinstance(e, ast.Constant) and isinstance(e.value, bool):
            return "true" if e.value else "false"
        d = dotted(e)
        if d is not None and d.endswith(".hit_precision") and d[:-len(".hit_precision")] in stores:
            return "(hit_precision w)"
        raise Unsupported(f"{GSC}:{call.lineno}: {cls}.__call__: verdict not understood: {ast.unparse(e)[:80]}")
    return ("(* GENERATED from pyhms/stop_conditions/gsc.py by hv/translate/stops_py.py — do not edit *)\n"
            "From Coq Require Import Bool.\nFrom HV Require Import WMonad.\n\n"
            "(* the verdict of SingularProblemPrecisionReached(problem), as a function of the state w of the PrecisionCutoffProblem it was constructed with *)\n"
            f"Definition gen_SingularProblemPrecisionReached (w : wobj) : bool :=\n  {ex(body[0].value)}.\n")


# ---------------------------------------------------------------- FitnessEvalLimitReached: what `self.weights` is when the sum is taken
STRATEGIES = {"WeightingStrategy.ROOT": "w_eq_root", "WeightingStrategy.EQUAL": "w_eq_equal"}
STRATEGY_STRINGS = {"root": "w_eq_root", "equal": "w_eq_equal"}


def _bad(node, why):
    raise Unsupported(f"{GSC}:{getattr(node, 'lineno', '?')}: FitnessEvalLimitReached weights: {why}: {ast.unparse(node)[:80]}")


def _is_w(e):
    return dotted(e) == "self.weights"


def wtest(e):
    """a test on `self.weights` -> a boolean function of w : wspec"""
    if isinstance(e, ast.BoolOp):
        op = "orb" if isinstance(e.op, ast.Or) else "andb"
        code = wtest(e.values[0])
        for v in e.values[1:]:
            code = f"({op} {code} {wtest(v)})"
        return code
    if isinstance(e, ast.UnaryOp) and isinstance(e.op, ast.Not):
        return f"(negb {wtest(e.operand)})"
    if isinstance(e, ast.Call) and dotted(e.func) == "isinstance" and len(e.args) == 2 and not e.keywords and _is_w(e.args[0]):
        t = dotted(e.args[1])
        if t == "str":
            return "(w_is_str w)"
        if t == "list":
            return "(w_is_list w)"
        _bad(e, "isinstance against this type is not modelled")
    if isinstance(e, ast.Compare) and len(e.ops) == 1:
        a, op, b = e.left, e.ops[0], e.comparators[0]
        if not _is_w(a) and _is_w(b) and isinstance(op, (ast.Eq, ast.NotEq)):
            a, b = b, a
        if _is_w(a):
            def one(x):
                if isinstance(x, ast.Constant) and x.value is None:
                    return "(w_is_none w)"
                if dotted(x) in STRATEGIES:
                    return f"({STRATEGIES[dotted(x)]} w)"
                if isinstance(x, ast.Constant) and x.value in STRATEGY_STRINGS:
                    return f"({STRATEGY_STRINGS[x.value]} w)"
                _bad(e, "comparison with this value is not modelled")
            if isinstance(op, (ast.Is, ast.IsNot)):
                if not (isinstance(b, ast.Constant) and b.value is None):
                    _bad(e, "identity test against something other than None")
                return one(b) if isinstance(op, ast.Is) else f"(negb {one(b)})"
            if isinstance(op, (ast.Eq, ast.NotEq)):
                return one(b) if isinstance(op, ast.Eq) else f"(negb {one(b)})"
            if isinstance(op, (ast.In, ast.NotIn)) and isinstance(b, (ast.Tuple, ast.List, ast.Set)) and b.elts:
                code = one(b.elts[0])
                for x in b.elts[1:]:
                    code = f"(orb {code} {one(x)})"
                return code if isinstance(op, ast.In) else f"(negb {code})"
    _bad(e, "test not understood")


def wnat(e, n_name):
    if isinstance(e, ast.Constant) and isinstance(e.value, int) and not isinstance(e.value, bool) and 0 <= e.value < 1000:
        return str(e.value)
    if isinstance(e, ast.Name) and e.id == n_name:
        return "v_n"
    if isinstance(e, ast.BinOp) and isinstance(e.op, (ast.Add, ast.Sub, ast.Mult)):
        return f"({wnat(e.left, n_name)} {'+' if isinstance(e.op, ast.Add) else '-' if isinstance(e.op, ast.Sub) else '*'} {wnat(e.right, n_name)})"
    _bad(e, "number not understood")


def wlist(e, n_name):
    """a list of weights built from the number of levels"""
    if isinstance(e, ast.ListComp) and len(e.generators) == 1 and not e.generators[0].ifs and isinstance(e.generators[0].target, ast.Name) \
            and isinstance(e.generators[0].iter, ast.Call) and dotted(e.generators[0].iter.func) == "range" and len(e.generators[0].iter.args) == 1 \
            and not any(isinstance(n, ast.Name) and n.id == e.generators[0].target.id for n in ast.walk(e.elt)):
        return f"(map (fun _ => {wnat(e.elt, n_name)}) (seq 0 {wnat(e.generators[0].iter.args[0], n_name)}))"
    if isinstance(e, ast.BinOp) and isinstance(e.op, ast.Mult):
        l, r = (e.left, e.right) if isinstance(e.left, ast.List) else (e.right, e.left)
        if isinstance(l, ast.List) and len(l.elts) == 1:
            return f"(repeat {wnat(l.elts[0], n_name)} {wnat(r, n_name)})"
    if isinstance(e, ast.BinOp) and isinstance(e.op, ast.Add):
        return f"({wlist(e.left, n_name)} ++ {wlist(e.right, n_name)})"
    if isinstance(e, ast.List) and len(e.elts) < 50:
        return "[" + "; ".join(wnat(x, n_name) for x in e.elts) + "]"
    _bad(e, "list of weights not understood")


def wblock(stmts, n_name):
    """statements that only touch self.weights -> option wspec (None: the statement raises)"""
    if not stmts:
        return "Some w"
    s, rest = stmts[0], stmts[1:]
    if isinstance(s, ast.Pass) or (isinstance(s, ast.Expr) and isinstance(s.value, ast.Constant)):
        return wblock(rest, n_name)
    if isinstance(s, ast.Return) and (s.value is None or (isinstance(s.value, ast.Constant) and s.value.value is None)):
        return "Some w"
    if isinstance(s, ast.Assign) and len(s.targets) == 1:
        t = s.targets[0]
        if _is_w(t):
            return f"(let w := WList {wlist(s.value, n_name)} in\n   {wblock(rest, n_name)})"
        if isinstance(t, ast.Subscript) and _is_w(t.value):
            return f"(match w_setitem w {wnat(t.slice, n_name)} {wnat(s.value, n_name)} with Some w =>\n   {wblock(rest, n_name)} | None => None end)"
    if isinstance(s, ast.If):
        def ends(b):   # every path through b returns
            return bool(b) and (isinstance(b[-1], ast.Return) or (isinstance(b[-1], ast.If) and ends(b[-1].body) and ends(b[-1].orelse)))
        if not rest or (ends(s.body) and ends(s.orelse)):
            return f"(if {wtest(s.test)} then {wblock(s.body, n_name)}\n   else {wblock(s.orelse, n_name)})"
        if ends(s.body):
            return f"(if {wtest(s.test)} then {wblock(s.body, n_name)}\n   else {wblock(s.orelse + rest, n_name)})"
        return (f"(match (if {wtest(s.test)} then {wblock(s.body, n_name)}\n   else {wblock(s.orelse, n_name)}) with Some w =>\n   "
                f"{wblock(rest, n_name)} | None => None end)")
    _bad(s, "statement not understood")


def transform_weights(gmod):
    cls = "FitnessEvalLimitReached"
    tw = find_def(gmod, "_transform_weights", cls)
    argn = [a.arg for a in tw.args.args]
    if len(argn) != 2 or argn[0] != "self" or tw.args.vararg or tw.args.kwarg or tw.args.kwonlyargs or tw.args.defaults:
        raise Unsupported(f"{GSC}:{tw.lineno}: _transform_weights signature changed: {argn}")
    body = wblock(tw.body, argn[1])
    call = find_def(gmod, "__call__", cls)
    guards = [i for i, s in enumerate(call.body) if isinstance(s, ast.If) and any(isinstance(n, ast.Call) and dotted(n.func) == "self._transform_weights" for n in ast.walk(s))]
    calls = [n for n in ast.walk(call) if isinstance(n, ast.Call) and dotted(n.func) == "self._transform_weights"]
    loops = [i for i, s in enumerate(call.body) if any(isinstance(n, (ast.For, ast.While, ast.ListComp, ast.GeneratorExp)) and
                                                       any(_is_w(m) for m in ast.walk(n)) for n in ast.walk(s))]
    if len(guards) != 1 or len(calls) != 1 or not loops or guards[0] > min(loops):
        raise Unsupported(f"{GSC}:{call.lineno}: FitnessEvalLimitReached.__call__: the weights are not normalised exactly once before they are used")
    g = call.body[guards[0]]
    if g.orelse or len(g.body) != 1 or not (isinstance(g.body[0], ast.Expr) and g.body[0].value is calls[0]) or len(calls[0].args) != 1 or calls[0].keywords:
        _bad(g, "guard around _transform_weights")
    # the argument, with the straight-line locals of __call__ substituted
    defs = {}
    for s in call.body[:guards[0]]:
        if isinstance(s, ast.Assign) and len(s.targets) == 1 and isinstance(s.targets[0], ast.Name):
            defs[s.targets[0].id] = s.value
        elif not (isinstance(s, ast.Expr) and isinstance(s.value, ast.Constant)):
            _bad(s, "statement before the weights guard")

    class Sub(ast.NodeTransformer):
        def visit_Name(self, n):
            return Sub().visit(ast.parse(ast.unparse(defs[n.id]), mode="eval").body) if n.id in defs else n
    arg = Sub().visit(ast.parse(ast.unparse(calls[0].args[0]), mode="eval").body)
    treen = [a.arg for a in call.args.args][1]
    tr = STr(GSC, cls, "gen_weights_nlevels", "tree", {})
    pre, v = tr.expr(arg, {treen: V("tree", "treeobj", deps=set())})
    if pre or v.ty != "nat":
        _bad(calls[0], "number of levels passed to _transform_weights")
    return (f"Definition gen_weights_guard (w : wspec) : bool :=\n  {wtest(g.test)}.\n\n"
            f"Definition gen_transform_weights (v_n : nat) (w : wspec) : option wspec :=\n  {body}.\n\n"
            f"Definition gen_weights_nlevels (c : cfg) : nat :=\n  {v.code}.\n\n"
            "(* self.weights when FitnessEvalLimitReached.__call__ takes the weighted sum *)\n"
            "Definition gen_effective_weights (c : cfg) (w : wspec) : option wspec :=\n"
            "  if gen_weights_guard w then gen_transform_weights (gen_weights_nlevels c) w else Some w.\n")
