"""pyhms/**/*.py -> Gen/GenEntropy.v : the table of every place that can introduce run-to-run variation (C14): calls into the
global numpy / python generators, scipy rvs, quasi-random samplers, own generators, uuid / clock / hash / id / urandom, iteration
over sets, and re-seeding.  Each row carries a kind; Model/Rng.v says which kinds are controlled by options.random_seed."""
import ast
import glob
import os

from .core import Unsupported

OUTPUTS = ["GenEntropy.v"]
SKIP_DIRS = ("utils/visualisation", "cluster")   # plotting / experimental clustering: outside every listed property, never run by run()
NP_NON_DRAW = {"seed", "get_state", "set_state", "default_rng", "RandomState", "Generator", "SeedSequence", "PCG64", "MT19937", "BitGenerator"}
# (file suffix, enclosing function) where a uuid / clock value is produced but never enters the compared state
OUTSIDE_STATE = {("core/individual.py", "__init__"), ("core/problem.py", "evaluate")}


def mentions_seed(node):
    return any((isinstance(n, ast.Attribute) and n.attr in ("random_seed", "_random_seed")) or (isinstance(n, ast.Name) and n.id in ("random_seed", "seed"))
               for n in ast.walk(node))


def scan_file(path, rel):
    src = open(path).read()
    mod = ast.parse(src)
    alias = {}     # local name -> dotted module / object
    for n in ast.walk(mod):
        if isinstance(n, ast.Import):
            for a in n.names:
                alias[a.asname or a.name.split(".")[0]] = a.name if a.asname else a.name.split(".")[0]
        elif isinstance(n, ast.ImportFrom) and n.module:
            for a in n.names:
                alias[a.asname or a.name] = n.module.lstrip(".") + "." + a.name
    rows = []

    def dotted(f):
        parts = []
        while isinstance(f, ast.Attribute):
            parts.append(f.attr)
            f = f.value
        if isinstance(f, ast.Name):
            base = alias.get(f.id, f.id)
            return ".".join([base] + list(reversed(parts)))
        return None

    def visit(node, fn):
        if isinstance(node, (ast.FunctionDef, ast.AsyncFunctionDef)):
            fn = node.name
        if isinstance(node, ast.Call):
            d = dotted(node.func) or ""
            kind = None
            if d.startswith("numpy.random.") or d.startswith("numpy.random"):
                leaf = d.split(".")[-1]
                if leaf == "seed":
                    kind = "KSeeding" if node.args and mentions_seed(node.args[0]) else "KReseedOther"
                elif leaf in ("default_rng", "RandomState", "Generator", "SeedSequence", "PCG64", "MT19937"):
                    kind = "KOwnSeeded" if (node.args or node.keywords) and mentions_seed(node) else "KOwnUnseeded"
                elif leaf in ("get_state", "set_state"):
                    kind = "KStateAccess"
                else:
                    kind = "KNumpyGlobal"
            elif d.startswith("random.") and alias.get("random", "random") == "random":
                leaf = d.split(".")[-1]
                if leaf == "seed":
                    kind = "KSeeding" if node.args and mentions_seed(node.args[0]) else "KReseedOther"
                elif leaf in ("getstate", "setstate"):
                    kind = "KStateAccess"
                elif leaf in ("Random", "SystemRandom"):
                    kind = "KOwnSeeded" if leaf == "Random" and mentions_seed(node) else "KOwnUnseeded"
                else:
                    kind = "KPythonGlobal"
            elif d.endswith(".rvs"):
                kind = "KOwnUnseeded" if any(k.arg == "random_state" and not mentions_seed(k.value) for k in node.keywords) else "KNumpyGlobal"
            elif d.split(".")[-1] in ("LatinHypercube", "Sobol", "Halton", "PoissonDisk") and "qmc" in d:
                sk = [k for k in node.keywords if k.arg == "seed"]
                kind = "KSeededSampler" if sk and mentions_seed(sk[0].value) and not isinstance(sk[0].value, (ast.BinOp, ast.Call)) else "KUnseededSampler"
            elif d.startswith("uuid."):
                kind = "KUuid"
            elif d.startswith("time.") or d.startswith("datetime."):
                kind = "KClock"
            elif d in ("hash",):
                kind = "KHash"
            elif d in ("id",):
                kind = "KId"
            elif d in ("os.urandom", "os.getpid") or d.startswith("secrets."):
                kind = "KUrandom"
            if kind in ("KUuid", "KClock") and any(rel.endswith(f) and fn == g for f, g in OUTSIDE_STATE):
                kind += "Outside"
            if kind:
                rows.append((rel, node.lineno, kind, d))
        # references (not calls) to a global generator function, e.g. opts["randn"] = np.random.randn
        if isinstance(node, ast.Attribute) and not isinstance(getattr(node, "_parent", None), ast.Call):
            d = dotted(node) or ""
            if d.startswith("numpy.random.") and d.split(".")[-1] not in NP_NON_DRAW and not getattr(node, "_is_func", False):
                rows.append((rel, node.lineno, "KNumpyGlobal", d + " (reference)"))
        # iteration over a set
        if isinstance(node, (ast.For, ast.comprehension)):
            it = node.iter
            if isinstance(it, (ast.Set, ast.SetComp)) or (isinstance(it, ast.Call) and isinstance(it.func, ast.Name) and it.func.id in ("set", "frozenset")):
                rows.append((rel, getattr(node, "lineno", it.lineno), "KSetIter", "iteration over a set"))
        for ch in ast.iter_child_nodes(node):
            if isinstance(node, ast.Call) and ch is node.func:
                ch._is_func = True
            visit(ch, fn)
    visit(mod, None)
    return rows


def translate(repo):
    root = os.path.join(repo, "pyhms")
    rows = []
    files = sorted(glob.glob(os.path.join(root, "**", "*.py"), recursive=True))
    if not files:
        raise Unsupported("no source files under pyhms/")
    for p in files:
        rel = os.path.relpath(p, root)
        if any(rel.startswith(d) for d in SKIP_DIRS):
            continue
        rows += scan_file(p, rel)
    seen, uniq = set(), []
    for r in rows:
        if (r[0], r[1], r[2]) not in seen:
            seen.add((r[0], r[1], r[2]))
            uniq.append(r)
    out = ["(* GENERATED from pyhms/**/*.py by hv/translate/entropy_py.py — do not edit *)", "From Coq Require Import List.", "From HV Require Import Rng.", "Import ListNotations.", "",
           "Definition entropy_table : list (nat * ekind) := ["]
    out.append(";\n".join(f"  ({ln}, {k})   (* {f}: {d} *)" for f, ln, k, d in uniq))
    out.append("].")
    n_seed = sum(1 for r in uniq if r[2] == "KSeeding")
    out.append(f"Definition n_seeding_sites : nat := {n_seed}.")
    return {"GenEntropy.v": "\n".join(out) + "\n"}, [f"{f}:{ln}:{k}" for f, ln, k, d in uniq]
