"""Fail-closed Python-ast -> Gallina translator core.

A compiler for a restricted subset, not a pattern matcher for the current text: names are typed through
an environment, calls and attributes go through binding tables supplied by the per-file front ends, and
anything that is not understood raises Unsupported(file:line: what), which the checks treat as a broken
proof obligation (never as "fine").

Types: "F" binary64 scalar, "Z" integer, "B" bool, "S" python string constant (translation-time only),
"N" None constant, plus whatever opaque type names the front ends introduce (treated nominally).
"""
import ast


class Unsupported(Exception):
    pass


class Const:
    """translation-time constant (string / None): used for partial evaluation of dispatch code"""

    def __init__(self, v):
        self.v = v


FCONST = {0: "(fzero false)", 1: "fone", 2: "ftwo"}


class PureTr:
    """Translates a python function body made of assignments to locals, if/elif/else, return, raise,
    into one Gallina term (nested let/if).  Expressions go through self.expr."""

    def __init__(self, src_file, env=None, attrs=None, calls=None, subscripts=None, methods=None):
        self.src = src_file
        self.env = dict(env or {})  # name -> (coq, type) | Const
        self.attrs = attrs or {}  # (base coq type, attr) -> (fmt, type)   fmt uses {0} for the base term
        self.calls = calls or {}  # dotted callee name -> fn(self, node, args[(coq,type)]) -> (coq,type)
        self.subscripts = subscripts or (lambda tr, node: None)
        self.methods = methods or {}  # (base type, method name) -> fn(self, node, base(coq,type), args) -> (coq,type)

    # ------------------------------------------------------------------ helpers
    def bad(self, node, what):
        try:
            dump = ast.unparse(node)
        except Exception:
            dump = ast.dump(node)
        raise Unsupported(f"{self.src}:{getattr(node, 'lineno', '?')}: unsupported {what}: {dump[:160]}")

    @staticmethod
    def dotted(f):
        parts = []
        while isinstance(f, ast.Attribute):
            parts.append(f.attr)
            f = f.value
        if isinstance(f, ast.Name):
            parts.append(f.id)
            return ".".join(reversed(parts))
        return None

    def coerce(self, a, b, node):
        """numeric coercion of int literals / Z values to F when the other side is F"""
        (ca, ta), (cb, tb) = a, b
        if ta == tb:
            return a, b
        if ta == "F" and tb == "Zlit":
            return a, (self.flit(cb, node), "F")
        if tb == "F" and ta == "Zlit":
            return (self.flit(ca, node), "F"), b
        if ta == "Zlit" and tb == "Z":
            return (f"({ca})%Z", "Z"), b
        if tb == "Zlit" and ta == "Z":
            return a, (f"({cb})%Z", "Z")
        if ta == "Zlit" and tb == "Zlit":
            return (f"({ca})%Z", "Z"), (f"({cb})%Z", "Z")
        self.bad(node, f"operands of types {ta} and {tb}")

    def flit(self, lit, node):
        n = int(lit)
        if n in FCONST:
            return FCONST[n]
        self.bad(node, f"float literal {lit}")

    def fix(self, v):
        """finalise an untyped int literal as Z"""
        c, t = v
        return (f"({c})%Z", "Z") if t == "Zlit" else v

    # ------------------------------------------------------------------ expressions
    def expr(self, e):
        r = self.subscripts(self, e) if isinstance(e, ast.Subscript) else None
        if r is not None:
            return r
        if isinstance(e, ast.Name):
            if e.id in self.env:
                v = self.env[e.id]
                return v
            self.bad(e, "name")
        if isinstance(e, ast.Constant):
            if isinstance(e.value, bool):
                return ("true" if e.value else "false"), "B"
            if isinstance(e.value, int):
                return str(e.value), "Zlit"
            if isinstance(e.value, str) or e.value is None:
                return Const(e.value)
            self.bad(e, "constant")
        if isinstance(e, ast.Attribute):
            d = self.dotted(e)
            if d in self.env:
                return self.env[d]
            base = self.expr(e.value)
            if isinstance(base, Const):
                self.bad(e, "attribute of constant")
            k = (base[1], e.attr)
            if k in self.attrs:
                fmt, t = self.attrs[k]
                return fmt.format(base[0]), t
            self.bad(e, f"attribute .{e.attr} on type {base[1]}")
        if isinstance(e, ast.UnaryOp):
            v = self.expr(e.operand)
            if isinstance(v, Const):
                self.bad(e, "unary op on constant")
            c, t = v
            if isinstance(e.op, ast.USub):
                if t == "F":
                    return f"(fneg {c})", "F"
                if t == "Z":
                    return f"(- {c})%Z", "Z"
                if t == "Zlit":
                    return f"-{c}", "Zlit"
            if isinstance(e.op, ast.Not) and t == "B":
                return f"(negb {c})", "B"
            if isinstance(e.op, ast.Invert) and t == "B":
                return f"(negb {c})", "B"
            self.bad(e, "unary op")
        if isinstance(e, ast.BinOp):
            a, b = self.expr(e.left), self.expr(e.right)
            if isinstance(a, Const) or isinstance(b, Const):
                self.bad(e, "binary op on constant")
            if isinstance(e.op, (ast.BitAnd, ast.BitOr)) and a[1] == b[1] == "B":
                return f"({'andb' if isinstance(e.op, ast.BitAnd) else 'orb'} {a[0]} {b[0]})", "B"
            (ca, ta), (cb, tb) = self.coerce(a, b, e)
            ops = {
                (ast.Add, "Z"): "Z.add", (ast.Sub, "Z"): "Z.sub", (ast.Mult, "Z"): "Z.mul",
                (ast.Add, "F"): "fadd", (ast.Sub, "F"): "fsub", (ast.Mult, "F"): "fmul", (ast.Div, "F"): "fdiv",
                (ast.Mod, "F"): "np_mod", (ast.FloorDiv, "F"): "np_floor_divide",
            }
            k = (type(e.op), ta)
            if k in ops:
                return f"({ops[k]} {ca} {cb})", ta
            self.bad(e, "binary op")
        if isinstance(e, ast.Compare) and len(e.ops) == 1:
            a, b = self.expr(e.left), self.expr(e.comparators[0])
            op = type(e.ops[0])
            if isinstance(a, Const) and isinstance(b, Const):
                if op is ast.Eq:
                    return Const(a.v == b.v)
                if op is ast.NotEq:
                    return Const(a.v != b.v)
                if op is ast.Is:
                    return Const(a.v is b.v)
                if op is ast.IsNot:
                    return Const(a.v is not b.v)
            if isinstance(b, Const) and b.v is None and not isinstance(a, Const) and a[1].startswith("option "):
                if op in (ast.Is, ast.Eq):
                    return f"(is_none {a[0]})", "B"
                if op in (ast.IsNot, ast.NotEq):
                    return f"(negb (is_none {a[0]}))", "B"
            if isinstance(a, Const) or isinstance(b, Const):
                self.bad(e, "comparison with constant")
            (ca, ta), (cb, tb) = self.coerce(a, b, e)
            tab = {
                ("Z", ast.GtE): "Z.geb", ("Z", ast.Gt): "Z.gtb", ("Z", ast.LtE): "Z.leb", ("Z", ast.Lt): "Z.ltb",
                ("Z", ast.Eq): "Z.eqb", ("Z", ast.NotEq): "Zneqb",
                ("F", ast.LtE): "fle", ("F", ast.Lt): "flt", ("F", ast.GtE): "fge", ("F", ast.Gt): "fgt",
                ("F", ast.Eq): "feq", ("F", ast.NotEq): "fneqb",
                ("B", ast.Eq): "Bool.eqb",
                # K: order-preserving integer key of a non-NaN fitness
                ("K", ast.LtE): "Z.leb", ("K", ast.Lt): "Z.ltb", ("K", ast.GtE): "Z.geb", ("K", ast.Gt): "Z.gtb",
                ("K", ast.Eq): "Z.eqb", ("K", ast.NotEq): "Zneqb",
            }
            k = (ta, op)
            if k in tab:
                return f"({tab[k]} {ca} {cb})", "B"
            self.bad(e, f"comparison on type {ta}")
        if isinstance(e, ast.BoolOp):
            vs = [self.expr(v) for v in e.values]
            if any(isinstance(v, Const) for v in vs):
                # partial evaluation of constant operands (python truthiness of None/str not needed)
                self.bad(e, "boolean op on constant")
            if any(t != "B" for _, t in vs):
                self.bad(e, "boolean op on non-bool")
            op = "andb" if isinstance(e.op, ast.And) else "orb"
            out = vs[0][0]
            for v, _ in vs[1:]:
                out = f"({op} {out} {v})"  # pure operands: short-circuit = andb/orb
            return out, "B"
        if isinstance(e, ast.IfExp):
            c = self.expr(e.test)
            if isinstance(c, Const):
                return self.expr(e.body if c.v else e.orelse)
            a, b = self.expr(e.body), self.expr(e.orelse)
            if isinstance(a, Const) or isinstance(b, Const):
                self.bad(e, "conditional expression on constants")
            if c[1] != "B":
                self.bad(e, "conditional expression test")
            a, b = self.coerce(a, b, e)
            a, b = self.fix(a), self.fix(b)
            return f"(if {c[0]} then {a[0]} else {b[0]})", a[1]
        if isinstance(e, ast.Call):
            d = self.dotted(e.func)
            if d in getattr(self, "rawcalls", {}):
                return self.rawcalls[d](self, e)
            if d in self.calls:
                args = [self.expr(a) for a in e.args]
                kw = {k.arg: self.expr(k.value) for k in e.keywords}
                return self.calls[d](self, e, args, kw)
            if isinstance(e.func, ast.Attribute):
                base = self.expr(e.func.value)
                if not isinstance(base, Const):
                    k = (base[1], e.func.attr)
                    if k in self.methods:
                        args = [self.expr(a) for a in e.args]
                        return self.methods[k](self, e, base, args)
            self.bad(e, "call")
        self.bad(e, "expression")

    # ------------------------------------------------------------------ statements
    @staticmethod
    def returns(stmts):
        if not stmts:
            return False
        s = stmts[-1]
        if isinstance(s, (ast.Return, ast.Raise)):
            return True
        if isinstance(s, ast.If) and s.orelse:
            return PureTr.returns(s.body) and PureTr.returns(s.orelse)
        return False

    def block(self, stmts):
        """returns a Coq term for the statement list (which must end by returning on every path)"""
        if not stmts:
            raise Unsupported(f"{self.src}: function falls off the end without return")
        s, rest = stmts[0], stmts[1:]
        if isinstance(s, ast.Expr) and isinstance(s.value, ast.Constant) and isinstance(s.value.value, str):
            return self.block(rest)  # docstring
        if isinstance(s, ast.Pass):
            return self.block(rest)
        if isinstance(s, ast.Return):
            v = self.expr(s.value)
            if isinstance(v, Const):
                self.bad(s, "return of a constant")
            return self.fix(v)[0]
        if isinstance(s, ast.Raise):
            return "RAISE"
        if isinstance(s, (ast.Assign, ast.AnnAssign)):
            tgt = s.targets[0] if isinstance(s, ast.Assign) else s.target
            if isinstance(s, ast.Assign) and len(s.targets) != 1:
                self.bad(s, "multiple assignment")
            if isinstance(tgt, ast.Name):
                v = self.expr(s.value)
                if isinstance(v, Const):
                    self.env[tgt.id] = v
                    return self.block(rest)
                c, t = self.fix(v)
                nm = self.fresh(tgt.id)
                self.env[tgt.id] = (nm, t)
                return f"(let {nm} := {c} in\n {self.block(rest)})"
            if isinstance(tgt, ast.Tuple) and isinstance(s.value, ast.Tuple) and len(tgt.elts) == len(s.value.elts) \
                    and all(isinstance(e, ast.Name) for e in tgt.elts):
                # a, b = x, y : python evaluates the right-hand side first; the values are bound before any target is rebound
                vals = [self.expr(e) for e in s.value.elts]
                lets = []
                for e, v in zip(tgt.elts, vals):
                    if isinstance(v, Const):
                        self.env[e.id] = v
                        continue
                    c, t = self.fix(v)
                    nm = self.fresh(e.id)
                    lets.append((e.id, nm, c, t))
                for name, nm, c, t in lets:
                    self.env[name] = (nm, t)
                body = self.block(rest)
                for name, nm, c, t in reversed(lets):
                    body = f"(let {nm} := {c} in\n {body})"
                return body
            self.bad(s, "assignment target")
        if isinstance(s, ast.If):
            c = self.expr(s.test)
            if isinstance(c, Const):
                return self.block((s.body if c.v else s.orelse) + ([] if self.returns(s.body if c.v else s.orelse) else rest))
            if c[1] != "B":
                self.bad(s, "non-boolean condition")
            saved = dict(self.env)
            a = self.block(s.body + ([] if self.returns(s.body) else rest))
            self.env = dict(saved)
            b = self.block(s.orelse + ([] if self.returns(s.orelse) else rest))
            self.env = dict(saved)
            if "RAISE" in (a, b):
                self.bad(s, "raise on a reachable path")
            return f"(if {c[0]}\n then {a}\n else {b})"
        self.bad(s, "statement")

    _n = 0

    def fresh(self, base):
        used = {v[0] for v in self.env.values() if not isinstance(v, Const)}
        nm = base
        while nm in used or nm in RESERVED:
            PureTr._n += 1
            nm = f"{base}_{PureTr._n}"
        return nm


RESERVED = {"fix", "in", "let", "fun", "match", "end", "if", "then", "else", "Type", "Prop", "Set", "as", "at", "return", "with", "forall", "exists"}


def find_def(mod, name, cls=None):
    body = mod.body
    if cls:
        for n in body:
            if isinstance(n, ast.ClassDef) and n.name == cls:
                body = n.body
                break
        else:
            raise Unsupported(f"class {cls} not found")
    for n in body:
        if isinstance(n, ast.FunctionDef) and n.name == name:
            return n
    raise Unsupported(f"function {cls + '.' if cls else ''}{name} not found")


def class_bases(mod, cls):
    for n in mod.body:
        if isinstance(n, ast.ClassDef) and n.name == cls:
            return [b.id for b in n.bases if isinstance(b, ast.Name)]
    raise Unsupported(f"class {cls} not found")


class MonadTr(PureTr):
    """Statement translator into a state monad: effectful right-hand sides (recognised by self.effects,
    a list of functions node -> (coq, type) | None) become binds; `self.<field> = e`, `self.<field> += e`
    and `self.<field>.append(e)` become setters from self.fields; after every effect the bound names in
    self.rebind are re-read so reads see current state."""

    def __init__(self, src_file, fields, effects, rebind, **kw):
        super().__init__(src_file, **kw)
        self.fields, self.effects, self.rebind = fields, effects, rebind

    def effect(self, e):
        for fn in self.effects:
            r = fn(self, e)
            if r is not None:
                return r
        return None

    def self_field(self, t):
        if isinstance(t, ast.Attribute) and isinstance(t.value, ast.Name) and t.value.id == "self" and t.attr in self.fields:
            return self.fields[t.attr]
        return None

    def mblock(self, stmts):
        if not stmts:
            raise Unsupported(f"{self.src}: function falls off the end without return")
        s, rest = stmts[0], stmts[1:]
        if isinstance(s, ast.Expr) and isinstance(s.value, ast.Constant) and isinstance(s.value.value, str):
            return self.mblock(rest)
        if isinstance(s, ast.Pass):
            return self.mblock(rest)
        if isinstance(s, ast.Return):
            eff = self.effect(s.value) if s.value is not None else None
            if eff:
                return eff[0]
            if s.value is None:
                return "(ret tt)"
            v = self.expr(s.value)
            if isinstance(v, Const):
                self.bad(s, "return of a constant")
            return f"(ret {self.fix(v)[0]})"
        if isinstance(s, ast.Assign) and len(s.targets) == 1:
            t = s.targets[0]
            if isinstance(t, ast.Name):
                eff = self.effect(s.value)
                if eff:
                    nm = self.fresh(t.id)
                    self.env[t.id] = (nm, eff[1])
                    return f"({nm} <- {eff[0]} ;; {self.rebind}\n {self.mblock(rest)})"
                v = self.expr(s.value)
                if isinstance(v, Const):
                    self.env[t.id] = v
                    return self.mblock(rest)
                c, ty = self.fix(v)
                nm = self.fresh(t.id)
                self.env[t.id] = (nm, ty)
                return f"(let {nm} := {c} in\n {self.mblock(rest)})"
            fld = self.self_field(t)
            if fld:
                f, ty = fld
                v = self.expr(s.value)
                if isinstance(v, Const):
                    self.bad(s, "constant assigned to field")
                c, tv = self.fix(v)
                if ty == "option Z" and tv == "Z":
                    c = f"(Some {c})"
                elif ty != tv:
                    self.bad(s, f"assignment of {tv} to field of type {ty}")
                return f"(set_{f} {c} ;;; {self.rebind}\n {self.mblock(rest)})"
            self.bad(s, "assignment target")
        if isinstance(s, ast.AugAssign) and isinstance(s.op, ast.Add):
            fld = self.self_field(s.target)
            if fld:
                f, ty = fld
                v = self.fix(self.expr(s.value))
                if ty == v[1] == "Z":
                    return f"(set_{f} (Z.add ({f} self) {v[0]}) ;;; {self.rebind}\n {self.mblock(rest)})"
            self.bad(s, "augmented assignment")
        if isinstance(s, ast.Expr) and isinstance(s.value, ast.Call):
            f = s.value.func
            if isinstance(f, ast.Attribute) and f.attr == "append" and len(s.value.args) == 1:
                fld = self.self_field(f.value)
                if fld and fld[1].startswith("list"):
                    v = self.fix(self.expr(s.value.args[0]))
                    return f"(push_{fld[0]} {v[0]} ;;; {self.rebind}\n {self.mblock(rest)})"
            eff = self.effect(s.value)
            if eff:
                return f"({eff[0]} ;;; {self.rebind}\n {self.mblock(rest)})"
            self.bad(s, "expression statement")
        if isinstance(s, ast.If):
            c = self.expr(s.test)
            if isinstance(c, Const):
                br = s.body if c.v else s.orelse
                return self.mblock(br + ([] if self.returns(br) else rest))
            if c[1] != "B":
                self.bad(s, "non-boolean condition")
            saved = dict(self.env)
            a = self.mblock(s.body + ([] if self.returns(s.body) else rest))
            self.env = dict(saved)
            b = self.mblock(s.orelse + ([] if self.returns(s.orelse) else rest))
            self.env = dict(saved)
            return f"(if {c[0]}\n then {a}\n else {b})"
        self.bad(s, "statement")
