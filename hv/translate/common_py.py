"""pyhms/demes/single_pop_eas/common.py -> Gen/Common.v : apply_bounds, per coordinate, one definition per method."""
import ast
from .core import PureTr, Unsupported, Const, find_def

SRC = "pyhms/demes/single_pop_eas/common.py"
OUTPUTS = ["GenCommon.v"]


def _sub(tr, node):
    # bounds[:, 0] / bounds[:, 1]
    if isinstance(node.value, ast.Name) and node.value.id == "bounds" and isinstance(node.slice, ast.Tuple):
        a, b = node.slice.elts
        if isinstance(a, ast.Slice) and a.lower is None and a.upper is None and a.step is None and isinstance(b, ast.Constant):
            if b.value == 0:
                return ("lo", "F")
            if b.value == 1:
                return ("hi", "F")
    return None


def _call(name, n, ty="F"):
    def f(tr, node, args, kw):
        if kw or len(args) != n:
            tr.bad(node, f"{name} arity")
        out = []
        for a in args:
            if isinstance(a, Const):
                tr.bad(node, "constant argument")
            c, t = a
            if t == "Zlit":
                c, t = tr.flit(c, node), "F"
            out.append((c, t))
        if name == "np_where":
            if out[0][1] != "B" or out[1][1] != out[2][1]:
                tr.bad(node, "np.where typing")
            return f"(np_where {out[0][0]} {out[1][0]} {out[2][0]})", out[1][1]
        if any(t != "F" for _, t in out):
            tr.bad(node, f"{name} on non-float")
        return "(" + name + " " + " ".join(c for c, _ in out) + ")", ty
    return f


CALLS = {"np.clip": _call("np_clip", 3), "np.mod": _call("np_mod", 2), "np.floor_divide": _call("np_floor_divide", 2),
         "np.where": _call("np_where", 3), "np.maximum": _call("np_maximum", 2), "np.minimum": _call("np_minimum", 2)}


def translate(repo):
    path = f"{repo}/{SRC}"
    mod = ast.parse(open(path).read())
    fn = find_def(mod, "apply_bounds")
    argn = [a.arg for a in fn.args.args]
    if argn != ["genomes", "bounds", "method"]:
        raise Unsupported(f"{SRC}:{fn.lineno}: apply_bounds signature changed: {argn}")
    out = ["(* GENERATED from %s by hv/translate/common_py.py — do not edit *)" % SRC,
           "From Coq Require Import ZArith Bool.", "From HV Require Import F64.", ""]
    for m in ("clip", "reflect", "toroidal"):
        tr = PureTr(SRC, env={"genomes": ("x", "F"), "method": Const(m)}, calls=CALLS, subscripts=_sub)
        body = tr.block(fn.body)
        if "RAISE" in body:
            raise Unsupported(f"{SRC}: method {m} reaches raise")
        out.append(f"Definition apply_bounds_{m} (x lo hi : f64) : f64 :=\n {body}.\n")
    return {"GenCommon.v": "\n".join(out)}, [f"{SRC}:apply_bounds[{m}]" for m in ("clip", "reflect", "toroidal")]
