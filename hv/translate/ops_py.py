"""The per-gene arithmetic of the variational operators and samplers (property C01): GaussianMutation, UniformMutation,
ArithmeticCrossover (sea.py), the DE donors, SHADE's current-to-pbest donor and Crossover (de.py), the LHS / Sobol affine scaling
(lhs_deme.py, sobol_deme.py) and sample_normal's membership test (initializers.py)  ->  Gen/GenOps.v : binary64 functions of ONE gene,
exactly as numpy evaluates the array expression elementwise (left to right, IEEE double).  Random draws (noise, masks, uniform samples,
crossover weights, donors) are arguments.  Proofs/GenEquivOps.v proves them equal to the operator model Model/Ops.v that C01's theorems
are about.  Uses the float expression translator of core.py (PureTr) with per-operator binding of array names to gene variables."""
import ast

from .core import PureTr, Unsupported, find_def
from .driver_py import dotted
from .lazy import Inliner, normalise

OUTPUTS = ["GenOps.v"]
SEA, DE, LHS, SOBOL, INIT = ("pyhms/demes/single_pop_eas/sea.py", "pyhms/demes/single_pop_eas/de.py", "pyhms/demes/lhs_deme.py", "pyhms/demes/sobol_deme.py",
                             "pyhms/initializers.py")


def ret_of(fn, src):
    body = [s_ for s_ in fn.body if not (isinstance(s_, ast.Expr) and isinstance(s_.value, ast.Constant))]
    if not body or not isinstance(body[-1], ast.Return) or body[-1].value is None:
        raise Unsupported(f"{src}:{fn.lineno}: {fn.name} does not end with `return <value>`")
    return body[-1]


class GTr(PureTr):
    """gene view of (inlined) numpy expressions: what one gene of the array is.  Random draws are recognised by the CALL that makes them and
    become the oracle arguments of the generated function; `pop` is the name of the population parameter (its genomes are the gene x)."""

    def __init__(self, src, pop="population", names=None, calls=None):
        super().__init__(src, env={}, calls=calls or {})
        self.pop, self.names = pop, names or {}

    def is_pop_genomes(self, e):
        txt = ast.unparse(e)
        return txt in (f"{self.pop}.genomes", f"{self.pop}.copy().genomes")

    def expr(self, e):
        txt = ast.unparse(e)
        if txt in self.names:
            return self.names[txt]
        if self.is_pop_genomes(e):
            return ("x", "F")
        if isinstance(e, ast.Call):
            d = dotted(e.func)
            if d == "np.random.normal":
                return ("noise", "F")
            if d == "np.random.uniform" and [ast.unparse(a) for a in e.args[:2]] == ["self.lower_bounds", "self.upper_bounds"]:
                return ("sample", "F")
            if d == "np.random.uniform" and [ast.unparse(a) for a in e.args[:2]] == ["0.5", "1"]:
                return ("f", "F")          # the dither: one scaling factor per individual
            if d == "np.random.rand" and not e.args:
                return ("a", "F")          # the crossover weight alpha
            if d == "np.repeat" and e.args:
                return self.expr(e.args[0])     # broadcast of a per-individual value over the genes
            if d in ("self.sampler.random",):
                return ("s", "F")
        if isinstance(e, ast.Compare) and len(e.ops) == 1 and isinstance(e.ops[0], (ast.Lt, ast.LtE)) and isinstance(e.comparators[0], (ast.Attribute, ast.Name)):
            l = e.left
            if isinstance(l, ast.Call) and dotted(l.func) in ("np.random.rand",):
                return ("mask", "B")       # a random boolean mask (np.random.rand(...) < probability)
        if isinstance(e, ast.Subscript):
            sl = e.slice
            if isinstance(sl, ast.Tuple) and len(sl.elts) == 2 and isinstance(sl.elts[0], ast.Slice) and sl.elts[0].lower is None and sl.elts[0].upper is None:
                if isinstance(sl.elts[1], ast.Attribute) and dotted(sl.elts[1]) == "np.newaxis":
                    return self.expr(e.value)
                if isinstance(sl.elts[1], ast.Constant) and isinstance(sl.elts[1].value, int):
                    k = sl.elts[1].value
                    if ast.unparse(e.value) == f"select_parents({self.pop})":
                        return (f"r{k}", "F")
                    if ast.unparse(e.value).endswith(".bounds"):
                        return (("lo", "hi")[k], "F") if k in (0, 1) else self.bad(e, "bounds column")
                    if "select_parents" in ast.unparse(e.value):
                        return (f"ra", "F")      # a donor drawn from the population merged with SHADE's archive
            if self.is_pop_genomes(e.value):
                if isinstance(sl, ast.Name) and sl.id == "i":
                    return ("x", "F")
                if isinstance(sl, ast.BinOp) and ast.unparse(sl) == "i + 1":
                    return ("y", "F")
                return ("pb", "F")       # the genomes of other individuals picked by an index array (SHADE's p-best)
        if isinstance(e, ast.Attribute) and dotted(e) == "self.f":
            return ("f", "F")
        if isinstance(e, ast.BinOp) and isinstance(e.op, ast.Mult):
            # bool array * float array: numpy converts True / False to 1.0 / 0.0
            a = self.expr(e.left)
            if isinstance(a, tuple) and a[1] == "B":
                b = self.expr(e.right)
                if isinstance(b, tuple) and b[1] == "F":
                    return (f"(fmul (if {a[0]} then fone else (fzero false)) {b[0]})", "F")
        if isinstance(e, ast.Constant) and isinstance(e.value, int) and not isinstance(e.value, bool) and e.value == 1:
            return ("fone", "F")
        return super().expr(e)


def np_where(tr, node, args, kw):
    (m, mt), (a, at), (b, bt) = args
    if mt != "B" or at != "F" or bt != "F":
        tr.bad(node, "np.where typing")
    return f"(np_where {m} {a} {b})", "F"


def np_clip(tr, node, args, kw):
    if len(args) != 3 or any(t != "F" for _, t in args):
        tr.bad(node, "np.clip typing")
    return "(np_clip " + " ".join(c for c, _ in args) + ")", "F"


def apply_bounds_raw(method):
    """apply_bounds(<genes>, <population>.problem.bounds, [method=]"<method>")"""
    def f(tr, node):
        args = node.args
        kw = {k.arg: k.value for k in node.keywords}
        m = kw.get("method") or (args[2] if len(args) > 2 else None)
        if not (isinstance(m, ast.Constant) and m.value == method) or len(args) < 2 or not ast.unparse(args[1]).endswith(".problem.bounds"):
            tr.bad(node, f"apply_bounds call (expected the population's problem bounds and method {method})")
        c, t = tr.expr(args[0])
        if t != "F":
            tr.bad(node, "apply_bounds argument")
        return f"(apply_bounds_{method} {c} lo hi)", "F"
    return f


def sink_update_genome(fn, src):
    calls = [s_ for s_ in ast.walk(fn) if isinstance(s_, ast.Expr) and isinstance(s_.value, ast.Call) and isinstance(s_.value.func, ast.Attribute)
             and s_.value.func.attr == "update_genome" and len(s_.value.args) == 1]
    if len(calls) != 1:
        raise Unsupported(f"{src}:{fn.lineno}: {fn.name} calls update_genome {len(calls)} times")
    return calls[0].value.args[0], calls[0]


def translate(repo):
    out = ["(* GENERATED from sea.py, de.py, lhs_deme.py, sobol_deme.py, initializers.py by hv/translate/ops_py.py — do not edit *)",
           "From Coq Require Import ZArith Bool.", "From HV Require Import F64 GenCommon.", ""]
    fns = []
    smod, dmod = ast.parse(open(f"{repo}/{SEA}").read()), ast.parse(open(f"{repo}/{DE}").read())
    CALLS = {"np.where": np_where, "np.clip": np_clip}

    def G(src, pop="population", names=None, method=None):
        tr = GTr(src, pop, names=names, calls=CALLS)
        tr.rawcalls = {"apply_bounds": apply_bounds_raw(method)} if method else {}
        return tr

    def popname(fn):
        return fn.args.args[1].arg

    # ---- GaussianMutation / UniformMutation: what is handed to update_genome
    fn = find_def(smod, "__call__", "GaussianMutation")
    e, st = sink_update_genome(fn, SEA)
    c, t = G(SEA, popname(fn), method="toroidal").expr(Inliner(fn, SEA).inline(e, st))
    out.append(f"Definition gen_gaussian_gene (x noise : f64) (mask : bool) (lo hi : f64) : f64 :=\n  {c}.\n")
    fns.append(f"{SEA}:GaussianMutation.__call__[gene]")
    fn = find_def(smod, "__call__", "UniformMutation")
    e, st = sink_update_genome(fn, SEA)
    c, t = G(SEA, popname(fn)).expr(Inliner(fn, SEA).inline(e, st))
    out.append(f"Definition gen_uniform_gene (mask : bool) (sample x : f64) : f64 :=\n  {c}.\n")
    fns.append(f"{SEA}:UniformMutation.__call__[gene]")

    # ---- ArithmeticCrossover: the two blended children (inside the pair loop), then np.clip of everything to the box
    fn = find_def(smod, "__call__", "ArithmeticCrossover")
    inl = Inliner(fn, SEA)
    blends = [s_ for s_ in ast.walk(fn) if isinstance(s_, ast.Assign) and len(s_.targets) == 1 and isinstance(s_.targets[0], ast.Subscript)
              and isinstance(s_.value, ast.BinOp) and isinstance(s_.value.op, ast.Add)]
    blends.sort(key=lambda s_: s_.lineno)
    if len(blends) != 2 or [ast.unparse(b.targets[0].slice) for b in blends] != ["i", "i + 1"]:
        raise Unsupported(f"{SEA}:{fn.lineno}: ArithmeticCrossover: the two blend assignments new[i] = ..., new[i + 1] = ...")
    cs = [G(SEA, popname(fn)).expr(inl.inline(b.value, b)) for b in blends]
    clips = [s_ for s_ in ast.walk(fn) if isinstance(s_, ast.Assign) and isinstance(s_.value, ast.Call) and dotted(s_.value.func) == "np.clip" and len(s_.value.args) == 3]
    if len(clips) != 1:
        raise Unsupported(f"{SEA}:{fn.lineno}: ArithmeticCrossover no longer clips its offspring (np.clip)")
    lo_hi = [ast.unparse(inl.inline(a, clips[0])) for a in clips[0].value.args[1:]]
    if lo_hi != [f"{popname(fn)}.problem.bounds[:, 0]", f"{popname(fn)}.problem.bounds[:, 1]"]:
        raise Unsupported(f"{SEA}:{clips[0].lineno}: ArithmeticCrossover clips to {lo_hi}, not to the columns of population.problem.bounds")
    upd, st = sink_update_genome(fn, SEA)
    if ast.dump(inl.inline(upd, st)) != ast.dump(inl.inline(clips[0].value, clips[0])):
        raise Unsupported(f"{SEA}:{st.lineno}: ArithmeticCrossover hands update_genome something else than the clipped offspring")
    out.append(f"Definition gen_arith_first (a x y : f64) : f64 :=\n  {cs[0][0]}.\n")
    out.append(f"Definition gen_arith_second (a x y : f64) : f64 :=\n  {cs[1][0]}.\n")
    out.append("Definition gen_arith_clip (v lo hi : f64) : f64 :=\n  (np_clip v lo hi).\n")
    fns.append(f"{SEA}:ArithmeticCrossover.__call__[gene]")

    # ---- DE operators: the genome array of the Population they return
    def returned_genomes(cls):
        fn = find_def(dmod, "__call__", cls)
        r = ret_of(fn, DE)
        e = Inliner(fn, DE).inline(r.value, r)
        if not (isinstance(e, ast.Call) and dotted(e.func) == "Population" and len(e.args) == 3):
            raise Unsupported(f"{DE}:{fn.lineno}: {cls}.__call__ does not return Population(new_genomes, new_fitness, problem)")
        return fn, e.args[0]

    for cls, fname in (("BinaryMutation", "gen_de_donor"), ("BinaryMutationWithDither", "gen_de_dither_donor")):
        fn, g = returned_genomes(cls)
        if not (isinstance(g, ast.Call) and dotted(g.func) == "apply_bounds" and g.args):
            raise Unsupported(f"{DE}:{fn.lineno}: {cls} does not repair its donor with apply_bounds")
        c, t = G(DE, popname(fn)).expr(g.args[0])
        c2, t2 = G(DE, popname(fn), names={ast.unparse(g.args[0]): ("donor", "F")}, method="reflect").expr(g)
        out.append(f"Definition {fname} (f r0 r1 r2 : f64) : f64 :=\n  {c}.\n")
        out.append(f"Definition {fname}_repair (donor lo hi : f64) : f64 :=\n  {c2}.\n")
        fns.append(f"{DE}:{cls}.__call__[gene]")
    fn, g = returned_genomes("CurrentToPBestMutation")
    if not (isinstance(g, ast.Call) and dotted(g.func) == "apply_bounds" and g.args):
        raise Unsupported(f"{DE}:{fn.lineno}: CurrentToPBestMutation does not repair its donor with apply_bounds")
    c, t = G(DE, popname(fn), names={"f": ("f", "F")}).expr(g.args[0])
    c2, t2 = G(DE, popname(fn), names={ast.unparse(g.args[0]): ("donor", "F")}, method="reflect").expr(g)
    out.append(f"Definition gen_pbest_donor (f x pb r0 ra : f64) : f64 :=\n  {c}.\n")
    out.append(f"Definition gen_pbest_repair (donor lo hi : f64) : f64 :=\n  {c2}.\n")
    fns.append(f"{DE}:CurrentToPBestMutation.__call__[gene]")
    fn, g = returned_genomes("Crossover")
    mutn = fn.args.args[2].arg
    c, t = G(DE, popname(fn), names={f"{mutn}.genomes": ("donor", "F")}).expr(g)
    c = c.replace("(np_where mask ", "(np_where take ")
    out.append(f"Definition gen_de_crossover_gene (take : bool) (donor x : f64) : f64 :=\n  {c}.\n")
    fns.append(f"{DE}:Crossover.__call__[gene]")

    # ---- LHS / Sobol: the genomes the Individuals are built from; lower / upper bounds are the columns of config.bounds
    for src, cls in ((LHS, "LHSDeme"), (SOBOL, "SobolDeme")):
        mod = ast.parse(open(f"{repo}/{src}").read())
        init = find_def(mod, "__init__", cls)
        lo = [s_ for s_ in ast.walk(init) if isinstance(s_, ast.Assign) and ast.unparse(s_.targets[0]) == "self.lower_bounds"]
        hi = [s_ for s_ in ast.walk(init) if isinstance(s_, ast.Assign) and ast.unparse(s_.targets[0]) == "self.upper_bounds"]
        if len(lo) != 1 or len(hi) != 1 or ast.unparse(Inliner(init, src).inline(lo[0].value, lo[0])) != "deme_init_args.config.bounds[:, 0]" \
                or ast.unparse(Inliner(init, src).inline(hi[0].value, hi[0])) != "deme_init_args.config.bounds[:, 1]":
            raise Unsupported(f"{src}: {cls} lower/upper bounds are not the columns of config.bounds")
        fn = normalise(find_def(mod, "run", cls))
        comps = [n for n in ast.walk(fn) if isinstance(n, ast.ListComp) and isinstance(n.elt, ast.Call) and dotted(n.elt.func) == "Individual"
                 and n.elt.args and isinstance(n.elt.args[0], ast.Name) and isinstance(n.generators[0].target, ast.Name) and n.elt.args[0].id == n.generators[0].target.id]
        if len(comps) != 1:
            raise Unsupported(f"{src}:{fn.lineno}: {cls}.run does not build its Individuals from one array of genomes")
        it = Inliner(fn, src).inline_at(comps[0].generators[0].iter)
        c, t = G(src, names={"self.lower_bounds": ("lo", "F"), "self.upper_bounds": ("hi", "F")}).expr(it)
        out.append(f"Definition gen_{cls}_scale (lo hi s : f64) : f64 :=\n  {c}.\n")
        fns.append(f"{src}:{cls}.run[gene]")

    # ---- sample_normal: in_bounds / create
    imod = ast.parse(open(f"{repo}/{INIT}").read())
    sn = find_def(imod, "sample_normal")
    inner = {n.name: n for n in sn.body if isinstance(n, ast.FunctionDef)}
    from .lazy import return_paths
    ok = "in_bounds" in inner and "create" in inner and ast.unparse(sn.body[-1]) == "return create"
    if ok:
        ib = inner["in_bounds"]
        xn = ib.args.args[0].arg if len(ib.args.args) == 1 else "?"
        seen = {}
        try:
            for conds, e_ in return_paths(ib, INIT):
                if len(conds) != 1 or ast.unparse(conds[0][0]) not in ("bounds is None", "bounds is not None"):
                    ok = False
                    break
                seen[(ast.unparse(conds[0][0]) == "bounds is None") == conds[0][1]] = ast.unparse(e_)
        except Unsupported:
            ok = False
        ok = ok and seen == {True: "True", False: f"np.all({xn} >= bounds[:, 0]) and np.all({xn} <= bounds[:, 1])"}
    if ok:
        cb = [s_ for s_ in inner["create"].body if not (isinstance(s_, ast.Expr) and isinstance(s_.value, ast.Constant))]
        ok = len(cb) == 3 and isinstance(cb[0], ast.Assign) and isinstance(cb[0].targets[0], ast.Name) and ast.unparse(cb[0].value) == "sample()"
        if ok:
            vn = cb[0].targets[0].id
            ok = isinstance(cb[1], ast.While) and not cb[1].orelse and ast.unparse(cb[1].test) == f"not in_bounds({vn})" and [ast.unparse(x) for x in cb[1].body] == [f"{vn} = sample()"] \
                and ast.unparse(cb[2]) == f"return {vn}"
    if not ok:
        raise Unsupported(f"{INIT}:{sn.lineno}: sample_normal is no longer `draw until every coordinate is inside [bounds[:,0], bounds[:,1]]`")
    out.append("Definition gen_in_bounds_gene (x lo hi : f64) : bool :=\n  (andb (fge x lo) (fle x hi)).\n")
    fns.append(f"{INIT}:sample_normal[in_bounds, create]")
    return {"GenOps.v": "\n".join(out)}, fns
