"""The per-gene arithmetic of the variational operators and samplers (property C01): GaussianMutation, UniformMutation,
ArithmeticCrossover (sea.py), the DE donors, SHADE's current-to-pbest donor and Crossover (de.py), the LHS / Sobol affine scaling
(lhs_deme.py, sobol_deme.py) and sample_normal's membership test (initializers.py)  ->  Gen/GenOps.v : binary64 functions of ONE gene,
exactly as numpy evaluates the array expression elementwise (left to right, IEEE double).  Random draws (noise, masks, uniform samples,
crossover weights, donors) are arguments.  Proofs/GenEquivOps.v proves them equal to the operator model Model/Ops.v that C01's theorems
are about.  Uses the float expression translator of core.py (PureTr) with per-operator binding of array names to gene variables."""
import ast

from .core import PureTr, Unsupported, find_def
from .driver_py import dotted

OUTPUTS = ["GenOps.v"]
SEA, DE, LHS, SOBOL, INIT = ("pyhms/demes/single_pop_eas/sea.py", "pyhms/demes/single_pop_eas/de.py", "pyhms/demes/lhs_deme.py", "pyhms/demes/sobol_deme.py",
                             "pyhms/initializers.py")


def assigns(fn, name):
    return [s for s in ast.walk(fn) if isinstance(s, ast.Assign) and len(s.targets) == 1 and ast.unparse(s.targets[0]) == name]


def one(fn, name, src):
    a = assigns(fn, name)
    if len(a) != 1:
        raise Unsupported(f"{src}:{fn.lineno}: {fn.name} assigns {name} {len(a)} times")
    return a[0].value


class GTr(PureTr):
    """array names / subscripted arrays are bound to gene variables through `names` (unparsed source text -> (coq, type))"""

    def __init__(self, src, names, calls=None):
        super().__init__(src, env={}, calls=calls or {})
        self.names = names

    def expr(self, e):
        txt = ast.unparse(e)
        if txt in self.names:
            return self.names[txt]
        if isinstance(e, ast.BinOp) and isinstance(e.op, ast.Mult):
            # bool array * float array: numpy converts True / False to 1.0 / 0.0
            a = self.expr(e.left)
            if not isinstance(a, tuple) or a[1] != "B":
                return super().expr(e)
            b = self.expr(e.right)
            if isinstance(b, tuple) and b[1] == "F":
                return (f"(fmul (if {a[0]} then fone else (fzero false)) {b[0]})", "F")
        if isinstance(e, ast.Constant) and isinstance(e.value, int) and e.value == 1:
            return ("fone", "F")
        return super().expr(e)


def np_where(tr, node, args, kw):
    (m, mt), (a, at), (b, bt) = args
    if mt != "B" or at != "F" or bt != "F":
        tr.bad(node, "np.where typing")
    return f"(np_where {m} {a} {b})", "F"


def np_clip(tr, node, args, kw):
    if len(args) != 3 or any(t != "F" for _, t in args):
        tr.bad(node, "np.clip typing")
    return "(np_clip " + " ".join(c for c, _ in args) + ")", "F"


def apply_bounds_call(method):
    def f(tr, node, args, kw):
        m = kw.get("method") or (args[2] if len(args) > 2 else None)
        mv = getattr(m, "v", None)
        if mv != method or args[0][1] != "F":
            tr.bad(node, f"apply_bounds call (expected method {method})")
        return f"(apply_bounds_{method} {args[0][0]} lo hi)", "F"
    return f


def translate(repo):
    out = ["(* GENERATED from sea.py, de.py, lhs_deme.py, sobol_deme.py, initializers.py by hv/translate/ops_py.py — do not edit *)",
           "From Coq Require Import ZArith Bool.", "From HV Require Import F64 GenCommon.", ""]
    fns = []
    smod, dmod = ast.parse(open(f"{repo}/{SEA}").read()), ast.parse(open(f"{repo}/{DE}").read())
    BOUNDS = {"population.problem.bounds": ("BOUNDS", "X"), "bounds": ("BOUNDS", "X")}

    # ---- GaussianMutation: new_genomes = genomes + binary_mask * noise ; apply_bounds(new_genomes, bounds, method="toroidal")
    fn = find_def(smod, "__call__", "GaussianMutation")
    a = assigns(fn, "new_genomes")
    if len(a) != 2:
        raise Unsupported(f"{SEA}:{fn.lineno}: GaussianMutation assigns new_genomes {len(a)} times")
    a.sort(key=lambda s: s.lineno)
    names = {"new_population.genomes": ("x", "F"), "binary_mask": ("mask", "B"), "noise": ("noise", "F"), **BOUNDS}
    c1, t1 = GTr(SEA, names).expr(a[0].value)
    tr = GTr(SEA, {"new_genomes": (c1, "F"), **BOUNDS}, calls={"apply_bounds": apply_bounds_call("toroidal")})
    c2, t2 = tr.expr(a[1].value)
    out.append(f"Definition gen_gaussian_gene (x noise : f64) (mask : bool) (lo hi : f64) : f64 :=\n  {c2}.\n")
    fns.append(f"{SEA}:GaussianMutation.__call__[gene]")

    # ---- UniformMutation: np.where(rand < p, new_genomes, population_copy.genomes)
    fn = find_def(smod, "__call__", "UniformMutation")
    a = sorted(assigns(fn, "new_genomes"), key=lambda s: s.lineno)
    if len(a) != 2 or dotted(a[0].value.func) != "np.random.uniform" or [ast.unparse(x) for x in a[0].value.args] != ["self.lower_bounds", "self.upper_bounds"]:
        raise Unsupported(f"{SEA}:{fn.lineno}: UniformMutation no longer samples np.random.uniform(self.lower_bounds, self.upper_bounds, ...)")
    w = a[1].value
    if not (isinstance(w, ast.Call) and dotted(w.func) == "np.where" and len(w.args) == 3 and isinstance(w.args[0], ast.Compare)):
        raise Unsupported(f"{SEA}:{fn.lineno}: UniformMutation is not np.where(<random mask>, sample, parent)")
    names = {ast.unparse(w.args[0]): ("mask", "B"), "new_genomes": ("sample", "F"), "population_copy.genomes": ("x", "F")}
    c, t = GTr(SEA, names, calls={"np.where": np_where}).expr(w)
    out.append(f"Definition gen_uniform_gene (mask : bool) (sample x : f64) : f64 :=\n  {c}.\n")
    fns.append(f"{SEA}:UniformMutation.__call__[gene]")

    # ---- ArithmeticCrossover: alpha * g[i] + (1 - alpha) * g[i+1], (1 - alpha) * g[i] + alpha * g[i+1], then np.clip to the box
    fn = find_def(smod, "__call__", "ArithmeticCrossover")
    names = {"alpha": ("a", "F"), "genomes[i]": ("x", "F"), "genomes[i + 1]": ("y", "F")}
    pair = [s for s in ast.walk(fn) if isinstance(s, ast.Assign) and ast.unparse(s.targets[0]) in ("new_genomes[i]", "new_genomes[i + 1]") and isinstance(s.value, ast.BinOp)]
    if len(pair) != 2:
        raise Unsupported(f"{SEA}:{fn.lineno}: ArithmeticCrossover blend assignments")
    pair.sort(key=lambda s: s.lineno)
    cs = [GTr(SEA, names).expr(s.value) for s in pair]
    clip = [s for s in assigns(fn, "new_genomes") if isinstance(s.value, ast.Call) and dotted(s.value.func) == "np.clip"]
    if len(clip) != 1 or [ast.unparse(x) for x in clip[0].value.args] != ["new_genomes", "bounds[:, 0]", "bounds[:, 1]"] or ast.unparse(one(fn, "bounds", SEA)) != "population.problem.bounds":
        raise Unsupported(f"{SEA}:{fn.lineno}: ArithmeticCrossover no longer clips the offspring to population.problem.bounds")
    cl = GTr(SEA, {"new_genomes": ("v", "F"), "bounds[:, 0]": ("lo", "F"), "bounds[:, 1]": ("hi", "F")}, calls={"np.clip": np_clip}).expr(clip[0].value)
    out.append(f"Definition gen_arith_first (a x y : f64) : f64 :=\n  {cs[0][0]}.\n")
    out.append(f"Definition gen_arith_second (a x y : f64) : f64 :=\n  {cs[1][0]}.\n")
    out.append(f"Definition gen_arith_clip (v lo hi : f64) : f64 :=\n  {cl[0]}.\n")
    fns.append(f"{SEA}:ArithmeticCrossover.__call__[gene]")

    # ---- DE donors (BinaryMutation / BinaryMutationWithDither), reflect repair; SHADE's current-to-pbest donor; Crossover
    R = {"randoms[:, 0]": ("r0", "F"), "randoms[:, 1]": ("r1", "F"), "randoms[:, 2]": ("r2", "F")}
    for cls, fname, scal in (("BinaryMutation", "gen_de_donor", "self.f"), ("BinaryMutationWithDither", "gen_de_dither_donor", "scaling")):
        fn = find_def(dmod, "__call__", cls)
        d = one(fn, "donor", DE)
        c, t = GTr(DE, {**R, scal: ("f", "F")}).expr(d)
        rep = one(fn, "new_genomes", DE)
        c2, t2 = GTr(DE, {"donor": ("donor", "F"), **BOUNDS}, calls={"apply_bounds": apply_bounds_call("reflect")}).expr(rep)
        out.append(f"Definition {fname} (f r0 r1 r2 : f64) : f64 :=\n  {c}.\n")
        out.append(f"Definition {fname}_repair (donor lo hi : f64) : f64 :=\n  {c2}.\n")
        fns.append(f"{DE}:{cls}.__call__[gene]")
    fn = find_def(dmod, "__call__", "CurrentToPBestMutation")
    names = {"population.genomes": ("x", "F"), "population.genomes[p_best_np]": ("pb", "F"), "f": ("f", "F"), "randoms[:, 0]": ("r0", "F"), "randoms_with_archive[:, 1]": ("ra", "F")}
    c, t = GTr(DE, names).expr(one(fn, "mutated_genomes", DE))
    c2, t2 = GTr(DE, {"mutated_genomes": ("donor", "F"), **BOUNDS}, calls={"apply_bounds": apply_bounds_call("reflect")}).expr(one(fn, "new_genomes", DE))
    out.append(f"Definition gen_pbest_donor (f x pb r0 ra : f64) : f64 :=\n  {c}.\n")
    out.append(f"Definition gen_pbest_repair (donor lo hi : f64) : f64 :=\n  {c2}.\n")
    fns.append(f"{DE}:CurrentToPBestMutation.__call__[gene]")
    fn = find_def(dmod, "__call__", "Crossover")
    w = one(fn, "new_genomes", DE)
    if not (isinstance(w, ast.Call) and dotted(w.func) == "np.where" and len(w.args) == 3 and isinstance(w.args[0], ast.Compare)):
        raise Unsupported(f"{DE}:{fn.lineno}: Crossover is not np.where(<random mask>, mutated, parent)")
    c, t = GTr(DE, {ast.unparse(w.args[0]): ("take", "B"), "mutated_population.genomes": ("donor", "F"), "population.genomes": ("x", "F")}, calls={"np.where": np_where}).expr(w)
    out.append(f"Definition gen_de_crossover_gene (take : bool) (donor x : f64) : f64 :=\n  {c}.\n")
    fns.append(f"{DE}:Crossover.__call__[gene]")

    # ---- LHS / Sobol: genomes = self.lower_bounds + sample * (self.upper_bounds - self.lower_bounds), bounds columns 0 / 1
    for src, cls in ((LHS, "LHSDeme"), (SOBOL, "SobolDeme")):
        mod = ast.parse(open(f"{repo}/{src}").read())
        init = find_def(mod, "__init__", cls)
        if ast.unparse(one(init, "self.lower_bounds", src)) != "config.bounds[:, 0]" or ast.unparse(one(init, "self.upper_bounds", src)) != "config.bounds[:, 1]":
            raise Unsupported(f"{src}: {cls} lower/upper bounds are not the columns of config.bounds")
        fn = find_def(mod, "run", cls)
        c, t = GTr(src, {"self.lower_bounds": ("lo", "F"), "self.upper_bounds": ("hi", "F"), "sample": ("s", "F")}).expr(one(fn, "genomes", src))
        out.append(f"Definition gen_{cls}_scale (lo hi s : f64) : f64 :=\n  {c}.\n")
        fns.append(f"{src}:{cls}.run[gene]")

    # ---- sample_normal: in_bounds / create
    imod = ast.parse(open(f"{repo}/{INIT}").read())
    sn = find_def(imod, "sample_normal")
    inner = {n.name: n for n in sn.body if isinstance(n, ast.FunctionDef)}
    want_in = "if bounds is None:\n    return True\nelse:\n    return np.all(x >= bounds[:, 0]) and np.all(x <= bounds[:, 1])"
    want_cr = "x = sample()\nwhile not in_bounds(x):\n    x = sample()\nreturn x"
    got_in = "\n".join(ast.unparse(s) for s in inner.get("in_bounds", ast.parse("pass")).body)
    got_cr = "\n".join(ast.unparse(s) for s in inner.get("create", ast.parse("pass")).body)
    if got_in != want_in or got_cr != want_cr or ast.unparse(sn.body[-1]) != "return create":
        raise Unsupported(f"{INIT}:{sn.lineno}: sample_normal is no longer `draw until every coordinate is inside [bounds[:,0], bounds[:,1]]`")
    out.append("Definition gen_in_bounds_gene (x lo hi : f64) : bool :=\n  (andb (fge x lo) (fle x hi)).\n")
    fns.append(f"{INIT}:sample_normal[in_bounds, create]")
    return {"GenOps.v": "\n".join(out)}, fns
