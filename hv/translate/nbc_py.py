"""pyhms/utils/clusterization.py: NearestBetterClustering.__init__ / cluster / distances / _prepare_spanning_tree / _find_nearest_better /
_find_root_nodes  ->  Gen/GenNBC.v, over the vocabulary of Model/NBC.v: individuals are positions in the best-first sorted, truncated
list; gs = their goodness keys; D i j = the key of the norm numpy computes between positions i and j; thr = the key of
mean * distance_factor * correction.  Each method is taken apart piece by piece (after inlining of temporaries) and every piece decides one
ingredient of the generated definition: how the candidates of an individual are chosen (tie with the root by `==` on Individuals = equal
fitness; otherwise everything in front of its first equal), that the nearest is the first arg-min of the norms, that an edge is cut when
it is STRICTLY longer than the threshold, that the result lists the root first and the cut nodes in insertion order."""
import ast

from .core import Unsupported, find_def
from .driver_py import dotted
from .lazy import Inliner, canon, normalise

OUTPUTS = ["GenNBC.v"]
SRC = "pyhms/utils/clusterization.py"
CLS = "NearestBetterClustering"


def bad(node, what):
    raise Unsupported(f"{SRC}:{getattr(node, 'lineno', '?')}: {CLS}: {what}: {ast.unparse(node)[:160] if isinstance(node, ast.AST) else node}")


def u(e):
    return ast.unparse(canon(e))


def translate(repo):
    mod = ast.parse(open(f"{repo}/{SRC}").read())
    # ------------------------------------------------ __init__: best-first sort, truncation to int(len * factor)
    fn = find_def(mod, "__init__", CLS)
    inl = Inliner(fn, SRC)
    ind_assign = [s for s in fn.body if isinstance(s, ast.Assign) and u(s.targets[0]) == "self.individuals"]
    if len(ind_assign) != 1:
        bad(fn, "__init__ assigns self.individuals %d times" % len(ind_assign))
    v = inl.inline(ind_assign[0].value, ind_assign[0])
    a0 = fn.args.args[1].arg
    srt = f"sorted({a0}, reverse=True)"
    if u(v) != f"{srt}[:int(len({srt}) * truncation_factor)]":
        bad(v, "self.individuals is not sorted(evaluated, reverse=True)[: int(len(sorted) * truncation_factor)]")
    others = [s for s in fn.body if isinstance(s, ast.Assign) and isinstance(s.targets[0], ast.Attribute) and u(s.targets[0]) not in ("self.individuals", "self.tree", "self.distance_factor", "self.use_correction")]
    if others or not any(u(s) == "self.tree = Tree()" for s in fn.body):
        bad(fn, "__init__ sets more than individuals / an empty tree / the two factors")

    # ------------------------------------------------ _find_nearest_better: first arg-min of the norms to the candidates
    fn = normalise(find_def(mod, "_find_nearest_better", CLS))
    an = [x.arg for x in fn.args.args]
    if len(an) != 3:
        bad(fn, "_find_nearest_better signature")
    inl = Inliner(fn, SRC)
    ret = [s for s in fn.body if isinstance(s, ast.Return)]
    if len(ret) != 1 or not isinstance(ret[0].value, ast.Tuple) or len(ret[0].value.elts) != 2:
        bad(fn, "_find_nearest_better does not return (distance, individual)")
    d_e, p_e = (inl.inline(x, ret[0]) for x in ret[0].value.elts)
    norms = f"np.linalg.norm({an[1]}.genome - np.array([_c0.genome for _c0 in {an[2]}]), axis=1)"
    if u(d_e) != f"{norms}[np.argmin({norms})]" or u(p_e) != f"{an[2]}[np.argmin({norms})]":
        bad(ret[0], "_find_nearest_better is not (norms[argmin(norms)], better[argmin(norms)]) with norms = np.linalg.norm(ind.genome - genomes of the candidates, axis=1)")

    # ------------------------------------------------ _prepare_spanning_tree
    fn = normalise(find_def(mod, "_prepare_spanning_tree", CLS))
    inl = Inliner(fn, SRC)
    body = [s for s in fn.body if not (isinstance(s, ast.Expr) and isinstance(s.value, ast.Constant))]
    loops = [s for s in body if isinstance(s, ast.For)]
    if len(loops) != 1 or u(loops[0].iter) != "self.individuals[1:]" or not isinstance(loops[0].target, ast.Name) or loops[0].orelse:
        bad(fn, "_prepare_spanning_tree does not loop once over self.individuals[1:]")
    lp, iv = loops[0], loops[0].target.id
    # the root node: individuals[0], distance inf, created before the loop
    pre = body[:body.index(lp)]
    roots = [s for s in pre if isinstance(s, ast.Expr) and isinstance(s.value, ast.Call) and u(s.value.func) == "self.tree.create_node"]
    if len(roots) != 1 or body.index(lp) != len(body) - 1:
        bad(fn, "_prepare_spanning_tree: exactly one node (the root) is created before the loop and nothing happens after it")
    kw = {k.arg: inl.inline(k.value, roots[0]) for k in roots[0].value.keywords}
    if roots[0].value.args or u(kw.get("identifier", ast.Constant(0))) != "get_individual_id(self.individuals[0])" or "parent" in kw \
            or u(kw.get("data", ast.Constant(0))) != "{'individual': self.individuals[0], 'distance': np.inf}":
        bad(roots[0], "root node is not create_node(identifier=id(individuals[0]), data={individual: individuals[0], distance: inf})")
    # loop body: candidates, nearest better, node under the parent (a duplicate genome is skipped)
    linl = inl
    cn = None
    for s in ast.walk(lp):
        if isinstance(s, ast.Call) and u(s.func) == "self.tree.create_node":
            cn = s
    if cn is None:
        bad(lp, "no node is created in the loop")
    tries = [s for s in lp.body if isinstance(s, ast.Try)]
    if tries:
        t = tries[0]
        if len(t.body) != 1 or not (isinstance(t.body[0], ast.Expr) and t.body[0].value is cn) or len(t.handlers) != 1 or u(t.handlers[0].type) != "DuplicatedNodeIdError" \
                or [u(x) for x in t.handlers[0].body] != ["pass"] or t.orelse or t.finalbody:
            bad(t, "node creation is not `try: create_node(...) except DuplicatedNodeIdError: pass`")
    stmt_of_cn = tries[0] if tries else next(s for s in lp.body if any(n is cn for n in ast.walk(s)))
    cn_stmt = next(s for s in ast.walk(lp) if isinstance(s, ast.Expr) and s.value is cn)
    kw = {k.arg: linl.inline(k.value, cn_stmt) for k in cn.keywords}
    if cn.args or set(kw) != {"identifier", "data", "parent"} or u(kw["identifier"]) != f"get_individual_id({iv})":
        bad(cn, "loop node is not create_node(identifier=id(ind), data=..., parent=...)")
    data = kw["data"]
    if not (isinstance(data, ast.Dict) and [u(k) for k in data.keys] == ["'individual'", "'distance'"] and u(data.values[0]) == iv):
        bad(data, "node data is not {individual: ind, distance: <distance>}")
    # where do distance and parent come from?  one call of _find_nearest_better(ind, candidates)
    dist_e, par_e = data.values[1], kw["parent"]
    if not (isinstance(par_e, ast.Call) and u(par_e.func) == "get_individual_id" and len(par_e.args) == 1):
        bad(par_e, "parent identifier")
    par_e = par_e.args[0]
    calls = [s for s in lp.body if isinstance(s, ast.Assign) and isinstance(s.value, ast.Call) and u(s.value.func) == "self._find_nearest_better"]
    if len(calls) != 1 or not (isinstance(calls[0].targets[0], ast.Tuple) and len(calls[0].targets[0].elts) == 2 and all(isinstance(x, ast.Name) for x in calls[0].targets[0].elts)):
        bad(lp, "the loop does not call `distance, parent = self._find_nearest_better(ind, candidates)` exactly once")
    dn, pn = (x.id for x in calls[0].targets[0].elts)
    if not (isinstance(dist_e, ast.Name) and dist_e.id == dn and isinstance(par_e, ast.Name) and par_e.id == pn):
        bad(cn, "the node does not store the distance / hang under the parent that _find_nearest_better returned")
    c_args = calls[0].value.args
    if len(c_args) != 2 or calls[0].value.keywords or u(c_args[0]) != iv:
        bad(calls[0], "_find_nearest_better arguments")
    cand = linl.inline(c_args[1], calls[0])

    def cands(e):
        """number of leading individuals offered as candidates (Coq nat expression in gs, i)"""
        if isinstance(e, ast.IfExp):
            return f"(if {test(e.test)} then {cands(e.body)} else {cands(e.orelse)})"
        if u(e) == "[self.individuals[0]]":
            return "1%nat"
        if u(e) == f"self.individuals[:self.individuals.index({iv})]":
            return "(first_eq (nth i gs 0) gs)"          # list.index uses ==, i.e. Individual.__eq__: the first position with an equal fitness
        bad(e, "candidates of an individual")

    def test(t):
        if u(t) in (f"{iv} == self.individuals[0]", f"self.individuals[0] == {iv}"):
            return "(nth i gs 0 =? nth 0 gs 0)"          # Individual.__eq__ = equal fitness
        if isinstance(t, ast.UnaryOp) and isinstance(t.op, ast.Not):
            return f"(negb {test(t.operand)})"
        bad(t, "test on an individual (only `ind == root`, exact equality of fitness, is understood)")
    ncand = cands(cand)

    # ------------------------------------------------ distances / _find_root_nodes / cluster
    fn = normalise(find_def(mod, "distances", CLS))
    r = [s for s in fn.body if isinstance(s, ast.Return)]
    if len(r) != 1 or u(Inliner(fn, SRC).inline(r[0].value, r[0])) != "[_c0.data['distance'] for _c0 in self.tree.all_nodes() if not np.isinf(_c0.data['distance'])]":
        bad(fn, "distances is not the finite edge lengths of all nodes in tree order")
    fn = normalise(find_def(mod, "_find_root_nodes", CLS))
    inl = Inliner(fn, SRC)
    r = [s for s in fn.body if isinstance(s, ast.Return)]
    if len(r) != 1:
        bad(fn, "_find_root_nodes returns in several places")
    v = inl.inline(r[0].value, r[0])
    if not (isinstance(v, ast.ListComp) and len(v.generators) == 1 and u(v.generators[0].iter) == "self.tree.all_nodes()" and isinstance(v.generators[0].target, ast.Name)
            and u(v.elt) == v.generators[0].target.id and len(v.generators[0].ifs) == 1):
        bad(v, "_find_root_nodes is not [node for node in self.tree.all_nodes() if <cut test>]")
    nv = v.generators[0].target.id
    c = v.generators[0].ifs[0]
    mean = "(np.mean(self.distances) if self.distances else 0.0)"
    corr = "(self._get_correction_factor() if self.use_correction else 1)"
    want_thr = f"{mean} * self.distance_factor * {corr}"
    if not (isinstance(c, ast.Compare) and len(c.ops) == 1):
        bad(c, "cut test")
    lhs, rhs, op = u(c.left), u(c.comparators[0]), c.ops[0]
    if lhs == f"{nv}.data['distance']" and rhs == want_thr and isinstance(op, ast.Gt):
        cut = "thr <? nbd_"
    elif rhs == f"{nv}.data['distance']" and lhs == want_thr and isinstance(op, ast.Lt):
        cut = "thr <? nbd_"
    else:
        bad(c, "cut test is not `edge length > mean(distances) * distance_factor * correction` (strict; mean 0.0 for a single node)")
    fn = find_def(mod, "cluster", CLS)
    body = [s for s in fn.body if not (isinstance(s, ast.Expr) and isinstance(s.value, ast.Constant))]
    temps = [s for s in body[1:-1] if not (isinstance(s, (ast.Assign, ast.AnnAssign)) and isinstance(s.targets[0] if isinstance(s, ast.Assign) else s.target, ast.Name))]
    if len(body) < 2 or ast.unparse(body[0]) != "self._prepare_spanning_tree()" or temps or not isinstance(body[-1], ast.Return) \
            or u(Inliner(fn, SRC).inline(body[-1].value, body[-1])) != "[_c0.data['individual'] for _c0 in self._find_root_nodes()]":
        bad(fn, "cluster() is not: build the spanning tree, return the individuals of the cut nodes in order")

    out = ["(* GENERATED from pyhms/utils/clusterization.py by hv/translate/nbc_py.py — do not edit *)", "From Coq Require Import ZArith List Bool Arith.",
           "From HV Require Import NBC.", "Import ListNotations.", "Local Open Scope Z_scope.", "", "Section Gen.", "  Variable D : nat -> nat -> Z.",
           "  (* how many leading individuals _prepare_spanning_tree offers to _find_nearest_better for the individual at position i *)",
           f"  Definition gen_ncand (gs : list Z) (i : nat) : nat := {ncand}.",
           "  (* _find_nearest_better: the smallest norm to the candidates 0 .. k-1 and the first position attaining it (np.argmin) *)",
           "  Definition gen_min_dist (i k : nat) : Z := fold_left Z.min (map (D i) (seq 1 (k - 1))) (D i 0).",
           "  Definition gen_argmin (i k : nat) : nat := let d := gen_min_dist i k in fold_right (fun j acc => if D i j =? d then j else acc) O (seq 0 k).",
           "  Definition gen_edge (gs : list Z) (i : nat) : Z := gen_min_dist i (gen_ncand gs i).",
           "  Definition gen_parent (gs : list Z) (i : nat) : nat := gen_argmin i (gen_ncand gs i).",
           "  (* cluster(): the root (edge length inf) and every node whose edge is STRICTLY longer than the threshold, in insertion order *)",
           f"  Definition gen_cluster (gs : list Z) (thr : Z) : list nat := O :: filter (fun i => let nbd_ := gen_edge gs i in {cut}) (seq 1 (length gs - 1)).",
           "  Definition gen_distances (gs : list Z) : list Z := map (gen_edge gs) (seq 1 (length gs - 1)).", "End Gen.",
           "(* __init__: best-first (python's stable sorted(reverse=True) on Individuals), then the first int(len * truncation_factor) *)",
           "Definition gen_individuals {A} (m : nat) (sorted : list A) : list A := firstn m sorted.", ""]
    fns = [f"{SRC}:{CLS}.{m}" for m in ("__init__", "cluster", "distances", "_prepare_spanning_tree", "_find_nearest_better", "_find_root_nodes")]
    return {"GenNBC.v": "\n".join(out)}, fns
