"""pyhms/tree.py (run, run_step, run_metaepoch, run_sprout, _do_sprout, active_demes, active_non_leaves) and the run_metaepoch
methods of the seven deme classes -> Gen/GenDriver.v : programs of the event monad D of Model/DriverPrim.v.

A small compiler for the statement subset those methods use (assignments to locals, += on counters, while / for / if, return,
continue, short-circuit and/or, walrus), fail-closed: anything it does not understand raises Unsupported.  What is NOT translated
to an effect is only what `opaque_ok` accepts: values the machine state does not contain (populations, genomes, messages, ids,
loggers), built from attribute reads and a fixed list of calls that neither evaluate the objective nor touch the state the machine
models.  The binding tables below say which python construct is which primitive; they are part of the trusted base.

On top of the effects, population-valued locals carry a freshness tag (LATEST / STALE): an engine may only be fed the most recent
generation of its deme (property C11); feeding it anything else is a translation error, i.e. a broken obligation.
"""
import ast

from .lazy import normalise
from .core import Unsupported, find_def

OUTPUTS = ["GenDriver.v", "GenDirection.v"]
TREE = "pyhms/tree.py"
INIT = "pyhms/demes/initialize.py"
# deme class -> (file, machine kind, attribute holding the engine, attribute holding the number of generations)
DEMES = {
    "EADeme": ("pyhms/demes/ea_deme.py", "KPop"),
    "DEDeme": ("pyhms/demes/de_deme.py", "KPop"),
    "SHADEDeme": ("pyhms/demes/shade_deme.py", "KPop"),
    "CMADeme": ("pyhms/demes/cma_deme.py", "KCma"),
    "LocalDeme": ("pyhms/demes/local_deme.py", "KLocal"),
    "LHSDeme": ("pyhms/demes/lhs_deme.py", "KSampler"),
    "SobolDeme": ("pyhms/demes/sobol_deme.py", "KSampler"),
}
ENGINE_RUN = {"self._ea.run", "self._de.run", "self._shade.run"}
# calls that may appear in values the machine does not model (no objective evaluation, no modelled state change)
OPAQUE_CALLS = {"Individual", "len", "str", "np.copy", "self._cma_es.ask", "self.sampler.random", "self._values_for_cma",
                "self._get_mutation_std", "self._next_child_id", "max", "min", "enumerate", "zip", "list", "dict", "np.array"}
DROPPED_STMT_CALLS = {"self.log", "self._logger.debug", "self._logger.info", "self._logger.warning", "self._logger.bind", "self._cma_es.tell"}

LATEST, STALE = "latest", "stale"
COQTY = {"nat": "nat", "bool": "bool", "deme": "nat", "ld_list": "(list nat)", "nat_list": "(list nat)", "cmap": "cmap", "cands": "(list Z)",
         "inds": "(list Z)", "ind": "Z", "child": "deme", "levelcfg": "nat", "optres": "nat"}
import re  # noqa: E402
IDENT = re.compile(r"^[A-Za-z_][A-Za-z0-9_']*$")
GLOBALS = {"true", "false", "tt"}


def dotted(f):
    parts = []
    while isinstance(f, ast.Attribute):
        parts.append(f.attr)
        f = f.value
    if isinstance(f, ast.Name):
        parts.append(f.id)
        return ".".join(reversed(parts))
    return None


class V:
    """a translated value: pure Gallina code over the names bound so far + a type; opaque values have no code"""

    def __init__(self, code, ty, tag=None, deps=None):
        self.code, self.ty, self.tag = code, ty, tag
        if deps is None:
            deps = {(code, COQTY[ty])} if ty in COQTY and IDENT.match(code or "") else set()
        self.deps = deps

    def __repr__(self):
        return f"V({self.code!r},{self.ty},{self.tag})"


def opaque(tag=None):
    return V("", "opaque", tag)


class Alias:
    """a local that only names a per-deme constant (self._generations): uses are translated as the attribute read itself, so hoisting the
    lookup out of a loop does not change the translated program (the attribute is assigned nowhere in the translated methods)"""

    def __init__(self, node):
        self.node = node


class MTr:
    def __init__(self, src, ctx, cls=None, fname="gen"):
        self.src, self.ctx, self.cls, self.fname = src, ctx, cls, fname
        self.aux = []  # closure-converted loop conditions and bodies, emitted before the function itself
        self.n = 0
        self.produced = False  # has an engine iteration happened since the deme's history was last appended to?
        self.loop_locals = None  # names carried by the innermost while loop (for `return` inside it)
        self.in_for = False

    # ------------------------------------------------------------------ helpers
    def bad(self, node, what):
        try:
            dump = ast.unparse(node)
        except Exception:
            dump = ast.dump(node)
        raise Unsupported(f"{self.src}:{getattr(node, 'lineno', '?')}: unsupported {what}: {dump[:160]}")

    def params(self, env, exclude=(), text=None):
        """the locals in scope that the loop body (its generated `text`) actually mentions, in the order in which they were introduced
        (so that neither renaming a local nor adding one the loop does not use changes the signature of the generated loop function)"""
        ps = []
        for v in env.values():
            if isinstance(v, V) and v.ty != "opaque":
                for dp in sorted(v.deps):
                    if dp[0] not in GLOBALS and dp[0] not in exclude and dp not in ps and (text is None or re.search(r"(?<![A-Za-z0-9_'])" + re.escape(dp[0]) + r"(?![A-Za-z0-9_'])", text)):
                        ps.append(dp)
        decl = "(c : cfg) (fuel : nat) " + ("(d : nat) " if self.ctx == "deme" else "") + "".join(f"({n} : {t}) " for n, t in ps)
        use = "c fuel " + ("d " if self.ctx == "deme" else "") + "".join(f"{n} " for n, _ in ps)
        return decl, use

    def fresh(self, base="x"):
        self.n += 1
        return f"{base}{self.n}"

    def opaque_ok(self, e, env):
        """True iff evaluating e cannot evaluate the objective or change modelled state: no calls outside OPAQUE_CALLS (plus
        .append/.extend on opaque locals, and the dropped logging calls), no walrus"""
        for n in ast.walk(e):
            if isinstance(n, ast.NamedExpr):
                return False
            if isinstance(n, (ast.Lambda, ast.Await, ast.Yield, ast.YieldFrom)):
                return False
            if isinstance(n, ast.Call):
                d = dotted(n.func)
                if d in OPAQUE_CALLS or d in DROPPED_STMT_CALLS:
                    continue
                if isinstance(n.func, ast.Attribute) and n.func.attr in ("append", "extend") and isinstance(n.func.value, ast.Name) \
                        and isinstance(env.get(n.func.value.id), V) and env[n.func.value.id].ty == "opaque":
                    continue
                return False
        return True

    # ------------------------------------------------------------------ expressions: returns (pre lines, V)
    def read(self, pre):
        s = self.fresh("s")
        pre.append(f"{s} <- get_st ;;")
        return s

    def expr(self, e, env):
        pre = []
        v = self._expr(e, env, pre)
        return pre, v

    def as_mon(self, e, env, want):
        """a D <want> term for expression e (used for the operands of short-circuit operators)"""
        env2 = dict(env)
        pre, v = self.expr(e, env2)
        if v.ty != want:
            self.bad(e, f"operand of type {v.ty}, expected {want}")
        return "(" + " ".join(pre) + f" ret {v.code})"

    def _expr(self, e, env, pre):
        if isinstance(e, ast.Name):
            if e.id in env:
                if isinstance(env[e.id], Alias):
                    return self._expr(env[e.id].node, env, pre)     # re-read where it is used
                return env[e.id]
            self.bad(e, "unbound name")
        if isinstance(e, ast.Constant):
            if isinstance(e.value, bool):
                return V("true" if e.value else "false", "bool")
            if isinstance(e.value, int) and 0 <= e.value < 1000:
                return V(str(e.value), "nat")
            return opaque()
        if isinstance(e, ast.JoinedStr):
            if self.opaque_ok(e, env):
                return opaque()
            self.bad(e, "f-string with effects")
        if isinstance(e, ast.NamedExpr):
            v = self._expr(e.value, env, pre)
            if v.ty == "opaque":
                env[e.target.id] = v
                return v
            nm = "v_" + e.target.id
            pre.append(f"let {nm} := {v.code} in")
            env[e.target.id] = V(nm, v.ty)
            return env[e.target.id]
        if isinstance(e, ast.UnaryOp) and isinstance(e.op, ast.Not):
            v = self._expr(e.operand, env, pre)
            if v.ty == "bool":
                return V(f"(negb {v.code})", "bool")
            if v.ty == "opaque":
                return opaque()
            self.bad(e, "not on " + v.ty)
        if isinstance(e, ast.BoolOp):
            return self.boolop(e, env, pre)
        if isinstance(e, ast.Compare) and len(e.ops) == 1:
            return self.compare(e, env, pre)
        if isinstance(e, ast.BinOp) and isinstance(e.op, (ast.Add, ast.Sub)):
            a, b = self._expr(e.left, env, pre), self._expr(e.right, env, pre)
            if a.ty == b.ty == "nat":
                return V(f"({a.code} {'+' if isinstance(e.op, ast.Add) else '-'} {b.code})", "nat")
            if "opaque" in (a.ty, b.ty) and self.opaque_ok(e, env):
                return opaque()
            self.bad(e, "arithmetic")
        if isinstance(e, ast.Attribute):
            return self.attribute(e, env, pre)
        if isinstance(e, ast.Subscript):
            return self.subscript(e, env, pre)
        if isinstance(e, ast.Call):
            return self.call(e, env, pre)
        if isinstance(e, (ast.List, ast.Tuple, ast.ListComp, ast.Dict, ast.IfExp, ast.BinOp, ast.GeneratorExp, ast.DictComp)):
            if not self.opaque_ok(e, env):
                self.bad(e, "expression with effects in a value the model does not contain")
            # the freshness of a list built from one population-valued local is that local's freshness
            tag = None
            names = {n.id for n in ast.walk(e) if isinstance(n, ast.Name) and isinstance(env.get(n.id), V) and env[n.id].tag}
            if len(names) == 1:
                tag = env[names.pop()].tag
            if isinstance(e, (ast.ListComp, ast.GeneratorExp)):
                it = e.generators[0].iter
                if dotted(it) == "self.current_population" and self.ctx == "deme":
                    tag = STALE if self.produced else LATEST
            return opaque(tag)
        self.bad(e, "expression")

    def boolop(self, e, env, pre):
        # pure operands -> andb/orb; an effectful operand -> short-circuit combinators on D bool
        probes = []
        for v in e.values:
            env2, p2 = dict(env), []
            n0 = self.n
            val = self._expr(v, env2, p2)
            self.n = n0
            probes.append((p2, val))
        # reads of the machine state are not effects: only operands that consume events / change state need the short-circuit combinators
        if all(all(ln.endswith("<- get_st ;;") for ln in p) for p, _ in probes):
            vals = [self._expr(v, env, pre) for v in e.values]
            if all(v.ty == "bool" for v in vals):
                op = "andb" if isinstance(e.op, ast.And) else "orb"
                out = vals[0].code
                for v in vals[1:]:
                    out = f"({op} {out} {v.code})"
                return V(out, "bool")
            if self.opaque_ok(e, env):
                return opaque()
            self.bad(e, "boolean operator on non-booleans")
        comb = "and_" if isinstance(e.op, ast.And) else "or_"
        out = self.as_mon(e.values[-1], env, "bool")
        for v in reversed(e.values[:-1]):
            out = f"({comb} {self.as_mon(v, env, 'bool')} {out})"
        x = self.fresh("b")
        pre.append(f"{x} <- {out} ;;")
        return V(x, "bool")

    def compare(self, e, env, pre):
        op, l, r = e.ops[0], e.left, e.comparators[0]
        if isinstance(op, ast.In) and isinstance(l, ast.Constant) and l.value == "hibernation" and dotted(r) == "self.config.options" and self.ctx == "tree":
            return V("(hib_on c)", "bool")
        if isinstance(op, (ast.In, ast.NotIn)) and isinstance(l, ast.Constant) and l.value == "hibernation" and self.ctx == "tree" and isinstance(r, ast.Name) \
                and isinstance(env.get(r.id), V) and env[r.id].ty == "options":
            return V("(hib_on c)" if isinstance(op, ast.In) else "(negb (hib_on c))", "bool")
        a, b = self._expr(l, env, pre), self._expr(r, env, pre)
        if isinstance(op, ast.In) and a.ty == "deme" and b.ty == "cmap":
            return V(f"(in_seeds {b.code} {a.code})", "bool")
        if isinstance(op, ast.NotIn) and a.ty == "deme" and b.ty == "cmap":
            return V(f"(negb (in_seeds {b.code} {a.code}))", "bool")
        if a.ty == b.ty == "nat":
            tab = {ast.Lt: "Nat.ltb {0} {1}", ast.LtE: "Nat.leb {0} {1}", ast.Gt: "Nat.ltb {1} {0}", ast.GtE: "Nat.leb {1} {0}",
                   ast.Eq: "Nat.eqb {0} {1}", ast.NotEq: "negb (Nat.eqb {0} {1})"}
            if type(op) in tab:
                return V("(" + tab[type(op)].format(a.code, b.code) + ")", "bool")
        if self.opaque_ok(e, env) and "opaque" in (a.ty, b.ty):
            return opaque()
        self.bad(e, f"comparison of {a.ty} and {b.ty}")

    def attribute(self, e, env, pre):
        d = dotted(e)
        if self.ctx == "tree" and d is not None:
            if d == "self.metaepoch_count":
                return V(f"(mcount {self.read(pre)})", "nat")
            if d == "self.height":
                return V("(height c)", "nat")
            if d == "self.active_demes":
                return V(f"(gen_active_demes c (demes {self.read(pre)}))", "ld_list")
            if d == "self.active_non_leaves":
                return V(f"(gen_active_non_leaves c (demes {self.read(pre)}))", "ld_list")
            if d == "self.config.options":
                return V("", "options")          # the options dictionary (only "hibernation" is modelled)
            if d == "self.config.levels":
                return V("", "levelscfg")        # the list of level configurations
        if self.ctx == "deme" and d is not None:
            if d in ("self._generations", "self.generations"):
                return V(f"(gens_of c (d_lvl (dnth d (demes {self.read(pre)}))))", "nat")
            if d == "self.current_population":
                return opaque(STALE if self.produced else LATEST)
        base = self._expr(e.value, env, pre) if not (isinstance(e.value, ast.Name) and e.value.id in ("self", "tree") and e.value.id not in env) else opaque()
        if base.ty == "deme":
            fld = {"level": ("d_lvl", "nat"), "_level": ("d_lvl", "nat"), "_hibernating": ("d_hib", "bool"), "is_active": ("d_active", "bool"),
                   "_active": ("d_active", "bool")}.get(e.attr)
            if fld:
                return V(f"({fld[0]} (dnth {base.code} (demes {self.read(pre)})))", fld[1])
            return opaque()
        if base.ty == "cands" and e.attr == "individuals":
            return V(base.code, "inds")
        if base.ty == "optres" and e.attr == "nfev":
            return V(base.code, "nat")
        if base.ty == "opaque":
            return opaque()
        self.bad(e, f"attribute .{e.attr} of {base.ty}")

    def subscript(self, e, env, pre):
        d = dotted(e.value)
        if isinstance(e.value, ast.Name) and isinstance(env.get(e.value.id), V) and env[e.value.id].ty in ("options", "levelscfg"):
            d = "self.config.options" if env[e.value.id].ty == "options" else "self.config.levels"     # a local holding that object
        if self.ctx == "tree" and d in ("self.levels", "self._levels"):
            i = self._expr(e.slice, env, pre)
            if i.ty != "nat":
                self.bad(e, "level index")
            return V(f"(level_ids (demes {self.read(pre)}) {i.code})", "nat_list")
        if self.ctx == "tree" and d == "self.config.levels":
            i = self._expr(e.slice, env, pre)
            if i.ty != "nat":
                self.bad(e, "level index")
            return V(i.code, "levelcfg")
        if self.ctx == "tree" and d == "self.config.options" and isinstance(e.slice, ast.Constant) and e.slice.value == "hibernation":
            return V("(hib_on c)", "bool")
        if self.opaque_ok(e, env):
            return opaque()
        self.bad(e, "subscript")

    def call(self, e, env, pre):
        d = dotted(e.func)
        args = e.args
        if d == "reversed" and len(args) == 1:
            v = self._expr(args[0], env, pre)
            if v.ty in ("ld_list", "nat_list", "inds", "deme_list"):
                return V(f"(rev {v.code})", v.ty)
            self.bad(e, "reversed of " + v.ty)
        if d == "list" and len(args) == 1:
            v = self._expr(args[0], env, pre)
            if v.ty != "opaque":
                return v
        if d == "len" and len(args) == 1:
            v = self._expr(args[0], env, pre)
            if v.ty in ("ld_list", "nat_list", "inds", "cmap", "deme_list"):
                return V(f"(length {v.code})", "nat")
            if v.ty == "opaque":
                return opaque()
        if d == "range" and len(args) in (1, 2):
            vs = [self._expr(a, env, pre) for a in args]
            if all(v.ty == "nat" for v in vs):
                if len(vs) == 1:
                    return V(f"(seq 0 {vs[0].code})", "nat_list")
                return V(f"(seq {vs[0].code} ({vs[1].code} - {vs[0].code}))", "nat_list")
        if isinstance(e.func, ast.Attribute) and e.func.attr == "items" and not args:
            v = self._expr(e.func.value, env, pre)
            if v.ty == "cmap":
                return v
        if self.ctx == "tree":
            if d == "self._gsc" and len(args) == 1 and dotted(args[0]) == "self" and not e.keywords:
                x = self.fresh("g")
                pre.append(f"{x} <- p_gsc c ;;")
                return V(x, "bool")
            if d in ("self.run_step", "self.run_metaepoch", "self.run_sprout") and not args and not e.keywords:
                pre.append(f"gen_tree_{d[5:]} c fuel ;;;")
                return V("tt", "unit")
            if d == "self._do_sprout" and len(args) == 1:
                v = self._expr(args[0], env, pre)
                if v.ty != "cmap":
                    self.bad(e, "_do_sprout argument")
                pre.append(f"gen_tree__do_sprout c fuel {v.code} ;;;")
                return V("tt", "unit")
            if d == "self._sprout_mechanism.get_seeds" and len(args) == 1 and dotted(args[0]) == "self":
                x = self.fresh("seeds")
                pre.append(f"{x} <- p_get_seeds c ;;")
                return V(x, "cmap")
            if d == "self._next_child_id" and self.ctx == "tree" and len(args) == 1 and not e.keywords:
                v = self._expr(args[0], env, pre)
                if v.ty != "deme":
                    self.bad(e, "_next_child_id argument")
                return V(v.code, "childid")       # the id gen_next_child_id computes for a child of that deme (ids are not machine state)
            if d == "init_from_config":
                kw = {k.arg: k.value for k in e.keywords}
                if args or not {"config", "target_level", "metaepoch_count", "sprout_seed", "parent_deme"} <= set(kw):
                    self.bad(e, "init_from_config call shape")
                cfgv, tl, mc = (self._expr(kw[k], env, pre) for k in ("config", "target_level", "metaepoch_count"))
                seed, par = self._expr(kw["sprout_seed"], env, pre), self._expr(kw["parent_deme"], env, pre)
                if (cfgv.ty, tl.ty, mc.ty, seed.ty, par.ty) != ("levelcfg", "nat", "nat", "ind", "deme"):
                    self.bad(e, f"init_from_config argument types {(cfgv.ty, tl.ty, mc.ty, seed.ty, par.ty)}")
                nid = self._expr(kw["new_id"], env, pre) if "new_id" in kw else None
                if nid is None or nid.ty != "childid" or nid.code != par.code:
                    self.bad(e, "init_from_config new_id (must be self._next_child_id(<the parent the child is built for>))")
                for k, val in kw.items():
                    if k not in ("config", "target_level", "metaepoch_count", "sprout_seed", "parent_deme", "new_id") and not self.opaque_ok(val, env):
                        self.bad(e, "init_from_config argument with effects")
                x = self.fresh("ch")
                pre.append(f"{x} <- p_init_from_config {cfgv.code} {tl.code} {mc.code} ;;")
                return V(x, "child")
            if isinstance(e.func, ast.Attribute) and e.func.attr == "run_metaepoch" and len(args) == 1 and dotted(args[0]) == "self":
                v = self._expr(e.func.value, env, pre)
                if v.ty == "deme":
                    pre.append(f"gen_run_deme c fuel {v.code} ;;;")
                    return V("tt", "unit")
            if isinstance(e.func, ast.Attribute) and e.func.attr == "append" and len(args) == 1 and dotted(e.func.value.value if isinstance(e.func.value, ast.Subscript) else None) in ("self._levels", "self.levels"):
                i = self._expr(e.func.value.slice, env, pre)
                ch = self._expr(args[0], env, pre)
                if i.ty == "nat" and ch.ty == "child":
                    if getattr(ch, "joined", False):
                        self.bad(e, "a child appended to the levels twice")
                    pre.append(f"p_append_level {i.code} {ch.code} ;;;")
                    if isinstance(args[0], ast.Name):
                        v2 = V(ch.code, "child")
                        v2.joined = True               # from here on the child is the last deme of the state
                        env[args[0].id] = v2
                    return V("tt", "unit")
                self.bad(e, "append to a level")
        if self.ctx == "deme":
            if d == "tree._gsc" and len(args) == 1 and dotted(args[0]) == "tree":
                x = self.fresh("g")
                pre.append(f"{x} <- p_gsc c ;;")
                return V(x, "bool")
            if d == "self._lsc" and len(args) == 1 and dotted(args[0]) == "self":
                x = self.fresh("l")
                pre.append(f"{x} <- p_lsc c d ;;")
                return V(x, "bool")
            if d == "self._cma_es.stop" and not args:
                x = self.fresh("st")
                pre.append(f"{x} <- p_cma_stop ;;")
                return V(x, "bool")
            if d in ENGINE_RUN and len(args) >= 1:
                a = self._expr(args[0], env, pre)
                self.need_latest(e, a)
                for other in list(args[1:]) + [k.value for k in e.keywords]:
                    if not self.opaque_ok(other, env):
                        self.bad(e, "engine argument with effects")
                self.engine_ran(env)
                pre.append("p_engine_iter d ;;;")
                return opaque(LATEST)
            if d == "Individual.evaluate_population" and len(args) == 1:
                a = self._expr(args[0], env, pre)
                if a.ty != "opaque":
                    self.bad(e, "evaluate_population argument")
                self.engine_ran(env)
                if isinstance(args[0], ast.Name):
                    env[args[0].id] = opaque(LATEST)
                pre.append("p_engine_iter d ;;;")
                return V("tt", "unit")
            if d == "self._history.append" and len(args) == 1:
                if not self.opaque_ok(args[0], env):
                    self.bad(e, "history.append argument with effects")
                self.produced = False
                pre.append("p_append_meta d ;;;")
                return V("tt", "unit")
            if d in ("sopt.minimize", "scipy.optimize.minimize", "optimize.minimize"):
                for other in list(args) + [k.value for k in e.keywords]:
                    if not self.opaque_ok(other, env):
                        self.bad(e, "minimize argument with effects")
                kwm = {k.arg: k.value for k in e.keywords}
                if dotted(kwm.get("bounds")) != "self._bounds" or dotted(kwm.get("callback")) != "self._history_callback":
                    # C01 / C02: the local optimiser is always handed the level's box and the history callback
                    self.bad(e, "scipy.optimize.minimize must be called with bounds=self._bounds and callback=self._history_callback")
                x = self.fresh("n")
                pre.append(f"{x} <- p_local_search ;;")
                return V(x, "optres")
            if d == "self.run" and not args:
                pre.append(f"gen_{self.cls}_run c fuel d ;;;")
                self.produced = False
                return V("tt", "unit")
            if d == "self._values_for_cma" and len(args) == 1 and not e.keywords:
                a = self._expr(args[0], env, pre)
                v = opaque(a.tag)
                v.role = "cmavalues"         # the direction-adjusted fitness values of that population (gen_values_for_cma)
                return v
            if d == "self._cma_es.tell" and len(args) == 2:
                a = self._expr(args[0], env, pre)
                self.need_latest(e, a)
                b = self._expr(args[1], env, pre)
                if getattr(b, "role", None) != "cmavalues" or b.tag != LATEST:
                    # C13 / C04: CMA-ES minimises what it is told
                    self.bad(e, "CMA-ES must be told self._values_for_cma(<the deme's most recent generation>)")
                return opaque()
        if self.opaque_ok(e, env):
            return opaque()
        self.bad(e, "call")

    # ------------------------------------------------------------------ freshness of populations (C11)
    def need_latest(self, node, v):
        if v.ty != "opaque" or v.tag != LATEST:
            self.bad(node, f"engine fed a population that is not the deme's most recent generation (tag {v.tag})")

    def engine_ran(self, env):
        self.produced = True
        for k, v in list(env.items()):
            if isinstance(v, V) and v.tag == LATEST:
                env[k] = V(v.code, v.ty, STALE)

    # ------------------------------------------------------------------ statements (continuation passing)
    @staticmethod
    def has(stmts, kind):
        return any(isinstance(n, kind) for s in stmts for n in ast.walk(s))

    def assigned_tracked(self, stmts, env):
        out = []
        for s in stmts:
            for n in ast.walk(s):
                t = None
                if isinstance(n, ast.AugAssign) and isinstance(n.target, ast.Name):
                    t = n.target.id
                if isinstance(n, ast.Assign) and len(n.targets) == 1 and isinstance(n.targets[0], ast.Name):
                    t = n.targets[0].id
                if t and isinstance(env.get(t), V) and env[t].ty in ("nat", "bool") and t not in out:
                    out.append(t)
        return out

    def block(self, stmts, env, k, ret):
        """code for the statement list followed by k(env); `ret` is the code of a python `return` at this point (a function of env)"""
        if not stmts:
            return k(env)
        s, rest = stmts[0], stmts[1:]
        go = lambda env2: self.block(rest, env2, k, ret)  # noqa: E731
        if isinstance(s, ast.Pass) or (isinstance(s, ast.Expr) and isinstance(s.value, ast.Constant)):
            return go(env)
        if isinstance(s, ast.Return):
            if s.value is not None and not (isinstance(s.value, ast.Constant) and s.value.value is None):
                self.bad(s, "return of a value")
            return ret(env)
        if isinstance(s, ast.Continue):
            if not self.in_for:
                self.bad(s, "continue outside a for loop")
            return "ret false"
        if isinstance(s, ast.FunctionDef):
            if not all(self.opaque_ok(n, env) for n in s.body):
                self.bad(s, "local function with effects")
            env = dict(env)
            env[s.name] = opaque()
            return go(env)
        if isinstance(s, ast.AnnAssign) and s.value is not None and isinstance(s.target, ast.Name):
            s = ast.copy_location(ast.Assign(targets=[s.target], value=s.value), s)
        if isinstance(s, ast.Assign) and len(s.targets) == 1:
            t = s.targets[0]
            env = dict(env)
            if isinstance(t, ast.Name) and self.ctx == "deme" and dotted(s.value) in ("self._generations", "self.generations"):
                env[t.id] = Alias(s.value)
                return go(env)
            if isinstance(t, ast.Name):
                pre, v = self.expr(s.value, env)
                if v.ty in ("opaque", "childid", "options", "levelscfg"):
                    env[t.id] = v
                    return " ".join(pre) + " " + go(env)
                if not pre and v.ty in ("bool", "nat") and not re.search(r"\b(s\d+|v_\w+|it\d+|n\d+|b\d+|ch\d+|x\d+)\b", v.code):
                    # a value of the configuration alone (no state, no local): used where it is mentioned, so hoisting it out of a loop
                    # or naming it does not change the translated program
                    env[t.id] = V(v.code, v.ty)
                    return go(env)
                nm = "v_" + t.id
                env[t.id] = V(nm, v.ty)
                return " ".join(pre) + f" let {nm} := {v.code} in\n  " + go(env)
            d = dotted(t)
            if self.ctx == "deme" and d == "self._active" and isinstance(s.value, ast.Constant) and s.value.value is False:
                return "p_deactivate d ;;;\n  " + go(env)
            if self.ctx == "deme" and d in ("self._centroid",):
                if self.opaque_ok(s.value, env):
                    return go(env)
            if self.ctx == "tree" and d == "self._logger" and self.opaque_ok(s.value, env):
                return go(env)
            if self.ctx == "tree" and isinstance(t, ast.Attribute) and t.attr == "_hibernating" and isinstance(s.value, ast.Constant) and isinstance(s.value.value, bool):
                pre, v = self.expr(t.value, env)
                if v.ty == "deme":
                    return " ".join(pre) + f" p_set_hibernating {v.code} {'true' if s.value.value else 'false'} ;;;\n  " + go(env)
            if self.ctx == "tree" and isinstance(t, ast.Attribute) and t.attr == "_hibernating":
                pre, v = self.expr(t.value, env)
                pre2, b = self.expr(s.value, env)
                if v.ty == "deme" and b.ty == "bool":
                    return " ".join(pre + pre2) + f" p_set_hibernating {v.code} {b.code} ;;;\n  " + go(env)
            self.bad(s, "assignment target")
        if isinstance(s, ast.AugAssign) and isinstance(s.op, ast.Add):
            env = dict(env)
            d = dotted(s.target)
            if isinstance(s.target, ast.Name) and isinstance(env.get(s.target.id), V) and env[s.target.id].ty == "nat":
                pre, v = self.expr(s.value, env)
                if v.ty != "nat":
                    self.bad(s, "increment")
                nm = "v_" + s.target.id
                old = env[s.target.id].code
                env[s.target.id] = V(nm, "nat")
                return " ".join(pre) + f" let {nm} := ({old} + {v.code}) in\n  " + go(env)
            if self.ctx == "tree" and d == "self.metaepoch_count" and isinstance(s.value, ast.Constant) and s.value.value == 1:
                return "p_inc_metaepoch c ;;;\n  " + go(env)
            if self.ctx == "deme" and d == "self._n_evals":
                pre, v = self.expr(s.value, env)
                if v.ty == "nat":
                    return " ".join(pre) + f" p_count_evals d {v.code} ;;;\n  " + go(env)
            self.bad(s, "augmented assignment")
        if isinstance(s, ast.Expr):
            e = s.value
            env = dict(env)
            if isinstance(e, ast.Call):
                d = dotted(e.func)
                if isinstance(e.func, ast.Attribute) and e.func.attr == "add_child" and self.ctx == "tree" and len(e.args) == 1 and isinstance(e.args[0], ast.Name):
                    pre, par = self.expr(e.func.value, env)
                    ch = env.get(e.args[0].id)
                    if par.ty == "deme" and isinstance(ch, V) and ch.ty == "child" and getattr(ch, "joined", False):
                        # the child already joined its level: the parent link is set on the deme in the state (the last one)
                        return " ".join(pre) + f" p_adopt_last {par.code} ;;;\n  " + go(env)
                    if par.ty == "deme" and isinstance(ch, V) and ch.ty == "child":
                        nm = self.fresh("ch")
                        env[e.args[0].id] = V(nm, "child")
                        return " ".join(pre) + f" let {nm} := add_child {par.code} {ch.code} in\n  " + go(env)
                    self.bad(s, "add_child")
                if d in DROPPED_STMT_CALLS and d != "self._cma_es.tell":
                    if all(self.opaque_ok(a, env) for a in list(e.args) + [k.value for k in e.keywords]):
                        return go(env)
                    self.bad(s, "logging call with effects in its arguments")
            pre, v = self.expr(e, env)
            return " ".join(pre) + ("\n  " if pre else "") + go(env)
        if isinstance(s, ast.If):
            # an `if` that only computes values the model does not contain disappears
            if self.opaque_ok(s.test, env) and self.only_opaque(s.body, env) and self.only_opaque(s.orelse, env):
                env = dict(env)
                for n in s.body + s.orelse:
                    for m in ast.walk(n):
                        if isinstance(m, (ast.Assign, ast.FunctionDef)):
                            for nm in ([m.name] if isinstance(m, ast.FunctionDef) else [t.id for t in m.targets if isinstance(t, ast.Name)]):
                                env[nm] = opaque()
                return go(env)
            # `if <not modelled>: <not modelled>; return` at the top level of a method whose remaining statements are not modelled either:
            # whichever way the test goes, nothing the model contains happens before the method ends
            if self.opaque_ok(s.test, env) and not s.orelse and isinstance(s.body[-1], ast.Return) and s.body[-1].value is None \
                    and self.only_opaque(s.body[:-1], env) and k is getattr(self, "top_k", None):
                env2, ok = dict(env), True
                for n in rest:
                    if not self.only_opaque([n], env2):
                        ok = False
                        break
                    if isinstance(n, ast.Assign):
                        for t_ in n.targets:
                            env2[t_.id] = opaque()
                if ok:
                    return k(env2)
            env = dict(env)
            pre, t = self.expr(s.test, env)
            if t.ty != "bool":
                self.bad(s.test, f"condition of type {t.ty}")
            p0 = self.produced
            a = self.block(s.body, dict(env), lambda e2: self.block(rest, e2, k, ret), ret)
            p1, self.produced = self.produced, p0
            b = self.block(s.orelse, dict(env), lambda e2: self.block(rest, e2, k, ret), ret)
            self.produced = self.produced or p1
            return " ".join(pre) + f"\n  (if {t.code} then ({a}) else ({b}))"
        if isinstance(s, ast.While):
            if s.orelse or self.has(s.body, ast.Break) or self.has(s.body, ast.Continue):
                self.bad(s, "while with else/break/continue")
            carried = self.assigned_tracked(s.body, env)
            if len(carried) > 2:
                self.bad(s, "more than two loop-carried locals")
            tup = lambda e2: ("tt" if not carried else e2[carried[0]].code if len(carried) == 1 else f"({e2[carried[0]].code}, {e2[carried[1]].code})")  # noqa: E731
            if not carried:
                pat, unpack = "(_ : unit)", ""
            elif len(carried) == 1:
                pat, unpack = f"(v_{carried[0]} : {COQTY[env[carried[0]].ty]})", ""
            else:
                pat = f"(l_ : {COQTY[env[carried[0]].ty]} * {COQTY[env[carried[1]].ty]})"
                unpack = f"let v_{carried[0]} := fst l_ in let v_{carried[1]} := snd l_ in "
            lty = "unit" if not carried else COQTY[env[carried[0]].ty] if len(carried) == 1 else f"({COQTY[env[carried[0]].ty]} * {COQTY[env[carried[1]].ty]})"
            inner = dict(env)
            for nm in carried:
                inner[nm] = V("v_" + nm, env[nm].ty)
            self.nloops = getattr(self, "nloops", 0) + 1
            k_id = self.nloops
            # fixpoint of the freshness tags over the loop: analyse the body twice, joining the tags at the head
            for _pass in range(2):
                e_head = dict(inner)
                p_head = self.produced
                n0, a0, l0 = self.n, len(self.aux), self.nloops
                cpre, cv = self.expr(s.test, dict(e_head))
                if cv.ty != "bool":
                    self.bad(s.test, "loop condition")
                end_env = {}
                body = self.block(s.body, dict(e_head), lambda e2: (end_env.update(e2), f"ret ({tup(e2)}, false)")[1], lambda e2: f"ret ({tup(e2)}, true)")
                changed = False
                for nm, v in end_env.items():
                    if nm in inner and isinstance(v, V) and isinstance(inner[nm], V) and inner[nm].tag != v.tag:
                        if inner[nm].tag == LATEST or v.tag is None:
                            role = getattr(inner[nm], "role", None)
                            inner[nm] = V(inner[nm].code, inner[nm].ty, STALE if v.tag else None, inner[nm].deps)
                            if role:
                                inner[nm].role = role
                            changed = True
                    # the role of a value (what it was computed by) survives the loop head only if every way round the loop gives it that role
                    if nm in inner and isinstance(v, V) and isinstance(inner[nm], V) and getattr(inner[nm], "role", None) and getattr(v, "role", None) != inner[nm].role:
                        inner[nm] = V(inner[nm].code, inner[nm].ty, inner[nm].tag, inner[nm].deps)
                        changed = True
                if self.produced != p_head:
                    changed = True
                self.produced = self.produced or p_head
                if not changed:
                    break
                self.n, self.nloops = n0, l0
                del self.aux[a0:]
            decl, use = self.params(env, exclude={"v_" + nm for nm in carried}, text=" ".join(cpre) + " " + cv.code + " " + body)
            self.aux.append(f"Definition {self.fname}_cond{k_id} {decl}{pat} : D bool :=\n  {unpack}" + " ".join(cpre) + f" ret {cv.code}.\n")
            self.aux.append(f"Definition {self.fname}_body{k_id} {decl}{pat} : D ({lty} * bool) :=\n  {unpack}{body}.\n")
            r = self.fresh("r")
            after = dict(env)
            for nm in inner:
                if nm not in carried:
                    after[nm] = inner[nm]
            lets = ""
            if len(carried) == 1:
                lets = f"let v_{carried[0]} := fst {r} in "
                after[carried[0]] = V("v_" + carried[0], env[carried[0]].ty)
            elif len(carried) == 2:
                lets = f"let v_{carried[0]} := fst (fst {r}) in let v_{carried[1]} := snd (fst {r}) in "
                for nm in carried:
                    after[nm] = V("v_" + nm, env[nm].ty)
            loop = f"{r} <- while_ fuel ({self.fname}_cond{k_id} {use}) ({self.fname}_body{k_id} {use}) {tup(env)} ;;\n  "
            if self.has(s.body, ast.Return):
                return loop + f"(if snd {r} then {ret(after)} else ({lets}{go(after)}))"
            return loop + lets + go(after)
        if isinstance(s, ast.For):
            if s.orelse or self.has(s.body, ast.Break):
                self.bad(s, "for with else/break")
            env = dict(env)
            pre, it = self.expr(s.iter, env)
            inner = dict(env)
            x = self.fresh("it")
            if it.ty == "ld_list" and isinstance(s.target, ast.Tuple) and len(s.target.elts) == 2 and all(isinstance(n, ast.Name) for n in s.target.elts):
                lvl_name, dm = s.target.elts
                if any(isinstance(n, ast.Name) and n.id == lvl_name.id for st in s.body for n in ast.walk(st)):
                    self.bad(s, "the level component of active_demes entries is not modelled")
                inner[dm.id] = V(x, "deme")
                xty = "nat"
            elif it.ty == "nat_list" and isinstance(s.target, ast.Name):
                inner[s.target.id] = V(x, "deme")
                xty = "nat"
            elif it.ty == "cmap" and isinstance(s.target, ast.Tuple) and len(s.target.elts) == 2:
                a, b = s.target.elts
                xty = "(nat * list Z)"
                inner[a.id] = V(f"(fst {x})", "deme", deps={(x, xty)})
                inner[b.id] = V(f"(snd {x})", "cands", deps={(x, xty)})
            elif it.ty == "inds" and isinstance(s.target, ast.Name):
                inner[s.target.id] = V(x, "ind")
                xty = "Z"
            else:
                self.bad(s, f"for over {it.ty}")
            was = self.in_for
            self.in_for = True
            self.nloops = getattr(self, "nloops", 0) + 1
            k_id = self.nloops
            body = self.block(s.body, inner, lambda e2: "ret false", lambda e2: "ret true")
            decl, use = self.params(env, text=body)
            self.in_for = was
            self.aux.append(f"Definition {self.fname}_for{k_id} {decl}({x} : {xty}) : D bool :=\n  {body}.\n")
            b = self.fresh("b")
            if self.has(s.body, ast.Return):
                return " ".join(pre) + f" {b} <- for_ {it.code} ({self.fname}_for{k_id} {use}) ;;\n  (if {b} then {ret(env)} else ({go(env)}))"
            return " ".join(pre) + f" for_ {it.code} ({self.fname}_for{k_id} {use}) ;;;\n  " + go(env)
        self.bad(s, "statement")

    def only_opaque(self, stmts, env):
        for s in stmts:
            if isinstance(s, ast.FunctionDef):
                # a local function may call the objective only as a value handed to the optimiser; its body is not run here
                continue
            if isinstance(s, ast.Assign) and all(isinstance(t, ast.Name) for t in s.targets) and self.opaque_ok(s.value, env):
                continue
            if isinstance(s, ast.Expr) and isinstance(s.value, ast.Call) and dotted(s.value.func) in DROPPED_STMT_CALLS \
                    and dotted(s.value.func) != "self._cma_es.tell" and self.opaque_ok(s.value, env):
                continue
            if isinstance(s, ast.Pass):
                continue
            return False
        return True


def method(mod, cls, name, src, ctx, params, fname):
    fn = normalise(find_def(mod, name, cls), dict_views=False, sums=False)
    argn = [a.arg for a in fn.args.args]
    if argn[0] != "self":
        raise Unsupported(f"{src}:{fn.lineno}: {cls}.{name} is not a method")
    tr = MTr(src, ctx, cls, fname)
    env = {}
    for a, v in zip(argn[1:], params):
        env[a] = v
    if len(argn) - 1 != len(params):
        raise Unsupported(f"{src}:{fn.lineno}: {cls}.{name} signature changed: {argn}")
    tr.top_k = lambda e2: "ret false"  # noqa: E731
    body = tr.block(fn.body, env, tr.top_k, lambda e2: "ret true")
    return "".join(a + "\n" for a in tr.aux), body


def returned_value(mod, cls, name, src):
    """the expression a property / method returns, after shape normalisation, with its local temporaries inlined"""
    from .lazy import Inliner
    fn = normalise(find_def(mod, name, cls))
    body = [s_ for s_ in fn.body if not (isinstance(s_, ast.Expr) and isinstance(s_.value, ast.Constant))]
    if not body or not isinstance(body[-1], ast.Return) or body[-1].value is None or any(isinstance(n, ast.Return) for s_ in body[:-1] for n in ast.walk(s_)) \
            or not all(isinstance(s_, (ast.Assign, ast.AnnAssign)) for s_ in body[:-1]):
        raise Unsupported(f"{src}:{fn.lineno}: {name} is not assignments to temporaries followed by one return")
    return fn, Inliner(fn, src).inline(body[-1].value, body[-1])


def prop_listcomp(mod, cls, name, src):
    """DemeTree.all_demes / active_demes / active_non_leaves:
       [(level_no, deme) for level_no in range(N) for deme in self.levels[level_no] if deme.is_active]   or
       [(level_no, deme) for level_no, level in enumerate(self.levels or self.levels[:-1]) for deme in level if deme.is_active]
       (or the same written as a loop nest appending to a list)"""
    fn, lc = returned_value(mod, cls, name, src)
    if not isinstance(lc, ast.ListComp):
        raise Unsupported(f"{src}:{fn.lineno}: {name} is not a single list comprehension")
    if len(lc.generators) != 2 or not isinstance(lc.elt, ast.Tuple) or len(lc.elt.elts) != 2:
        raise Unsupported(f"{src}:{fn.lineno}: {name}: comprehension shape")
    g1, g2 = lc.generators
    lv, dm = lc.elt.elts
    if not (isinstance(lv, ast.Name) and isinstance(dm, ast.Name) and isinstance(g2.target, ast.Name) and dm.id == g2.target.id and not g1.ifs):
        raise Unsupported(f"{src}:{fn.lineno}: {name}: comprehension variables")
    r, it2 = g1.iter, g2.iter
    if isinstance(g1.target, ast.Name) and g1.target.id == lv.id:
        # outer range
        if not (isinstance(r, ast.Call) and dotted(r.func) == "range" and len(r.args) == 1):
            raise Unsupported(f"{src}:{fn.lineno}: {name}: outer iterable")
        a = r.args[0]
        if dotted(a) == "self.height" or ast.unparse(a) in ("len(self.levels)", "len(self._levels)"):
            n = "(height c)"
        elif isinstance(a, ast.BinOp) and isinstance(a.op, ast.Sub) and (dotted(a.left) == "self.height" or ast.unparse(a.left) in ("len(self.levels)", "len(self._levels)")) \
                and isinstance(a.right, ast.Constant) and a.right.value == 1:
            n = "(height c - 1)"
        else:
            raise Unsupported(f"{src}:{fn.lineno}: {name}: range bound {ast.unparse(a)}")
        if not (isinstance(it2, ast.Subscript) and dotted(it2.value) in ("self.levels", "self._levels") and isinstance(it2.slice, ast.Name) and it2.slice.id == lv.id):
            raise Unsupported(f"{src}:{fn.lineno}: {name}: inner iterable")
    elif isinstance(g1.target, ast.Tuple) and len(g1.target.elts) == 2 and all(isinstance(x, ast.Name) for x in g1.target.elts) and g1.target.elts[0].id == lv.id:
        # enumerate(self.levels) / enumerate(self.levels[:-1])
        if not (isinstance(r, ast.Call) and dotted(r.func) == "enumerate" and len(r.args) == 1 and not r.keywords):
            raise Unsupported(f"{src}:{fn.lineno}: {name}: outer iterable")
        what = ast.unparse(r.args[0])
        if what in ("self.levels", "self._levels"):
            n = "(height c)"
        elif what in ("self.levels[:-1]", "self._levels[:-1]"):
            n = "(height c - 1)"
        else:
            raise Unsupported(f"{src}:{fn.lineno}: {name}: enumerate of {what}")
        if not (isinstance(it2, ast.Name) and it2.id == g1.target.elts[1].id and it2.id not in (lv.id, dm.id)):
            raise Unsupported(f"{src}:{fn.lineno}: {name}: inner iterable")
    else:
        raise Unsupported(f"{src}:{fn.lineno}: {name}: comprehension variables")
    conds = []
    for c in g2.ifs:
        if dotted(c) in (f"{dm.id}.is_active", f"{dm.id}._active"):
            conds.append(f"d_active (dnth v_{dm.id} ds)")
        else:
            raise Unsupported(f"{src}:{c.lineno}: {name}: filter {ast.unparse(c)}")
    cond = " && ".join(conds) if conds else "true"
    return (f"Definition gen_{name} (c : cfg) (ds : list deme) : list nat :=\n"
            f"  flat_map (fun v_{lv.id} => filter (fun v_{dm.id} => {cond}) (level_ids ds v_{lv.id})) (seq 0 {n}).\n")


def values_for_cma(repo):
    """CMADeme._values_for_cma: what CMA-ES (a minimiser) is told"""
    from .lazy import canon, return_paths
    src = DEMES["CMADeme"][0]
    fn = normalise(find_def(ast.parse(open(f"{repo}/{src}").read()), "_values_for_cma", "CMADeme"))
    an = [a.arg for a in fn.args.args]
    if len(an) != 2:
        raise Unsupported(f"{src}:{fn.lineno}: _values_for_cma signature {an}")
    seen = {}
    for conds, e_ in return_paths(fn, src):
        if len(conds) != 1 or ast.unparse(conds[0][0]) not in ("self._problem.maximize", "self._problem._inner.maximize"):
            raise Unsupported(f"{src}:{fn.lineno}: _values_for_cma: a test other than the problem's direction")
        seen[conds[0][1]] = ast.unparse(canon(e_))
    want = {True: f"[-_c0.fitness for _c0 in {an[1]}]", False: f"[_c0.fitness for _c0 in {an[1]}]"}
    if seen != want:
        raise Unsupported(f"{src}:{fn.lineno}: _values_for_cma is not `the negated fitness values for a maximisation problem, the fitness values otherwise`: {seen}")
    return ("(* GENERATED from pyhms/demes/cma_deme.py and local_deme.py by hv/translate/driver_py.py — do not edit *)\nFrom Coq Require Import List.\nFrom HV Require Import F64 WMonad.\n\n"
            "Definition gen_values_for_cma (mx : bool) (fs : list F) : list F := if mx then map fneg fs else fs.\n\n" + local_direction(repo))


def local_direction(repo):
    """LocalDeme: the function handed to scipy (a minimiser) and what _history_callback records for an iterate"""
    from .lazy import canon
    src = DEMES["LocalDeme"][0]
    mod = ast.parse(open(f"{repo}/{src}").read())
    fn = find_def(mod, "run_metaepoch", "LocalDeme")
    calls = [n for n in ast.walk(fn) if isinstance(n, ast.Call) and dotted(n.func) == "sopt.minimize"]
    if len(calls) != 1 or not calls[0].args or not isinstance(calls[0].args[0], ast.Name):
        raise Unsupported(f"{src}:{fn.lineno}: LocalDeme.run_metaepoch: one sopt.minimize(<objective>, ...) call expected")
    fname = calls[0].args[0].id
    # the objective: -self._problem.evaluate(...) for a maximisation problem, self._problem.evaluate otherwise
    defs = {}      # polarity of `self._problem.maximize` -> what `fname` is there

    def what(node):
        if isinstance(node, ast.FunctionDef) and node.name == fname:
            an = [a.arg for a in node.args.args]
            b = [s_ for s_ in node.body if not (isinstance(s_, ast.Expr) and isinstance(s_.value, ast.Constant))]
            va = node.args.vararg.arg if node.args.vararg else None
            if len(an) == 1 and len(b) == 1 and isinstance(b[0], ast.Return):
                u_ = ast.unparse(b[0].value)
                star = f", *{va}" if va else ""
                if u_ == f"-self._problem.evaluate({an[0]}{star})":
                    return "neg"
                if u_ == f"self._problem.evaluate({an[0]}{star})":
                    return "id"
        if isinstance(node, ast.Assign) and ast.unparse(node.targets[0]) == fname:
            if ast.unparse(node.value) == "self._problem.evaluate":
                return "id"
            if isinstance(node.value, ast.Lambda):
                an = [a.arg for a in node.value.args.args]
                va = node.value.args.vararg.arg if node.value.args.vararg else None
                star = f", *{va}" if va else ""
                if len(an) == 1 and ast.unparse(node.value.body) == f"-self._problem.evaluate({an[0]}{star})":
                    return "neg"
        return None
    ifs = [s_ for s_ in fn.body if isinstance(s_, ast.If) and ast.unparse(s_.test) in ("self._problem.maximize", "not self._problem.maximize")]
    if len(ifs) != 1 or len(ifs[0].body) != 1 or len(ifs[0].orelse) != 1:
        raise Unsupported(f"{src}:{fn.lineno}: LocalDeme.run_metaepoch: the objective handed to scipy is not chosen by one `if self._problem.maximize: ... else: ...`")
    pos = ast.unparse(ifs[0].test) == "self._problem.maximize"
    defs[pos], defs[not pos] = what(ifs[0].body[0]), what(ifs[0].orelse[0])
    if defs != {True: "neg", False: "id"}:
        raise Unsupported(f"{src}:{ifs[0].lineno}: LocalDeme.run_metaepoch: scipy (a minimiser) is not handed -evaluate for a maximisation problem and evaluate otherwise: {defs}")
    if sum(1 for n in ast.walk(fn) if (isinstance(n, ast.FunctionDef) and n.name == fname) or (isinstance(n, ast.Assign) and ast.unparse(n.targets[0]) == fname)) != 2:
        raise Unsupported(f"{src}:{fn.lineno}: LocalDeme.run_metaepoch: the objective handed to scipy is defined elsewhere too")
    # the callback: a COPY of the iterate, with the un-negated value, appended to the run history
    from .lazy import Inliner, effect_paths
    cb = find_def(mod, "_history_callback", "LocalDeme")
    an = [a.arg for a in cb.args.args]
    if len(an) != 2:
        raise Unsupported(f"{src}:{cb.lineno}: LocalDeme._history_callback signature {an}")
    r_ = an[1]
    cinl = Inliner(cb, src)
    ok = True
    seen = {}
    for conds, done, rv in effect_paths(cb, src, cinl):
        if rv is not None or len(done) != 2 or len(conds) > 1:
            ok = False
            break
        a_, b_ = done
        if not (isinstance(a_, ast.Assign) and isinstance(a_.targets[0], ast.Attribute) and a_.targets[0].attr == "fitness" and isinstance(a_.targets[0].value, ast.Name)):
            ok = False
            break
        v_ = a_.targets[0].value.id
        # the individual: a NEW Individual holding a COPY of the iterate, over the deme's own problem; it is what gets appended
        defs_ = [s_ for s_ in ast.walk(cb) if isinstance(s_, ast.Assign) and isinstance(s_.targets[0], ast.Name) and s_.targets[0].id == v_]
        if len(defs_) != 1 or ast.unparse(cinl.inline(defs_[0].value, defs_[0])) != f"Individual(np.copy({r_}.x), problem=self._problem)" \
                or ast.unparse(b_) != f"self._run_history.append({v_})":
            ok = False
            break
        val = ast.unparse(canon(cinl.inline(a_.value, a_)))
        if not conds:
            seen["both"] = val
        elif ast.unparse(conds[0][0]) == "self._problem.maximize":
            seen[conds[0][1]] = val
        else:
            ok = False
            break
    if ok:
        ok = seen in ({"both": f"-{r_}.fun if self._problem.maximize else {r_}.fun"}, {True: f"-{r_}.fun", False: f"{r_}.fun"})
    if not ok:
        raise Unsupported(f"{src}:{cb.lineno}: LocalDeme._history_callback is not: a new Individual holding a COPY of the iterate, its fitness = -fun for a maximisation problem else fun, appended to the run history")
    return ("(* what scipy minimises, and what the callback records for an iterate x for which scipy reports the value v *)\n"
            "Definition gen_local_objective {G} (mx : bool) (f : G -> F) (x : G) : F := if mx then fneg (f x) else f x.\n"
            "Definition gen_local_recorded {G} (mx : bool) (x : G) (v : F) : G * F := (x, if mx then fneg v else v).\n")


def next_child_id(mod):
    """DemeTree._next_child_id: ids as paths of numbers ("root" = [], "3" = [3], "3/7" = [3; 7])"""
    from .lazy import Inliner
    fn = normalise(find_def(mod, "_next_child_id", "DemeTree"))
    argn = [a.arg for a in fn.args.args]
    if len(argn) != 2:
        raise Unsupported(f"{TREE}:{fn.lineno}: _next_child_id signature {argn}")
    dn = argn[1]
    inl = Inliner(fn, TREE)
    body = [s_ for s_ in fn.body if not (isinstance(s_, ast.Expr) and isinstance(s_.value, ast.Constant))]
    guard = None
    rets = []

    def lvl(e):
        if isinstance(e, ast.Name) and e.id != dn:
            e = inl.inline_at(e)
        u = ast.unparse(e)
        tab = {f"{dn}.level": "(d_lvl (dnth p ds))", f"{dn}._level": "(d_lvl (dnth p ds))", "self.height": "(height c)", "len(self.levels)": "(height c)", "len(self._levels)": "(height c)"}
        if u in tab:
            return tab[u]
        if isinstance(e, ast.Constant) and type(e.value) is int and 0 <= e.value < 100:
            return str(e.value)
        if isinstance(e, ast.BinOp) and isinstance(e.op, (ast.Add, ast.Sub)):
            return f"({lvl(e.left)} {'+' if isinstance(e.op, ast.Add) else '-'} {lvl(e.right)})"
        raise Unsupported(f"{TREE}:{e.lineno}: _next_child_id: unsupported number {u[:100]}")

    def suffix(e):
        e = inl.inline_at(e) if isinstance(e, ast.Name) else e
        if isinstance(e, ast.Call) and dotted(e.func) == "len" and len(e.args) == 1 and isinstance(e.args[0], ast.Subscript) and dotted(e.args[0].value) in ("self._levels", "self.levels"):
            return f"(length (level_ids ds {lvl(e.args[0].slice)}))"
        raise Unsupported(f"{TREE}:{getattr(e, 'lineno', '?')}: _next_child_id: unsupported id suffix {ast.unparse(e)[:100]}")

    def idexpr(e):
        if isinstance(e, ast.Call) and dotted(e.func) == "str" and len(e.args) == 1:
            return f"[{suffix(e.args[0])}]"
        if isinstance(e, ast.JoinedStr) and len(e.values) == 3 and isinstance(e.values[0], ast.FormattedValue) and ast.unparse(e.values[0].value) in (f"{dn}.id", f"{dn}._id") \
                and isinstance(e.values[1], ast.Constant) and e.values[1].value == "/" and isinstance(e.values[2], ast.FormattedValue):
            return f"(pid ++ [{suffix(e.values[2].value)}])"
        raise Unsupported(f"{TREE}:{e.lineno}: _next_child_id: unsupported id {ast.unparse(e)[:100]}")

    def cond(t):
        if isinstance(t, ast.Compare) and len(t.ops) == 1:
            a, b = t.left, t.comparators[0]
            if ast.unparse(a) in (f"{dn}.id", f"{dn}._id") and isinstance(b, ast.Constant) and b.value == "root" and isinstance(t.ops[0], (ast.Eq, ast.NotEq)):
                return "(is_root pid)" if isinstance(t.ops[0], ast.Eq) else "(negb (is_root pid))"
            tab = {ast.GtE: "Nat.leb {1} {0}", ast.Gt: "Nat.ltb {1} {0}", ast.LtE: "Nat.leb {0} {1}", ast.Lt: "Nat.ltb {0} {1}", ast.Eq: "Nat.eqb {0} {1}"}
            if type(t.ops[0]) in tab:
                return "(" + tab[type(t.ops[0])].format(lvl(a), lvl(b)) + ")"
        raise Unsupported(f"{TREE}:{t.lineno}: _next_child_id: unsupported test {ast.unparse(t)[:100]}")

    def block(stmts):
        if not stmts:
            raise Unsupported(f"{TREE}:{fn.lineno}: _next_child_id falls off its end")
        s_, rest = stmts[0], stmts[1:]
        if isinstance(s_, ast.Assign) and len(s_.targets) == 1 and isinstance(s_.targets[0], ast.Name):
            return block(rest)       # temporaries are looked through (Inliner)
        if isinstance(s_, ast.Return) and s_.value is not None:
            v = inl.inline(s_.value, s_) if isinstance(s_.value, ast.Name) else s_.value
            return f"Some {idexpr(v)}"
        if isinstance(s_, ast.Raise):
            return "None"
        if isinstance(s_, ast.If):
            return f"(if {cond(s_.test)} then {block(list(s_.body) + rest)} else {block(list(s_.orelse) + rest)})"
        raise Unsupported(f"{TREE}:{s_.lineno}: _next_child_id: unsupported statement {ast.unparse(s_)[:100]}")
    return ("Definition is_root (pid : list nat) : bool := match pid with [] => true | _ => false end.\n"
            "Definition gen_next_child_id (c : cfg) (ds : list deme) (p : nat) (pid : list nat) : option (list nat) :=\n  " + block(body) + ".\n")


def translate(repo):
    out = ["(* GENERATED from pyhms/tree.py and pyhms/demes/*_deme.py by hv/translate/driver_py.py — do not edit *)",
           "From Coq Require Import List Bool Arith ZArith.", "From HV Require Import Ord Sprout Tree DriverPrim.", "Import ListNotations.", ""]
    fns = []
    # every deme class the package can instantiate must be one the table above knows
    imod = ast.parse(open(f"{repo}/{INIT}").read())
    table = None
    for n in imod.body:
        if isinstance(n, ast.Assign) and dotted(n.targets[0]) == "CONFIG_CLASS_TO_DEME_CLASS" and isinstance(n.value, ast.Dict):
            table = [dotted(v) for v in n.value.values]
    if table is None or set(table) != set(DEMES):
        raise Unsupported(f"{INIT}: CONFIG_CLASS_TO_DEME_CLASS is {table}, the driver model knows {sorted(DEMES)}")
    def wrap(name, params, mod, cls, meth, src, ctx, args):
        aux, body = method(mod, cls, meth, src, ctx, args, name)
        return f"{aux}Definition {name} (c : cfg) (fuel : nat) {params}: D unit :=\n  _ <- ({body}) ;; ret tt.\n"

    for cls, (src, kind) in DEMES.items():
        mod = ast.parse(open(f"{repo}/{src}").read())
        if cls in ("LHSDeme", "SobolDeme"):
            out.append(wrap(f"gen_{cls}_run", "(d : nat) ", mod, cls, "run", src, "deme", []))
            fns.append(f"{src}:{cls}.run")
        out.append(wrap(f"gen_{cls}_run_metaepoch", "(d : nat) ", mod, cls, "run_metaepoch", src, "deme", [opaque()]))
        fns.append(f"{src}:{cls}.run_metaepoch")
    out.append("(* deme.run_metaepoch(tree): dispatch on the class init_from_config instantiates for the level (one representative per machine kind;\n"
               "   Proofs/GenEquivDriver.v proves every class of a kind equal to the kind's program) *)")
    rep = {}
    for cls, (_, kind) in DEMES.items():
        rep.setdefault(kind, cls)
    out.append("Definition gen_run_deme (c : cfg) (fuel : nat) (d : nat) : D unit :=\n  s <- get_st ;;\n  match kind_of c (d_lvl (dnth d (demes s))) with\n"
               + "\n".join(f"  | {k} => gen_{cl}_run_metaepoch c fuel d" for k, cl in rep.items()) + "\n  end.\n")
    out.append("Definition gen_deme_classes : list (nat * dkind) := [" + "; ".join(f"({i}, {k})" for i, (_, (_, k)) in enumerate(DEMES.items())) + "].\n")
    tmod = ast.parse(open(f"{repo}/{TREE}").read())
    for p in ("active_demes", "active_non_leaves"):
        out.append(prop_listcomp(tmod, "DemeTree", p, TREE))
        fns.append(f"{TREE}:DemeTree.{p}")
    out.append(wrap("gen_tree_run_metaepoch", "", tmod, "DemeTree", "run_metaepoch", TREE, "tree", []))
    out.append(wrap("gen_tree__do_sprout", "(v_deme_seeds : cmap) ", tmod, "DemeTree", "_do_sprout", TREE, "tree", [V("v_deme_seeds", "cmap")]))
    out.append(wrap("gen_tree_run_sprout", "", tmod, "DemeTree", "run_sprout", TREE, "tree", []))
    out.append(wrap("gen_tree_run_step", "", tmod, "DemeTree", "run_step", TREE, "tree", []))
    out.append(wrap("gen_tree_run", "", tmod, "DemeTree", "run", TREE, "tree", []))
    fns += [f"{TREE}:DemeTree.{m}" for m in ("run_metaepoch", "_do_sprout", "run_sprout", "run_step", "run")]
    out.append(next_child_id(tmod))
    fns.append(f"{TREE}:DemeTree._next_child_id")
    return {"GenDriver.v": "\n".join(out), "GenDirection.v": values_for_cma(repo)}, fns + ["pyhms/demes/cma_deme.py:CMADeme._values_for_cma", "pyhms/demes/local_deme.py:LocalDeme.run_metaepoch[objective handed to scipy]", "pyhms/demes/local_deme.py:LocalDeme._history_callback"]
