"""The constructors: AbstractDeme.__init__, the __init__ of the seven deme classes (+ LHSDeme.run / SobolDeme.run, which their
constructors call), init_from_config / DemeInitArgs, DemeTree.__init__, and Individual's __init__ / evaluate / evaluate_population /
create_population  ->  Gen/GenCtor.v : programs over the vocabulary of Model/Ctor.v (an object under construction whose fields are
None until assigned; symbolic individuals: where the genome came from, whether a fitness is present, whether the problem is the deme's
own counting problem).

A straight-line + `if` compiler (statements in continuation style so that an `if` on "was a sprout seed given" duplicates the rest).
What it drops is only what `opaque_ok` accepts: values the model does not contain (engines, samplers, options, bounds, std devs) built
from attribute reads and a fixed list of calls none of which evaluates the objective or touches a modelled field."""
import ast

from .core import Unsupported, find_def
from .driver_py import dotted
from .lazy import Inliner, canon, effect_paths, normalise, return_paths

OUTPUTS = ["GenCtor.v"]
ABSTRACT, INIT, TREE, INDIVIDUAL = "pyhms/demes/abstract_deme.py", "pyhms/demes/initialize.py", "pyhms/tree.py", "pyhms/core/individual.py"
DEMES = {"EADeme": "pyhms/demes/ea_deme.py", "DEDeme": "pyhms/demes/de_deme.py", "SHADEDeme": "pyhms/demes/shade_deme.py", "CMADeme": "pyhms/demes/cma_deme.py",
         "LocalDeme": "pyhms/demes/local_deme.py", "LHSDeme": "pyhms/demes/lhs_deme.py", "SobolDeme": "pyhms/demes/sobol_deme.py"}
# calls that build values the model does not contain; none of them evaluates the objective or reads / writes a modelled field
OPAQUE_CALLS = {"config.__dict__.copy", "config.ea_class.create", "DE", "SHADE", "CMAEvolutionStrategy", "LatinHypercube", "Sobol", "get_initial_stds", "get_initial_sigma0",
                "len", "config.__dict__.get", "np.copy", "np.array", "float", "int", "dict", "list"}
TRACKED = {"_level", "_started_at", "_active", "_hibernating", "_history", "_children", "_problem", "_n_evals", "_sprout_seed", "_pop_size", "_init_pop_size"}
SEEDOBJ = "{| s_org := OSeedObject; s_fit := true; s_own := false |}"


class V:
    def __init__(self, code, ty, n=None):
        self.code, self.ty, self.n = code, ty, n


def opaque():
    return V("", "opaque")


class CTr:
    def __init__(self, src, cls, mod):
        self.src, self.cls, self.mod = src, cls, mod
        self.k = 0
        self.params = []          # oracle parameters of the generated function, in order of first use

    def bad(self, node, what):
        raise Unsupported(f"{self.src}:{getattr(node, 'lineno', '?')}: {self.cls}.__init__: unsupported {what}: {ast.unparse(node)[:150]}")

    def fresh(self, p):
        self.k += 1
        return f"{p}{self.k}"

    def param(self, name):
        if name not in self.params:
            self.params.append(name)
        return name

    # ------------------------------------------------------------------ what may be dropped
    def opaque_ok(self, e, st):
        for n in ast.walk(e):
            if isinstance(n, ast.Call):
                d = dotted(n.func)
                if d not in OPAQUE_CALLS:
                    return False
            if isinstance(n, ast.Attribute) and n.attr in ("_history", "_children", "evaluate", "evaluate_population", "fitness", "_active", "_hibernating"):
                return False
            if isinstance(n, ast.Name) and isinstance(st["env"].get(n.id), V) and st["env"][n.id].ty in ("pop", "ind", "gens") and st["env"][n.id].code != SEEDOBJ:
                return False
            if isinstance(n, (ast.Lambda, ast.NamedExpr, ast.Await, ast.Yield, ast.YieldFrom)):
                return False
        return True

    # ------------------------------------------------------------------ expressions
    def own(self, e, st):
        """`problem=self._problem`: the deme's own counting problem (exists once the constructor made it)"""
        if dotted(e) == "self._problem":
            return f"(c_own_problem {st['o']})"
        self.bad(e, "problem of a new individual (must be the deme's own counting problem)")

    def new_individual(self, call, st):
        kw = {k.arg: k.value for k in call.keywords}
        args = list(call.args)
        genome = args[0] if args else kw.get("genome")
        problem = args[1] if len(args) > 1 else kw.get("problem")
        if genome is None or problem is None or len(args) > 2 or set(kw) - {"genome", "problem"}:
            self.bad(call, "Individual(...) arguments")
        g = self.expr(genome, st)
        if g.ty != "genome":
            self.bad(genome, f"genome of a new individual of type {g.ty}")
        return V(f"(gen_Individual_new {g.code} {self.own(problem, st)})", "ind")

    def expr(self, e, st):
        env = st["env"]
        if isinstance(e, ast.Name):
            if e.id in env:
                return env[e.id]
            self.bad(e, "name")
        if isinstance(e, ast.Constant):
            if isinstance(e.value, bool):
                return V("true" if e.value else "false", "bool")
            if isinstance(e.value, int) and 0 <= e.value < 1000:
                return V(str(e.value), "nat")
            if e.value is None or isinstance(e.value, (str, float)):
                return opaque()
        d = dotted(e)
        if isinstance(e, ast.Attribute):
            a = st["args"]
            if a and d == f"{a}.level":
                return V("(a_level a)", "nat")
            if a and d == f"{a}.started_at":
                return V("(a_started a)", "nat")
            if a and d == f"{a}.sprout_seed":
                return V(SEEDOBJ, "ind")
            if a and d == f"{a}.sprout_seed.genome":
                return V("OSeedGenome", "genome")
            if a and d == f"{a}.config":
                return V("", "cfg")
            if a and d in (f"{a}.random_seed", f"{a}.parent_deme", f"{a}.logger", f"{a}.id", f"{a}.config.lsc", f"{a}.config.problem", f"{a}.config.bounds"):
                return opaque()
            if isinstance(e.value, ast.Name) and isinstance(env.get(e.value.id), V) and env[e.value.id].ty == "cfg":
                if e.attr == "pop_size":
                    return V(self.param("pop_size"), "nat")
                return opaque()
            if isinstance(e.value, ast.Name) and e.value.id == "self":
                if e.attr in st["attrs"]:
                    return st["attrs"][e.attr]
                if e.attr in TRACKED:
                    self.bad(e, "read of a modelled field")
                self.bad(e, "attribute never assigned")
            if isinstance(e.value, ast.Name) and isinstance(env.get(e.value.id), V) and env[e.value.id].ty == "ind" and e.attr == "genome":
                if env[e.value.id].code == SEEDOBJ:
                    return V("OSeedGenome", "genome")
            if self.opaque_ok(e, st):
                return opaque()
            self.bad(e, "attribute")
        if isinstance(e, ast.BinOp):
            l, r = self.expr(e.left, st), self.expr(e.right, st)
            if l.ty == r.ty == "nat" and isinstance(e.op, (ast.Sub, ast.Add)):
                return V(f"({l.code} {'-' if isinstance(e.op, ast.Sub) else '+'} {r.code})", "nat")
            rows = [x for x in (l, r) if x.ty == "rows"]
            if rows and all(x.ty in ("rows", "opaque") for x in (l, r)):
                return V("", "rows", rows[0].n)       # elementwise arithmetic keeps the number of rows
            if l.ty == r.ty == "opaque":
                return opaque()
            self.bad(e, f"arithmetic on {l.ty} and {r.ty}")
        if isinstance(e, ast.List):
            if not e.elts:
                return V("[]", "empty")
            vs = [self.expr(x, st) for x in e.elts]
            if all(v.ty == "ind" for v in vs):
                return V("[" + "; ".join(v.code for v in vs) + "]", "pop")
            if all(v.ty == "pop" for v in vs):
                return V("[" + "; ".join(v.code for v in vs) + "]", "gens")
            if all(v.ty == "opaque" for v in vs):
                return opaque()
            self.bad(e, "list")
        if isinstance(e, ast.ListComp) and len(e.generators) == 1 and not e.generators[0].ifs and isinstance(e.generators[0].target, ast.Name):
            g = e.generators[0]
            it = g.iter
            if isinstance(it, ast.Call) and dotted(it.func) == "self._cma_es.ask" and not it.args and not it.keywords and st["attrs"].get("_cma_es") is not None:
                n, org = self.param("lam"), "OAsk"
            else:
                v = self.expr(it, st)
                if v.ty != "rows":
                    if self.opaque_ok(e, st):
                        return opaque()
                    self.bad(e, "comprehension")
                n, org = v.n, "OScaled"
            kx = self.fresh("k")
            st2 = dict(st, env=dict(st["env"]))
            st2["env"][g.target.id] = V(f"({org} {kx})", "genome")
            elt = self.expr(e.elt, st2)
            if elt.ty != "ind":
                self.bad(e, "comprehension element")
            return V(f"(map (fun {kx} => {elt.code}) (seq 0 {n}))", "pop")
        if isinstance(e, ast.Call):
            d = dotted(e.func)
            if d == "Individual":
                return self.new_individual(e, st)
            if d == "Individual.create_population":
                kw = {k.arg: k.value for k in e.keywords}
                args = list(e.args)
                size = args[0] if args else kw.get("pop_size")
                init, problem = kw.get("initialize"), kw.get("problem")
                if size is None or init is None or problem is None or len(args) > 1:
                    self.bad(e, "create_population arguments")
                n = self.expr(size, st)
                if n.ty != "nat":
                    self.bad(size, "population size")
                iv = self.expr(init, st)
                if iv.ty != "initializer":
                    self.bad(init, "initializer")
                org = iv.code
                return V(f"(gen_create_population {n.code} {org} {self.own(problem, st)})", "pop")
            if d == "sample_uniform" and all(self.opaque_ok(x, st) for x in list(e.args) + [k.value for k in e.keywords]):
                return V("OUniform", "initializer")
            if d == "sample_normal" and e.args and self.expr(e.args[0], st).ty == "genome" and self.expr(e.args[0], st).code == "OSeedGenome" \
                    and all(self.opaque_ok(x, st) for x in e.args[1:] + [k.value for k in e.keywords]):
                return V("ONormal", "initializer")
            if d in ("sample_uniform", "sample_normal"):
                self.bad(e, "initializer")
            if d == "EvalCountingProblem" and len(e.args) == 1 and self.opaque_ok(e.args[0], st):
                return V("", "ownproblem")
            if d == "self.sampler.random" and len(e.args) == 1 and not e.keywords:
                n = self.expr(e.args[0], st)
                if n.ty == "nat":
                    return V("", "rows", n.code)
            if self.opaque_ok(e, st):
                return opaque()
            self.bad(e, "call")
        if isinstance(e, ast.Dict) or isinstance(e, ast.Compare) or isinstance(e, ast.IfExp) or isinstance(e, ast.Subscript) or isinstance(e, ast.BoolOp) or isinstance(e, ast.UnaryOp):
            if self.opaque_ok(e, st) and all(self.expr(n, st).ty in ("opaque", "cfg", "nat", "bool", "genome") for n in ast.walk(e) if isinstance(n, ast.Name) and n.id != "self" and n.id in st["env"]):
                return opaque()
        if isinstance(e, ast.ListComp) and self.opaque_ok(e, st):
            return opaque()
        self.bad(e, "expression")

    # ------------------------------------------------------------------ statements
    def only_opaque(self, stmts, st):
        for s in stmts:
            if isinstance(s, ast.Assign) and len(s.targets) == 1 and self.opaque_ok(s.value, st):
                t = s.targets[0]
                if isinstance(t, ast.Name):
                    continue
                if isinstance(t, ast.Subscript) and self.opaque_ok(t, st):
                    continue
                if isinstance(t, ast.Attribute) and isinstance(t.value, ast.Name) and t.value.id == "self" and t.attr not in TRACKED:
                    continue
            if isinstance(s, ast.If) and self.opaque_ok(s.test, st) and self.only_opaque(s.body, st) and self.only_opaque(s.orelse, st):
                continue
            if isinstance(s, (ast.Pass, ast.Import, ast.ImportFrom)):
                continue
            return False
        return True

    def mark_opaque(self, stmts, st):
        for s in stmts:
            for n in ast.walk(s):
                if isinstance(n, ast.Assign):
                    t = n.targets[0]
                    if isinstance(t, ast.Name):
                        st["env"][t.id] = opaque()
                    if isinstance(t, ast.Attribute) and isinstance(t.value, ast.Name) and t.value.id == "self":
                        st["attrs"][t.attr] = opaque()

    def bump(self, st, code):
        """rebinding of the object under construction"""
        o = self.fresh("o")
        st2 = dict(st, o=o)
        return st2, f"let {o} := {code} in\n  "

    def block(self, stmts, st):
        if not stmts:
            return st["o"]
        s, rest = stmts[0], stmts[1:]
        st = dict(st, env=dict(st["env"]), attrs=dict(st["attrs"]))
        if isinstance(s, ast.Pass) or (isinstance(s, ast.Expr) and isinstance(s.value, ast.Constant)):
            return self.block(rest, st)
        if isinstance(s, ast.AnnAssign) and s.value is not None:
            s = ast.copy_location(ast.Assign(targets=[s.target], value=s.value), s)
        if isinstance(s, ast.Return) and s.value is None:
            return st["o"]
        if isinstance(s, ast.Assign) and len(s.targets) == 1:
            t = s.targets[0]
            if isinstance(t, ast.Name):
                v = self.expr(s.value, st)
                if v.ty == "ind" and v.code == SEEDOBJ:
                    st["env"][t.id] = v            # another name for the sprout seed handed in
                    return self.block(rest, st)
                if v.ty in ("pop", "ind", "gens"):
                    nm = self.fresh("v_" + t.id + "_")
                    st["env"][t.id] = V(nm, v.ty)
                    return f"let {nm} := {v.code} in\n  " + self.block(rest, st)
                st["env"][t.id] = v
                return self.block(rest, st)
            if isinstance(t, ast.Subscript) and self.opaque_ok(t, st):
                v = self.expr(s.value, st)
                if v.ty in ("opaque", "ownproblem", "cfg", "nat", "bool"):
                    return self.block(rest, st)
                self.bad(s, "stored value")
            if isinstance(t, ast.Attribute) and isinstance(t.value, ast.Name) and t.value.id == "self":
                v = self.expr(s.value, st)
                a = t.attr
                setter = None
                if a == "_level" and v.ty == "nat":
                    setter = f"set_level {st['o']} {v.code}"
                elif a == "_started_at" and v.ty == "nat":
                    setter = f"set_started {st['o']} {v.code}"
                elif a == "_active" and v.ty == "bool":
                    setter = f"set_active {st['o']} {v.code}"
                elif a == "_hibernating" and v.ty == "bool":
                    setter = f"set_hibernating {st['o']} {v.code}"
                elif a == "_history" and v.ty == "empty":
                    setter = f"set_history {st['o']} []"
                elif a == "_children" and v.ty == "empty":
                    setter = f"set_children {st['o']} 0"
                elif a == "_problem" and v.ty == "ownproblem":
                    setter = f"set_own_problem {st['o']}"
                    st["attrs"][a] = v
                elif a == "_n_evals" and v.ty == "nat":
                    setter = f"set_local_evals {st['o']} {v.code}"
                elif a in ("_pop_size", "_init_pop_size") and v.ty == "nat":
                    st["attrs"][a] = v
                    return self.block(rest, st)
                elif a == "_sprout_seed" and v.ty == "ind":
                    st["attrs"][a] = v
                    return self.block(rest, st)
                elif a not in TRACKED and v.ty in ("opaque", "cfg", "empty", "nat", "bool"):
                    st["attrs"][a] = V(v.code, v.ty) if v.ty in ("nat", "bool") else opaque()
                    return self.block(rest, st)
                if setter is None:
                    self.bad(s, f"assignment of a {v.ty} to a modelled field")
                st, let = self.bump(st, setter)
                return let + self.block(rest, st)
            self.bad(s, "assignment target")
        if isinstance(s, ast.Expr) and isinstance(s.value, ast.Call):
            e = s.value
            d = dotted(e.func)
            if isinstance(e.func, ast.Attribute) and isinstance(e.func.value, ast.Call) and dotted(e.func.value.func) == "super" and e.func.attr == "__init__":
                if self.cls == "AbstractDeme":
                    if e.args or e.keywords:
                        self.bad(s, "super().__init__ of the base class")
                    return self.block(rest, st)
                if len(e.args) == 1 and isinstance(e.args[0], ast.Name) and e.args[0].id == st["args"] and st["o"] == "blank":
                    st, let = self.bump(st, "gen_AbstractDeme_init a")
                    for a_ in ("_problem",):
                        st["attrs"][a_] = V("", "ownproblem")
                    for a_ in ("_bounds", "_config", "_lsc", "_logger", "_id", "_centroid"):
                        st["attrs"][a_] = opaque()
                    st["attrs"]["_sprout_seed"] = V(SEEDOBJ, "ind")
                    return let + self.block(rest, st)
                self.bad(s, "super().__init__ call")
            if d == "Individual.evaluate_population" and len(e.args) == 1 and isinstance(e.args[0], ast.Name) and isinstance(st["env"].get(e.args[0].id), V) \
                    and st["env"][e.args[0].id].ty == "pop":
                nm = e.args[0].id
                r, p2 = self.fresh("r"), self.fresh("v_" + nm + "_")
                code = f"let {r} := gen_evaluate_population {st['env'][nm].code} in\n  let {p2} := fst {r} in\n  "
                st["env"][nm] = V(p2, "pop")
                st, let = self.bump(st, f"count_evals {st['o']} (snd {r})")
                return code + let + self.block(rest, st)
            if isinstance(e.func, ast.Attribute) and e.func.attr == "append" and len(e.args) == 1:
                if dotted(e.func.value) == "self._history":
                    v = self.expr(e.args[0], st)
                    if v.ty != "gens":
                        self.bad(s, f"history entry of type {v.ty}")
                    st, let = self.bump(st, f"append_history {st['o']} {v.code}")
                    return let + self.block(rest, st)
                if isinstance(e.func.value, ast.Name) and isinstance(st["env"].get(e.func.value.id), V) and st["env"][e.func.value.id].ty == "pop":
                    v = self.expr(e.args[0], st)
                    if v.ty != "ind":
                        self.bad(s, "appended value")
                    nm = self.fresh("v_" + e.func.value.id + "_")
                    old = st["env"][e.func.value.id].code
                    st["env"][e.func.value.id] = V(nm, "pop")
                    return f"let {nm} := {old} ++ [{v.code}] in\n  " + self.block(rest, st)
            if d == "self.run" and not e.args and not e.keywords and self.cls in ("LHSDeme", "SobolDeme"):
                fn = normalise(find_def(self.mod, "run", self.cls))
                if [a.arg for a in fn.args.args] != ["self"]:
                    self.bad(s, "run() signature")
                return self.block(list(fn.body) + rest, st)
            if self.opaque_ok(e, st):
                return self.block(rest, st)
            self.bad(s, "call")
        if isinstance(s, ast.If):
            a = st["args"]
            t = s.test
            is_none = isinstance(t, ast.Compare) and len(t.ops) == 1 and isinstance(t.comparators[0], ast.Constant) and t.comparators[0].value is None
            if is_none:
                try:
                    lv = self.expr(t.left, st)
                    is_none = lv.ty == "ind" and lv.code == SEEDOBJ          # the sprout seed handed to the constructor (under any name)
                except Unsupported:
                    is_none = False
            if is_none and isinstance(t.ops[0], (ast.Is, ast.IsNot)):
                none_branch, some_branch = (s.body, s.orelse) if isinstance(t.ops[0], ast.Is) else (s.orelse, s.body)
                return f"if a_seed a then ({self.block(list(some_branch) + rest, st)})\n  else ({self.block(list(none_branch) + rest, st)})"
            if self.opaque_ok(s.test, st) and self.only_opaque(s.body, st) and self.only_opaque(s.orelse, st):
                self.mark_opaque(s.body + s.orelse, st)
                return self.block(rest, st)
            self.bad(s, "conditional")
        if isinstance(s, (ast.Import, ast.ImportFrom)):
            return self.block(rest, st)
        if isinstance(s, ast.For) and not s.orelse and isinstance(s.target, ast.Name) and self.opaque_ok(s.iter, st):
            # a loop that only fills lists of values the model does not contain (bounds, options)
            st["env"][s.target.id] = opaque()
            ok = True
            for b in s.body:
                c = b.value if isinstance(b, ast.Expr) else None
                if isinstance(c, ast.Call) and isinstance(c.func, ast.Attribute) and c.func.attr == "append" and isinstance(c.func.value, ast.Name) and len(c.args) == 1 \
                        and isinstance(st["env"].get(c.func.value.id), V) and st["env"][c.func.value.id].ty in ("empty", "opaque") and self.opaque_ok(c.args[0], st):
                    st["env"][c.func.value.id] = opaque()
                else:
                    ok = False
            if ok:
                return self.block(rest, st)
        self.bad(s, "statement")


def ctor(mod, cls, src, o0="blank"):
    fn = normalise(find_def(mod, "__init__", cls))
    argn = [a.arg for a in fn.args.args]
    if len(argn) != 2 or argn[0] != "self":
        raise Unsupported(f"{src}:{fn.lineno}: {cls}.__init__ signature {argn}")
    tr = CTr(src, cls, mod)
    st = {"o": o0, "env": {argn[1]: V("a", "args")}, "attrs": {}, "args": argn[1]}
    body = tr.block(fn.body, st)
    return tr.params, body


# ---------------------------------------------------------------------------------------------------- Individual
def individual(mod):
    out = []
    fn = find_def(mod, "__init__", "Individual")
    argn = [a.arg for a in fn.args.args]
    if argn != ["self", "genome", "problem", "fitness"] or len(fn.args.defaults) != 1:
        raise Unsupported(f"{INDIVIDUAL}:{fn.lineno}: Individual.__init__ signature {argn}")
    dflt = fn.args.defaults[0]
    if not (dotted(dflt) in ("np.nan", "math.nan", "numpy.nan") or (isinstance(dflt, ast.Constant) and dflt.value is None)):
        raise Unsupported(f"{INDIVIDUAL}:{fn.lineno}: a new individual's default fitness is {ast.unparse(dflt)}, not 'no fitness yet'")
    got = {ast.unparse(s) for s in fn.body}
    for need in ("self.genome = genome", "self.fitness = fitness", "self.problem = problem"):
        if need not in got:
            raise Unsupported(f"{INDIVIDUAL}:{fn.lineno}: Individual.__init__ lacks `{need}`")
    for s in fn.body:
        if ast.unparse(s) in ("self.genome = genome", "self.fitness = fitness", "self.problem = problem"):
            continue
        if any(isinstance(n, ast.Call) and dotted(n.func) not in ("uuid.uuid4", "set") for n in ast.walk(s)) or any(isinstance(n, ast.Attribute) and n.attr in ("fitness", "problem", "genome") for n in ast.walk(s)):
            raise Unsupported(f"{INDIVIDUAL}:{s.lineno}: Individual.__init__: unsupported statement {ast.unparse(s)[:100]}")
    out.append("Definition gen_Individual_new (org : origin) (own : bool) : sind := {| s_org := org; s_fit := false; s_own := own |}.\n")

    # evaluate: on every path `self` is returned; the fitness is assigned (= self.problem.evaluate(self.genome)) on exactly the paths on which
    # the "no fitness yet" test holds, nothing else happens
    fn = normalise(find_def(mod, "evaluate", "Individual"))
    einl = Inliner(fn, INDIVIDUAL)
    paths = effect_paths(fn, INDIVIDUAL, einl)
    conds_eval = []
    for conds, done, rv in paths:
        if rv is None or ast.unparse(rv) != "self":
            raise Unsupported(f"{INDIVIDUAL}:{fn.lineno}: Individual.evaluate does not return self on every path")
        if len(conds) != 1:
            raise Unsupported(f"{INDIVIDUAL}:{fn.lineno}: Individual.evaluate: more than one test")
        if not done:
            conds_eval.append((conds[0], False))
        elif len(done) == 1 and isinstance(done[0], ast.Assign) and ast.unparse(done[0].targets[0]) == "self.fitness" \
                and ast.unparse(einl.inline(done[0].value, done[0])) == "self.problem.evaluate(self.genome)":
            conds_eval.append((conds[0], True))
        else:
            raise Unsupported(f"{INDIVIDUAL}:{fn.lineno}: Individual.evaluate does something other than `self.fitness = self.problem.evaluate(self.genome)`")
    if sorted(ev for _, ev in conds_eval) != [False, True]:
        raise Unsupported(f"{INDIVIDUAL}:{fn.lineno}: Individual.evaluate is not `if <no fitness>: self.fitness = self.problem.evaluate(self.genome)`; `return self`")
    (t_, pol_), _ = next(c for c in conds_eval if c[1])
    evaluate_test = t_ if pol_ else ast.UnaryOp(op=ast.Not(), operand=t_)

    def test(t):
        if isinstance(t, ast.BoolOp):
            op = "orb" if isinstance(t.op, ast.Or) else "andb"
            parts = [test(v) for v in t.values]
            code = parts[-1]
            for p in reversed(parts[:-1]):
                code = f"({op} {p} {code})"
            return code
        if isinstance(t, ast.UnaryOp) and isinstance(t.op, ast.Not):
            return f"(negb {test(t.operand)})"
        u = ast.unparse(t)
        if u in ("self.fitness is None", "np.isnan(self.fitness)", "math.isnan(self.fitness)"):
            return "(negb (s_fit i))"
        if u in ("self.fitness is not None", "not np.isnan(self.fitness)", "not math.isnan(self.fitness)"):
            return "(s_fit i)"
        raise Unsupported(f"{INDIVIDUAL}:{t.lineno}: Individual.evaluate: unsupported test {u[:100]}")
    out.append(f"Definition gen_evaluate (i : sind) : sind * nat :=\n  if {test(evaluate_test)} then (with_fitness i, b2n (s_own i)) else (i, 0).\n")

    # evaluate_population
    fn = normalise(find_def(mod, "evaluate_population", "Individual"))
    argn = [a.arg for a in fn.args.args]
    body = [s for s in fn.body if not (isinstance(s, ast.Expr) and isinstance(s.value, ast.Constant))]
    ok = len(argn) == 2 and len(body) == 2 and isinstance(body[0], ast.For) and not body[0].orelse and dotted(body[0].iter) == argn[1] and isinstance(body[0].target, ast.Name) \
        and len(body[0].body) == 1 and ast.unparse(body[0].body[0]) == f"{body[0].target.id}.evaluate()" and isinstance(body[1], ast.Return) and dotted(body[1].value) == argn[1]
    if not ok:
        raise Unsupported(f"{INDIVIDUAL}:{fn.lineno}: Individual.evaluate_population is not `for individual in population: individual.evaluate()`; `return population`")
    out.append("Definition gen_evaluate_population (p : list sind) : list sind * nat :=\n"
               "  fold_left (fun acc i => let r := gen_evaluate i in (fst acc ++ [fst r], snd acc + snd r)) p ([], 0).\n")

    # create_population
    fn = normalise(find_def(mod, "create_population", "Individual"))
    argn = [a.arg for a in fn.args.args]
    body = [s for s in fn.body if not (isinstance(s, ast.Expr) and isinstance(s.value, ast.Constant))]
    ok = bool(body) and isinstance(body[-1], ast.Return) and set(argn[1:]) == {"pop_size", "problem", "initialize"} \
        and all(isinstance(s_, (ast.Assign, ast.AnnAssign)) for s_ in body[:-1])
    if ok:
        lc = Inliner(fn, INDIVIDUAL).inline(body[-1].value, body[-1])
        ok = isinstance(lc, ast.ListComp)
    if ok:
        g = lc.generators[0]
        ok = len(lc.generators) == 1 and not g.ifs and ast.unparse(g.iter) == "range(pop_size)" and isinstance(lc.elt, ast.Call) and dotted(lc.elt.func) in ("cls", "Individual") \
            and sorted(ast.unparse(k) for k in lc.elt.keywords) == ["genome=initialize()", "problem=problem"] and not lc.elt.args
    if not ok:
        raise Unsupported(f"{INDIVIDUAL}:{fn.lineno}: Individual.create_population is not [cls(genome=initialize(), problem=problem) for _ in range(pop_size)]")
    out.append("Definition gen_create_population (n : nat) (org : nat -> origin) (own : bool) : list sind :=\n  map (fun k => gen_Individual_new (org k) own) (seq 0 n).\n")
    return out


def ordering(mod):
    """Individual's ordering: @total_ordering over __lt__ = problem.worse_than(fitnesses) and __eq__ = problem.equivalent(fitnesses);
    python derives  a > b  as  not (a < b) and not (a == b)."""
    cls = [n for n in mod.body if isinstance(n, ast.ClassDef) and n.name == "Individual"]
    if not cls or [dotted(d) for d in cls[0].decorator_list] not in (["total_ordering"], ["functools.total_ordering"]):
        raise Unsupported(f"{INDIVIDUAL}: Individual is not decorated with functools.total_ordering alone")
    defined = {n.name for n in cls[0].body if isinstance(n, ast.FunctionDef)}
    extra = defined & {"__gt__", "__ge__", "__le__", "__ne__", "__hash__", "__cmp__"}
    if extra:
        raise Unsupported(f"{INDIVIDUAL}: Individual defines {sorted(extra)} itself (the model derives them from __lt__ and __eq__)")
    outs = []
    for name, meth, coq in (("__lt__", "worse_than", "FunctionProblem_worse_than mx a b"), ("__eq__", "equivalent", "Problem_equivalent a b")):
        fn = find_def(mod, name, "Individual")
        argn = [a.arg for a in fn.args.args]
        on = argn[1] if len(argn) == 2 else "?"
        paths = return_paths(fn, INDIVIDUAL)
        seen = {}
        for conds, e in paths:
            if len(conds) != 1 or ast.unparse(conds[0][0]) not in (f"{on} is None", f"{on} is not None"):
                raise Unsupported(f"{INDIVIDUAL}:{fn.lineno}: Individual.{name}: a test other than `other is None`")
            is_none = (ast.unparse(conds[0][0]) == f"{on} is None") == conds[0][1]
            seen[is_none] = ast.unparse(e)
        if seen != {True: "False", False: f"self.problem.{meth}(self.fitness, {on}.fitness)"}:
            raise Unsupported(f"{INDIVIDUAL}:{fn.lineno}: Individual.{name} is not `False for None, else self.problem.{meth}(self.fitness, other.fitness)`: {seen}")
        outs.append(f"Definition gen_ind_{name.strip('_')} (mx : bool) (a b : F) : bool := {coq}.\n")
    outs.append("Definition gen_ind_gt (mx : bool) (a b : F) : bool := negb (gen_ind_lt mx a b) && negb (gen_ind_eq mx a b).   (* functools.total_ordering *)\n")
    return outs


# ---------------------------------------------------------------------------------------------------- init_from_config / DemeTree.__init__
def init_from_config(imod, amod):
    fn = find_def(imod, "init_from_config")
    ret = [s for s in fn.body if isinstance(s, ast.Return)]
    if len(ret) != 1 or any(isinstance(n, ast.Return) for s in fn.body if s is not ret[0] for n in ast.walk(s)):
        raise Unsupported(f"{INIT}:{fn.lineno}: init_from_config returns in several places")
    v = Inliner(fn, INIT).inline(ret[0].value, ret[0])
    # <user table | built-in table>[type(config)](DemeInitArgs(...)): the built-in classes win, the class is chosen by the exact type of the level's configuration
    ok = isinstance(v, ast.Call) and isinstance(v.func, ast.Subscript) and ast.unparse(v.func.slice) == "type(config)" and len(v.args) == 1 and not v.keywords \
        and ast.unparse(v.func.value) == "config_class_to_deme_class | CONFIG_CLASS_TO_DEME_CLASS" and isinstance(v.args[0], ast.Call) and dotted(v.args[0].func) == "DemeInitArgs"
    if not ok:
        raise Unsupported(f"{INIT}:{fn.lineno}: init_from_config does not return (user table | built-in table)[type(config)](DemeInitArgs(...)): {ast.unparse(v)[:160]}")
    call = v.args[0]
    if call.args:
        raise Unsupported(f"{INIT}:{fn.lineno}: init_from_config does not build DemeInitArgs by keywords")
    kw = {k.arg: ast.unparse(k.value) for k in call.keywords}
    need = {"level": "target_level", "started_at": "metaepoch_count", "sprout_seed": "sprout_seed", "config": "config"}
    for k, val in need.items():
        if kw.get(k) != val:
            raise Unsupported(f"{INIT}:{call.lineno}: DemeInitArgs({k}=...) is {kw.get(k)!r}, expected {val}")
    # the dataclass has these fields
    cls = [n for n in amod.body if isinstance(n, ast.ClassDef) and n.name == "DemeInitArgs"]
    fields = {s.target.id for s in cls[0].body if isinstance(s, ast.AnnAssign) and isinstance(s.target, ast.Name)} if cls else set()
    if not {"level", "started_at", "sprout_seed", "config"} <= fields:
        raise Unsupported(f"{ABSTRACT}: DemeInitArgs fields {sorted(fields)}")
    return ("Definition gen_init_args (target_level metaepoch_count : nat) (has_seed : bool) : iargs :=\n"
            "  {| a_level := target_level; a_started := metaepoch_count; a_seed := has_seed |}.\n")


def tree_init(tmod):
    fn = normalise(find_def(tmod, "__init__", "DemeTree"))
    inl = Inliner(fn, TREE)
    mc = levels = root = appended = None
    for s in fn.body:
        u = ast.unparse(s)
        if isinstance(s, (ast.Assign, ast.AnnAssign)) and s.value is not None:
            t = ast.unparse(s.targets[0] if isinstance(s, ast.Assign) else s.target)
            if t == "self.metaepoch_count":
                if not (isinstance(s.value, ast.Constant) and type(s.value.value) is int):
                    raise Unsupported(f"{TREE}:{s.lineno}: initial metaepoch_count {u[:80]}")
                mc = s.value.value
            if t == "self._levels":
                if ast.unparse(canon(inl.inline(s.value, s))) != "[[] for _c0 in range(len(config.levels))]":
                    raise Unsupported(f"{TREE}:{s.lineno}: initial levels {u[:80]}")
                levels = True
            if isinstance(s.value, ast.Call) and dotted(s.value.func) == "init_from_config":
                kw = {k.arg: ast.unparse(inl.inline(k.value, s)) for k in s.value.keywords}
                if s.value.args or kw.get("config") != "config.levels[0]" or kw.get("target_level") != "0" or kw.get("metaepoch_count") != "0" or kw.get("sprout_seed") != "None":
                    raise Unsupported(f"{TREE}:{s.lineno}: the root is not init_from_config(config=config.levels[0], target_level=0, metaepoch_count=0, sprout_seed=None, ...)")
                root = t
        if isinstance(s, ast.Expr) and root and u == f"self._levels[0].append({root})":
            appended = True
    if mc is None or not levels or not root or not appended:
        raise Unsupported(f"{TREE}:{fn.lineno}: DemeTree.__init__: metaepoch_count / empty levels / root built from level 0's configuration and put on level 0 not all found")
    n_app = sum(1 for n in ast.walk(fn) if isinstance(n, ast.Call) and isinstance(n.func, ast.Attribute) and n.func.attr in ("append", "extend", "insert") and "_levels" in ast.unparse(n.func.value))
    if n_app != 1:
        raise Unsupported(f"{TREE}:{fn.lineno}: DemeTree.__init__ puts {n_app} demes into the levels")
    return (f"Definition gen_tree_init_mcount : nat := {mc}.\nDefinition gen_tree_root_level : nat := 0.\n"
            "Definition gen_tree_root_args : iargs := gen_init_args 0 0 false.\n")


def translate(repo):
    out = ["(* GENERATED from pyhms/demes/*.py, pyhms/core/individual.py, pyhms/demes/initialize.py and pyhms/tree.py by hv/translate/ctor_py.py — do not edit *)",
           "From Coq Require Import List Bool Arith.", "From HV Require Import Tree Ctor.", "Import ListNotations.", ""]
    fns = []
    imod_ = ast.parse(open(f"{repo}/{INDIVIDUAL}").read())
    out += individual(imod_)
    fns += [f"{INDIVIDUAL}:Individual.{m}" for m in ("__init__", "evaluate", "evaluate_population", "create_population")]
    amod = ast.parse(open(f"{repo}/{ABSTRACT}").read())
    params, body = ctor(amod, "AbstractDeme", ABSTRACT)
    if params:
        raise Unsupported(f"{ABSTRACT}: AbstractDeme.__init__ depends on {params}")
    out.append(f"Definition gen_AbstractDeme_init (a : iargs) : cobj :=\n  {body}.\n")
    fns.append(f"{ABSTRACT}:AbstractDeme.__init__")
    sigs = {}
    for cls, src in DEMES.items():
        mod = ast.parse(open(f"{repo}/{src}").read())
        params, body = ctor(mod, cls, src)
        sigs[cls] = params
        ps = "".join(f" ({p} : nat)" for p in params)
        out.append(f"Definition gen_{cls}_init{ps} (a : iargs) : cobj :=\n  {body}.\n")
        fns.append(f"{src}:{cls}.__init__")
    want = {"EADeme": ["pop_size"], "DEDeme": ["pop_size"], "SHADEDeme": ["pop_size"], "CMADeme": ["lam"], "LocalDeme": [], "LHSDeme": ["pop_size"], "SobolDeme": ["pop_size"]}
    if sigs != want:
        raise Unsupported(f"pyhms/demes: constructor oracles {sigs}, the proofs expect {want}")
    out.append(init_from_config(ast.parse(open(f"{repo}/{INIT}").read()), amod))
    fns.append(f"{INIT}:init_from_config")
    out.append(tree_init(ast.parse(open(f"{repo}/{TREE}").read())))
    fns.append(f"{TREE}:DemeTree.__init__")
    return {"GenCtor.v": "\n".join(out)}, fns


class _Order:
    """front end `order`: Individual.__lt__ / __eq__ under functools.total_ordering -> Gen/GenOrder.v"""
    OUTPUTS = ["GenOrder.v"]

    @staticmethod
    def translate(repo):
        out = ["(* GENERATED from pyhms/core/individual.py by hv/translate/ctor_py.py (front end `order`) — do not edit *)",
               "From Coq Require Import Bool.", "From HV Require Import F64 WMonad GenProblem.", ""]
        out += ordering(ast.parse(open(f"{repo}/{INDIVIDUAL}").read()))
        return {"GenOrder.v": "\n".join(out)}, [f"{INDIVIDUAL}:Individual.__lt__", f"{INDIVIDUAL}:Individual.__eq__", f"{INDIVIDUAL}:@total_ordering"]


ORDER = _Order()
