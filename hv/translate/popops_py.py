"""numpy array code behind selection (C12, C13, C04) and fitness invalidation (C02):
pyhms/core/population.py (topk, merge, __getitem__, update_genome), BaseSEA.select_new_population (sea.py), the replacement step of
DE.run / SHADE.run and the "keep the parent's fitness only where the genome is identical" rule of the four DE operators (de.py)
-> Gen/GenPop.v : functions on populations as two aligned lists (genomes, fitness keys).

A translator for the array idioms those few lines use (elementwise comparison of fitness arrays, boolean-mask / index-array
selection, ~mask, np.concatenate, np.argsort with a slice, np.where / np.all(.. == .., axis=1) / np.any(.. != .., axis=1), np.nan);
np.argsort's result is an oracle argument (any permutation sorting the fitnesses, ties in any order).  Fail-closed."""
import ast

from .core import Unsupported, find_def
from .driver_py import dotted
from .lazy import Inliner

OUTPUTS = ["GenPop.v"]
POP, SEA, DE = "pyhms/core/population.py", "pyhms/demes/single_pop_eas/sea.py", "pyhms/demes/single_pop_eas/de.py"


class ATr:
    """array expressions; env: name -> (code, type); types: pop, arrG, arrF, arrO (optional fitness, None = NaN), mask, idx, nat, bool"""

    def __init__(self, src, orders, bind=None):
        self.src, self.orders = src, list(orders)   # names of argsort oracles still available, in evaluation order
        self.bind = bind or {}                       # ast.dump of an expression -> (code, type): sub-expressions that ARE a given symbol

    def bad(self, node, what):
        raise Unsupported(f"{self.src}:{getattr(node, 'lineno', '?')}: unsupported {what}: {ast.unparse(node)[:160]}")

    def expr(self, e, env, index_ty="mask"):
        dmp = ast.dump(e)
        if dmp in self.bind:
            return self.bind[dmp]
        if isinstance(e, ast.Name):
            if e.id in env:
                return env[e.id]
            self.bad(e, "unbound name")
        if isinstance(e, ast.Constant) and isinstance(e.value, int) and 0 <= e.value < 100:
            return (str(e.value), "nat")
        if isinstance(e, ast.Attribute):
            d = dotted(e)
            if d == "np.nan":
                return ("None", "nan")
            if d is not None and d.endswith(".problem.maximize"):
                return ("mx", "bool")
            base = self.expr(e.value, env, index_ty)
            if base[1] == "problem" and e.attr == "maximize":
                return ("mx", "bool")
            if base[1] == "pop":
                if e.attr == "fitnesses":
                    return (f"(pf {base[0]})", "arrF")
                if e.attr == "genomes":
                    return (f"(pg {base[0]})", "arrG")
                if e.attr == "size":
                    return (f"(length (pg {base[0]}))", "nat")
                if e.attr == "problem":
                    return ("", "problem")
            if base[1] == "popo":
                if e.attr == "fitnesses":
                    return (f"(pfo {base[0]})", "arrO")
                if e.attr == "genomes":
                    return (f"(pgo {base[0]})", "arrG")
                if e.attr == "problem":
                    return ("", "problem")
            self.bad(e, f"attribute .{e.attr} of {base[1]}")
        if isinstance(e, ast.UnaryOp) and isinstance(e.op, ast.Invert):
            v = self.expr(e.operand, env, index_ty)
            if v[1] == "mask":
                return (f"(map negb {v[0]})", "mask")
        if isinstance(e, ast.IfExp):
            c, a, b = self.expr(e.test, env), self.expr(e.body, env, index_ty), self.expr(e.orelse, env, index_ty)
            if c[1] == "bool" and a[1] == b[1]:
                return (f"(if {c[0]} then {a[0]} else {b[0]})", a[1])
            self.bad(e, "conditional expression")
        if isinstance(e, ast.Compare) and len(e.ops) == 1:
            a, b = self.expr(e.left, env), self.expr(e.comparators[0], env)
            op = type(e.ops[0])
            if a[1] == b[1] == "arrF" and op in (ast.GtE, ast.LtE):
                f = "(fun x y => Z.leb y x)" if op is ast.GtE else "(fun x y => Z.leb x y)"
                return (f"(map2 {f} {a[0]} {b[0]})", "mask")
            if a[1] == b[1] == "arrG" and op in (ast.Eq, ast.NotEq):
                return (f"(rows_{'eq' if op is ast.Eq else 'ne'} geq {a[0]} {b[0]})", "rowcmp")
            self.bad(e, f"comparison of {a[1]} and {b[1]}")
        if isinstance(e, ast.BinOp) and isinstance(e.op, ast.Sub):
            a, b = self.expr(e.left, env), self.expr(e.right, env)
            if a[1] == b[1] == "nat":
                return (f"({a[0]} - {b[0]})", "nat")
        if isinstance(e, ast.Subscript):
            base = self.expr(e.value, env, index_ty)
            sl = e.slice
            if base[1] == "idx" and isinstance(sl, ast.Slice) and sl.step is None:
                if sl.lower is None and sl.upper is not None:
                    n = self.expr(sl.upper, env)
                    if n[1] == "nat":
                        return (f"(firstn {n[0]} {base[0]})", "idx")
                if sl.upper is None and sl.lower is not None:
                    n = self.expr(sl.lower, env)
                    if n[1] == "nat":
                        return (f"(skipn {n[0]} {base[0]})", "idx")
                self.bad(e, "slice")
            if base[1] == "idx2" and isinstance(sl, ast.Tuple) and len(sl.elts) == 2 and isinstance(sl.elts[0], ast.Call) and dotted(sl.elts[0].func) == "np.arange" and len(sl.elts[0].args) == 1:
                n_, k_ = self.expr(sl.elts[0].args[0], env), self.expr(sl.elts[1], env, "idx")
                if n_[1] == "nat" and k_[1] == "idx":
                    return (f"(map2 (fun (row : list nat) (k : nat) => nth k row O) {base[0]} {k_[0]})", "idx")    # rows[arange(n), k]: one entry per row
                self.bad(e, "row-wise index")
            i = self.expr(sl, env, index_ty)
            if base[1] == "arrF" and i[1] == "idx2":
                return (f"(map (take_idx 0%Z {base[0]}) {i[0]})", "arrF2")
            if base[1] in ("arrG", "arrF", "arrO") and i[1] == "mask":
                return (f"(pick {i[0]} {base[0]})", base[1])
            if base[1] in ("arrG", "arrF") and i[1] == "idx":
                return (f"(take_idx {'gdef' if base[1] == 'arrG' else '0%Z'} {base[0]} {i[0]})", base[1])
            if base[1] == "pop" and i[1] in ("mask", "idx"):
                return (f"(gen_getitem_{i[1]} gdef {base[0]} {i[0]})", "pop")
            self.bad(e, f"index {i[1]} into {base[1]}")
        if isinstance(e, ast.Call):
            d = dotted(e.func)
            if d == "max" and len(e.args) == 2:
                a, b = self.expr(e.args[0], env), self.expr(e.args[1], env)
                if a[1] == b[1] == "nat":
                    return (f"(Nat.max {a[0]} {b[0]})", "nat")
            if d in ("np.argmax", "np.argmin") and len(e.args) == 1 and [k.arg for k in e.keywords] == ["axis"] and isinstance(e.keywords[0].value, ast.Constant) and e.keywords[0].value.value == 1:
                a = self.expr(e.args[0], env, index_ty)
                if a[1] == "arrF2":
                    return (f"(map (first_arg {'true' if d == 'np.argmax' else 'false'}) {a[0]})", "idx")
            if d == "len" and len(e.args) == 1:
                a = self.expr(e.args[0], env, index_ty)
                if a[1] in ("arrF", "arrG"):
                    return (f"(length {a[0]})", "nat")
            if d == "np.argsort" and len(e.args) == 1:
                a = self.expr(e.args[0], env)
                if a[1] == "arrF" and self.orders:
                    return (self.orders[0], "idx")     # the same oracle for every np.argsort of the same array in this function
            if d == "np.concatenate" and len(e.args) == 1 and isinstance(e.args[0], ast.Tuple) and len(e.args[0].elts) == 2:
                a, b = self.expr(e.args[0].elts[0], env), self.expr(e.args[0].elts[1], env)
                if a[1] == b[1] and a[1] in ("arrG", "arrF"):
                    return (f"({a[0]} ++ {b[0]})", a[1])
            if d in ("np.all", "np.any") and len(e.args) == 1 and [k.arg for k in e.keywords] == ["axis"] and isinstance(e.keywords[0].value, ast.Constant) and e.keywords[0].value.value == 1:
                a = self.expr(e.args[0], env)
                want = "(rows_eq " if d == "np.all" else "(rows_ne "
                if a[1] == "rowcmp" and a[0].startswith(want):
                    return (a[0], "mask")
            if d == "np.where" and len(e.args) == 3:
                m, a, b = (self.expr(x, env) for x in e.args)
                if m[1] == "mask" and a[1] == "arrO" and b[1] == "nan":
                    return (f"(where_nan {m[0]} {a[0]})", "arrO")
            if d == "Population" and len(e.args) == 3:
                g, f, p = (self.expr(x, env, index_ty) for x in e.args)
                if g[1] == "arrG" and f[1] == "arrF" and p[1] == "problem":
                    return (f"(mkpop {g[0]} {f[0]})", "pop")
                if g[1] == "arrG" and f[1] == "arrO" and p[1] == "problem":
                    return (f"(mkpopo {g[0]} {f[0]})", "popo")
            if isinstance(e.func, ast.Attribute) and e.func.attr == "merge" and len(e.args) == 1:
                a, b = self.expr(e.func.value, env, index_ty), self.expr(e.args[0], env, index_ty)
                if a[1] == b[1] == "pop":
                    return (f"(gen_merge {a[0]} {b[0]})", "pop")
            if isinstance(e.func, ast.Attribute) and e.func.attr == "topk" and len(e.args) == 1:
                a, k = self.expr(e.func.value, env, index_ty), self.expr(e.args[0], env)
                if a[1] == "pop" and k[1] == "nat" and self.orders:
                    o = self.orders.pop(0)
                    return (f"(gen_topk gdef mx {a[0]} {k[0]} {o})", "pop")
            if isinstance(e.func, ast.Attribute) and e.func.attr in ("to_individuals", "copy") and not e.args:
                return self.expr(e.func.value, env, index_ty)
            if d == "Population.from_individuals" and len(e.args) == 1 and isinstance(e.args[0], ast.Name) and e.args[0].id in env:
                return env[e.args[0].id]
            if d == "self._crossover" and "$trial" in env:
                # the engine's trial population: mutation and crossover produce it, evaluate() (a statement, in place) fills in its fitness
                return env["$trial"]
        self.bad(e, "expression")

    def body(self, stmts, env, index_ty="mask"):
        """straight-line: assignments to fresh locals, then a return"""
        env = dict(env)
        lets = []
        for s in stmts:
            if isinstance(s, ast.Expr) and isinstance(s.value, ast.Constant):
                continue
            if isinstance(s, ast.Assign) and len(s.targets) == 1 and isinstance(s.targets[0], ast.Name):
                c, t = self.expr(s.value, env, index_ty)
                nm = "v_" + s.targets[0].id
                lets.append(f"let {nm} := {c} in")
                env[s.targets[0].id] = (nm, t)
                continue
            if isinstance(s, ast.Return):
                c, t = self.expr(s.value, env, index_ty)
                return "\n  ".join(lets + [c]), t
            self.bad(s, "statement")
        raise Unsupported(f"{self.src}: no return")


PRELUDE = """Section Pop.
Context {G : Type} (geq : G -> G -> bool) (gdef : G).
Record pop := mkpop { pg : list G; pf : list Z }.
Record popo := mkpopo { pgo : list G; pfo : list (option Z) }.    (* fitness None = NaN = "needs evaluation" *)
Fixpoint map2 {A B C} (f : A -> B -> C) (a : list A) (b : list B) : list C :=
  match a, b with x :: a', y :: b' => f x y :: map2 f a' b' | _, _ => [] end.
Definition take_idx {A} (d : A) (l : list A) (idx : list nat) : list A := map (fun i => nth i l d) idx.
Definition rows_eq (eq : G -> G -> bool) (a b : list G) : list bool := map2 eq a b.                     (* np.all(a == b, axis=1) *)
Definition rows_ne (eq : G -> G -> bool) (a b : list G) : list bool := map2 (fun x y => negb (eq x y)) a b.   (* np.any(a != b, axis=1) *)
Definition where_nan (m : list bool) (a : list (option Z)) : list (option Z) := map2 (fun (b : bool) (x : option Z) => if b then x else None) m a.
(* np.argmax / np.argmin along a row: the position of the FIRST extremum *)
Fixpoint first_arg_from (mx : bool) (best : Z) (bi i : nat) (l : list Z) : nat :=
  match l with [] => bi | x :: r => if (if mx then Z.ltb best x else Z.ltb x best) then first_arg_from mx x i (S i) r else first_arg_from mx best bi (S i) r end.
Definition first_arg (mx : bool) (l : list Z) : nat := match l with [] => O | x :: r => first_arg_from mx x O 1 r end.
"""


def ret_of(fn, src):
    body = [s_ for s_ in fn.body if not (isinstance(s_, ast.Expr) and isinstance(s_.value, ast.Constant))]
    if not body or not isinstance(body[-1], ast.Return) or body[-1].value is None:
        raise Unsupported(f"{src}:{fn.lineno}: {fn.name} does not end with `return <value>`")
    return body[-1]


def translate(repo):
    out = ["(* GENERATED from pyhms/core/population.py, sea.py (BaseSEA.select_new_population) and de.py by hv/translate/popops_py.py — do not edit *)",
           "From Coq Require Import List Bool Arith ZArith.", "From HV Require Import Ord Select.", "Import ListNotations.", "", PRELUDE]
    fns = []
    pmod = ast.parse(open(f"{repo}/{POP}").read())
    SELF = {"self": ("p", "pop")}

    def result(mod, src, cls, meth, env, orders=(), index_ty="mask", want="pop"):
        fn = find_def(mod, meth, cls)
        r = ret_of(fn, src)
        e = Inliner(fn, src).inline(r.value, r)
        code, t = ATr(src, orders).expr(e, env, index_ty)
        if t != want:
            raise Unsupported(f"{src}:{fn.lineno}: {cls}.{meth} returns {t}")
        return code, fn

    # __getitem__ : the same index selects genomes and fitnesses (twice: boolean mask / integer index array)
    fn = find_def(pmod, "__getitem__", "Population")
    ixn = fn.args.args[1].arg
    for ity, cty in (("mask", "list bool"), ("idx", "list nat")):
        code, _ = result(pmod, POP, "Population", "__getitem__", {**SELF, ixn: ("ix", ity)}, index_ty=ity)
        out.append(f"Definition gen_getitem_{ity} (p : pop) (ix : {cty}) : pop :=\n  {code}.\n")
    fn = find_def(pmod, "merge", "Population")
    code, _ = result(pmod, POP, "Population", "merge", {**SELF, fn.args.args[1].arg: ("q", "pop")})
    out.append(f"Definition gen_merge (p q : pop) : pop :=\n  {code}.\n")
    fn = find_def(pmod, "topk", "Population")
    code, _ = result(pmod, POP, "Population", "topk", {**SELF, fn.args.args[1].arg: ("k", "nat")}, orders=["order"], index_ty="idx")
    out.append(f"Definition gen_topk (mx : bool) (p : pop) (k : nat) (order : list nat) : pop :=\n  {code}.\n")
    fns += [f"{POP}:Population.{m}" for m in ("__getitem__", "merge", "topk")]
    # from_individuals / to_individuals: genome and fitness of an individual travel together, in order; the problem is the individuals' own
    from .lazy import canon as _canon
    fn = find_def(pmod, "from_individuals", "Population")
    r = ret_of(fn, POP)
    a1 = fn.args.args[1].arg
    got = ast.unparse(_canon(Inliner(fn, POP).inline(r.value, r)))
    if got not in (f"cls(np.array([_c0.genome for _c0 in {a1}], dtype=np.float64), np.array([_c0.fitness for _c0 in {a1}], dtype=np.float64), {a1}[0].problem)",
                   f"Population(np.array([_c0.genome for _c0 in {a1}], dtype=np.float64), np.array([_c0.fitness for _c0 in {a1}], dtype=np.float64), {a1}[0].problem)"):
        raise Unsupported(f"{POP}:{fn.lineno}: Population.from_individuals is not Population(genomes of the individuals, their fitness values, their problem): {got[:160]}")
    out.append("Definition gen_from_individuals (inds : list (G * Z)) : pop := mkpop (map fst inds) (map snd inds).\n")
    fn = find_def(pmod, "to_individuals", "Population")
    r = ret_of(fn, POP)
    got = ast.unparse(_canon(Inliner(fn, POP).inline(r.value, r)))
    if got != "[Individual(_c0, self.problem, _c0_1) for _c0, _c0_1 in zip(self.genomes, self.fitnesses)]":
        raise Unsupported(f"{POP}:{fn.lineno}: Population.to_individuals is not [Individual(genome, self.problem, fitness) for genome, fitness in zip(genomes, fitnesses)]: {got[:160]}")
    out.append("Definition gen_to_individuals (p : pop) : list (G * Z) := combine (pg p) (pf p).\n")
    fns += [f"{POP}:Population.from_individuals", f"{POP}:Population.to_individuals"]

    # update_genome: self.genomes[M] = new[M] ; self.fitnesses[M] = np.nan   (either order), M = the rows whose genome changed
    fn = find_def(pmod, "update_genome", "Population")
    newn = fn.args.args[1].arg
    inl = Inliner(fn, POP)
    sets = [s_ for s_ in fn.body if isinstance(s_, ast.Assign) and len(s_.targets) == 1 and isinstance(s_.targets[0], ast.Subscript)]
    others = [s_ for s_ in fn.body if s_ not in sets and not (isinstance(s_, ast.Expr) and isinstance(s_.value, ast.Constant))
              and not (isinstance(s_, ast.Assign) and len(s_.targets) == 1 and isinstance(s_.targets[0], ast.Name))]
    gset = [s_ for s_ in sets if dotted(s_.targets[0].value) == "self.genomes"]
    fset = [s_ for s_ in sets if dotted(s_.targets[0].value) == "self.fitnesses"]
    if others or len(sets) != 2 or len(gset) != 1 or len(fset) != 1 or dotted(fset[0].value) != "np.nan":
        raise Unsupported(f"{POP}:{fn.lineno}: update_genome is not `self.genomes[M] = new[M]; self.fitnesses[M] = np.nan`")
    mg, mf = inl.inline(gset[0].targets[0].slice, gset[0]), inl.inline(fset[0].targets[0].slice, fset[0])
    rhs = inl.inline(gset[0].value, gset[0])
    if ast.dump(mg) != ast.dump(mf) or not (isinstance(rhs, ast.Subscript) and isinstance(rhs.value, ast.Name) and rhs.value.id == newn and ast.dump(rhs.slice) == ast.dump(mg)):
        raise Unsupported(f"{POP}:{fn.lineno}: update_genome: the two assignments do not use one and the same mask of changed rows")
    m, t = ATr(POP, []).expr(mg, {"self": ("p", "popo"), newn: ("new", "arrG")})
    if t != "mask":
        raise Unsupported(f"{POP}: update_genome mask has type {t}")
    out.append("Definition gen_update_genome (p : popo) (new : list G) : popo :=\n"
               f"  let v_mask := {m} in\n  mkpopo (map2 (fun (b : bool) (gn : G * G) => if b then snd gn else fst gn) v_mask (combine (pgo p) new))\n"
               "         (map2 (fun (b : bool) (f : option Z) => if b then None else f) v_mask (pfo p)).\n")
    fns.append(f"{POP}:Population.update_genome")
    # evaluate: fitnesses[M] = [problem.evaluate(genome, ...) for genome in genomes[M]], M = the rows without a fitness (NaN)
    from .lazy import normalise as _normalise
    fn = _normalise(find_def(pmod, "evaluate", "Population"))
    inl = Inliner(fn, POP)
    sets = [s_ for s_ in fn.body if isinstance(s_, ast.Assign) and len(s_.targets) == 1 and isinstance(s_.targets[0], ast.Subscript)]
    others = [s_ for s_ in fn.body if s_ not in sets and not (isinstance(s_, ast.Expr) and isinstance(s_.value, ast.Constant))
              and not (isinstance(s_, ast.Assign) and len(s_.targets) == 1 and isinstance(s_.targets[0], ast.Name))]
    ok = not others and len(sets) == 1 and dotted(sets[0].targets[0].value) == "self.fitnesses"
    if ok:
        from .lazy import canon
        m_ = ast.unparse(inl.inline(sets[0].targets[0].slice, sets[0]))
        rhs = ast.unparse(canon(inl.inline(sets[0].value, sets[0])))
        ok = m_ == "np.isnan(self.fitnesses)" and rhs == f"[self.problem.evaluate(_c0, *args, **kwargs) for _c0 in self.genomes[{m_}]]"
    if not ok:
        raise Unsupported(f"{POP}:{fn.lineno}: Population.evaluate is not `fitnesses[nan rows] = [problem.evaluate(genome) for genome in genomes[nan rows]]`")
    out.append("(* only the rows without a fitness are sent to the problem, in row order; the others keep their value *)\n"
               "Definition gen_evaluate (f : G -> Z) (p : popo) : popo :=\n"
               "  mkpopo (pgo p) (map2 (fun (g : G) (fo : option Z) => match fo with None => Some (f g) | Some v => Some v end) (pgo p) (pfo p)).\n"
               "Definition gen_evaluate_requests (p : popo) : list G :=\n"
               "  map fst (filter (fun r => match snd r with None => true | Some _ => false end) (combine (pgo p) (pfo p))).\n")
    fns.append(f"{POP}:Population.evaluate")
    out.append("End Pop.\nArguments mkpop {G}. Arguments pg {G}. Arguments pf {G}. Arguments mkpopo {G}. Arguments pgo {G}. Arguments pfo {G}.\n")
    out.append("Section Engines.\nContext {G : Type} (geq : G -> G -> bool) (gdef : G).\n")

    # BaseSEA.select_new_population
    smod = ast.parse(open(f"{repo}/{SEA}").read())
    fn = find_def(smod, "select_new_population", "BaseSEA")
    a = [x.arg for x in fn.args.args]
    r = ret_of(fn, SEA)
    e = Inliner(fn, SEA).inline(r.value, r)
    tr = ATr(SEA, ["order1", "order2"], bind={ast.dump(ast.parse("self.k_elites", mode="eval").body): ("k_elites", "nat")})
    code, t = tr.expr(e, {a[1]: ("parents", "pop"), a[2]: ("offspring", "pop")}, "idx")
    if t != "pop":
        raise Unsupported(f"{SEA}: select_new_population returns {t}")
    out.append(f"Definition gen_select_new_population (mx : bool) (k_elites : nat) (parents offspring : pop (G:=G)) (order1 order2 : list nat) : pop (G:=G) :=\n  {code}.\n")
    fns.append(f"{SEA}:BaseSEA.select_new_population")

    # BaseSEA.run / SEAWithAdaptiveMutation.run / MWEA.run: which population plays which role (symbolic data flow)
    def sea_run(cls, base=None):
        fn = find_def(smod, "run", cls)
        an = [x.arg for x in fn.args.args]
        if len(an) < 2 or an[0] != "self":
            raise Unsupported(f"{SEA}:{fn.lineno}: {cls}.run signature {an}")
        env = {}

        def val(e_):
            """symbolic value of a population expression: Coq code over `parents` and `pipeline`"""
            if isinstance(e_, ast.Name) and e_.id in env:
                return env[e_.id]
            if isinstance(e_, ast.Call):
                d_ = dotted(e_.func)
                if d_ == "Population.from_individuals" and len(e_.args) == 1 and isinstance(e_.args[0], ast.Name) and e_.args[0].id == an[1]:
                    return "parents"
                if isinstance(e_.func, ast.Attribute) and e_.func.attr in ("copy", "to_individuals") and not e_.args and not e_.keywords:
                    return val(e_.func.value)          # a value copy / the same individuals as a list
                if d_ == "self.select_new_population" and len(e_.args) == 2 and not e_.keywords:
                    return f"(gen_select_new_population mx k_elites {val(e_.args[0])} {val(e_.args[1])} order1 order2)"
                if base and isinstance(e_.func, ast.Attribute) and e_.func.attr == "run" and isinstance(e_.func.value, ast.Call) and dotted(e_.func.value.func) == "super" \
                        and e_.args and isinstance(e_.args[0], ast.Name) and e_.args[0].id == an[1]:
                    return f"(gen_{base}_run mx k_elites pipeline parents order1 order2)"
            raise Unsupported(f"{SEA}:{getattr(e_, 'lineno', '?')}: {cls}.run: unsupported population expression {ast.unparse(e_)[:120]}")

        def mentions_pop(n_):
            return any(isinstance(x, ast.Name) and (x.id in env or x.id == an[1]) for x in ast.walk(n_))
        result_ = None
        for s_ in fn.body:
            if isinstance(s_, ast.Expr) and isinstance(s_.value, ast.Constant):
                continue
            if isinstance(s_, ast.AnnAssign) and s_.value is not None:
                s_ = ast.copy_location(ast.Assign(targets=[s_.target], value=s_.value), s_)
            if isinstance(s_, ast.Return) and s_.value is not None:
                result_ = val(s_.value)
                break
            if isinstance(s_, ast.Assign) and len(s_.targets) == 1 and isinstance(s_.targets[0], ast.Name):
                try:
                    env[s_.targets[0].id] = val(s_.value)
                    continue
                except Unsupported:
                    if isinstance(s_.value, ast.Call) and any(dotted(n_.func) in ("Population.from_individuals", "self.select_new_population") for n_ in ast.walk(s_.value) if isinstance(n_, ast.Call)):
                        raise
                    if any(isinstance(x, ast.Name) and x.id in env for x in ast.walk(s_.value)):
                        raise
                    continue          # a value that is not a population (a std, an array of stds): not modelled
            if isinstance(s_, ast.For) and not s_.orelse and dotted(s_.iter) == "self.variational_operators_pipeline" and isinstance(s_.target, ast.Name) and len(s_.body) == 1 \
                    and isinstance(s_.body[0], ast.Assign) and isinstance(s_.body[0].targets[0], ast.Name) and isinstance(s_.body[0].value, ast.Call) \
                    and dotted(s_.body[0].value.func) == s_.target.id and len(s_.body[0].value.args) == 1 and dotted(s_.body[0].value.args[0]) == s_.body[0].targets[0].id \
                    and s_.body[0].targets[0].id in env:
                nm_ = s_.body[0].targets[0].id
                env[nm_] = f"(pipeline {env[nm_]})"      # every operator of the pipeline, in order, each applied to the result of the one before
                continue
            if isinstance(s_, ast.Assert) and not mentions_pop(s_):
                continue
            if isinstance(s_, ast.Assign) and not any(isinstance(x, ast.Name) and x.id in env for x in ast.walk(s_)):
                continue              # e.g. the adaptive engine setting its mutation's step size
            raise Unsupported(f"{SEA}:{s_.lineno}: {cls}.run: unsupported statement {ast.unparse(s_)[:120]}")
        if result_ is None:
            raise Unsupported(f"{SEA}:{fn.lineno}: {cls}.run returns nothing")
        return result_
    for cls, base in (("BaseSEA", None), ("SEAWithAdaptiveMutation", "BaseSEA"), ("MWEA", None)):
        out.append(f"Definition gen_{cls}_run (mx : bool) (k_elites : nat) (pipeline : pop (G:=G) -> pop (G:=G)) (parents : pop (G:=G)) (order1 order2 : list nat) : pop (G:=G) :=\n  {sea_run(cls, base)}.\n")
        fns.append(f"{SEA}:{cls}.run")
    for cls in ("SEA", "SEAWithCrossover", "GAStyleSEA"):
        c_ = [n_ for n_ in smod.body if isinstance(n_, ast.ClassDef) and n_.name == cls]
        if not c_ or [dotted(b_) for b_ in c_[0].bases] != ["BaseSEA"] or any(isinstance(n_, ast.FunctionDef) and n_.name in ("run", "select_new_population") for n_ in c_[0].body):
            raise Unsupported(f"{SEA}: {cls} is not a BaseSEA that inherits run() and select_new_population()")

    # the mutation / crossover operators of the SEA family: copy, update_genome(new genomes), [evaluate], return the copy
    def op_flow(cls):
        fn = find_def(smod, "__call__", cls)
        an = [x.arg for x in fn.args.args]
        if len(an) != 2:
            raise Unsupported(f"{SEA}:{fn.lineno}: {cls}.__call__ signature")
        copies = [s_ for s_ in fn.body if isinstance(s_, ast.Assign) and isinstance(s_.targets[0], ast.Name) and ast.unparse(s_.value) == f"{an[1]}.copy()"]
        ret = [s_ for s_ in fn.body if isinstance(s_, ast.Return)]
        if len(copies) != 1 or len(ret) != 1 or fn.body[-1] is not ret[0] or not isinstance(ret[0].value, ast.Name) or ret[0].value.id != copies[0].targets[0].id:
            raise Unsupported(f"{SEA}:{fn.lineno}: {cls}.__call__ does not work on one copy of its argument and return that copy")
        cn = copies[0].targets[0].id
        # every statement that calls a method of the copy or stores into it, in order, with the condition it is under
        acts = []

        def walk(stmts, cond):
            for s_ in stmts:
                if isinstance(s_, ast.If):
                    if any(isinstance(n_, ast.Name) and n_.id == cn for n_ in ast.walk(s_.test)):
                        raise Unsupported(f"{SEA}:{s_.lineno}: {cls}.__call__: a test on the copy")
                    walk(s_.body, cond + [ast.unparse(s_.test)])
                    walk(s_.orelse, cond + ["not " + ast.unparse(s_.test)])
                    continue
                if isinstance(s_, (ast.For, ast.While)):
                    for n_ in ast.walk(s_):
                        if isinstance(n_, ast.Call) and isinstance(n_.func, ast.Attribute) and isinstance(n_.func.value, ast.Name) and n_.func.value.id == cn:
                            raise Unsupported(f"{SEA}:{s_.lineno}: {cls}.__call__: a method of the copy is called in a loop")
                        if isinstance(n_, (ast.Assign, ast.AugAssign)):
                            for t_ in (n_.targets if isinstance(n_, ast.Assign) else [n_.target]):
                                if any(isinstance(x, ast.Name) and x.id == cn for x in ast.walk(t_)):
                                    raise Unsupported(f"{SEA}:{s_.lineno}: {cls}.__call__: the copy is stored into in a loop")
                    continue
                for n_ in ast.walk(s_):
                    if isinstance(n_, ast.Call) and isinstance(n_.func, ast.Attribute) and isinstance(n_.func.value, ast.Name) and n_.func.value.id == cn:
                        acts.append((n_.func.attr, cond, n_))
                    if isinstance(n_, (ast.Assign, ast.AugAssign)):
                        for t_ in (n_.targets if isinstance(n_, ast.Assign) else [n_.target]):
                            if not isinstance(t_, ast.Name) and any(isinstance(x, ast.Name) and x.id == cn for x in ast.walk(t_)):
                                raise Unsupported(f"{SEA}:{s_.lineno}: {cls}.__call__: the copy is stored into directly")
        walk(fn.body, [])
        acts = [a_ for a_ in acts if a_[0] != "copy"]
        names = [a_[0] for a_ in acts]
        if names == ["update_genome", "evaluate"] and not acts[0][1] and len(acts[0][2].args) == 1 and not acts[1][2].args and not acts[1][2].keywords:
            if not acts[1][1]:
                return "gen_evaluate f (gen_update_genome geq p new)"
            if acts[1][1] == ["self.evaluate_fitness"]:
                return "if evaluate_fitness then gen_evaluate f (gen_update_genome geq p new) else gen_update_genome geq p new"
        raise Unsupported(f"{SEA}:{fn.lineno}: {cls}.__call__ is not copy; update_genome(new genomes); evaluate() [if self.evaluate_fitness]; return the copy — it does {[(a_[0], a_[1]) for a_ in acts]}")
    for cls in ("GaussianMutation", "UniformMutation", "ArithmeticCrossover"):
        out.append(f"Definition gen_{cls}_call (f : G -> Z) (evaluate_fitness : bool) (p : popo (G:=G)) (new : list G) : popo (G:=G) :=\n  {op_flow(cls)}.\n")
        fns.append(f"{SEA}:{cls}.__call__[flow]")

    # TournamentSelection: the rows of the given population at the winners' indices; the draw of the tournaments is an oracle
    fn = find_def(smod, "__call__", "TournamentSelection")
    r = ret_of(fn, SEA)
    e = Inliner(fn, SEA).inline(r.value, r)
    draws = {ast.dump(n_): n_ for n_ in ast.walk(e) if isinstance(n_, ast.Call) and dotted(n_.func) == "np.random.randint"}
    if len(draws) != 1:
        raise Unsupported(f"{SEA}:{fn.lineno}: TournamentSelection draws its tournaments {len(draws)} times")
    dr = list(draws.values())[0]
    popn = fn.args.args[1].arg
    if not (len(dr.args) == 3 and ast.unparse(dr.args[0]) == "0" and ast.unparse(dr.args[1]) == f"len({popn}.copy().fitnesses)"
            and ast.unparse(dr.args[2]) == f"(len({popn}.copy().fitnesses), self.tournament_size)"):
        raise Unsupported(f"{SEA}:{fn.lineno}: TournamentSelection: the tournaments are not np.random.randint(0, n, (n, tournament_size)): {ast.unparse(dr)[:120]}")
    code, t = ATr(SEA, [], bind={ast.dump(dr): ("tour", "idx2")}).expr(e, {popn: ("p", "pop")}, "idx")
    if t != "pop":
        raise Unsupported(f"{SEA}: TournamentSelection returns {t}")
    out.append(f"Definition gen_TournamentSelection_call (mx : bool) (p : pop (G:=G)) (tour : list (list nat)) : pop (G:=G) :=\n  {code}.\n")
    fns.append(f"{SEA}:TournamentSelection.__call__")

    # DE.run / SHADE.run: what is returned, in terms of the parents and the evaluated trial population
    dmod = ast.parse(open(f"{repo}/{DE}").read())
    for cls in ("DE", "SHADE"):
        fn = find_def(dmod, "run", cls)
        evals = [s_ for s_ in fn.body if isinstance(s_, ast.Expr) and isinstance(s_.value, ast.Call) and isinstance(s_.value.func, ast.Attribute) and s_.value.func.attr == "evaluate"]
        if len(evals) != 1:
            raise Unsupported(f"{DE}:{fn.lineno}: {cls}.run evaluates {len(evals)} populations")
        r = ret_of(fn, DE)
        e = Inliner(fn, DE).inline(r.value, r)
        code, t = ATr(DE, []).expr(e, {fn.args.args[1].arg: ("parents", "pop"), "$trial": ("trial", "pop")})
        if t != "pop":
            raise Unsupported(f"{DE}: {cls}.run returns {t}")
        out.append(f"Definition gen_{cls}_result (mx : bool) (trial parents : pop (G:=G)) : pop (G:=G) :=\n  {code}.\n")
        fns.append(f"{DE}:{cls}.run[replacement]")
        # the data flow of run(): which population each stage receives (mutation, crossover, evaluate are abstract stages)
        pa = fn.args.args[1].arg
        sym = {}
        for s_ in fn.body:
            if isinstance(s_, ast.AnnAssign) and s_.value is not None:
                s_ = ast.copy_location(ast.Assign(targets=[s_.target], value=s_.value), s_)
            if isinstance(s_, ast.Assign) and len(s_.targets) == 1 and isinstance(s_.targets[0], ast.Name):
                v_, t_ = s_.value, s_.targets[0].id
                if isinstance(v_, ast.Call):
                    d_ = dotted(v_.func)
                    if d_ == "Population.from_individuals" and len(v_.args) == 1 and ast.unparse(v_.args[0]) == pa:
                        sym[t_] = "parents"
                        continue
                    if isinstance(v_.func, ast.Attribute) and v_.func.attr == "copy" and not v_.args and isinstance(v_.func.value, ast.Name) and v_.func.value.id in sym:
                        sym[t_] = sym[v_.func.value.id]
                        continue
                    def symval(a_):
                        """a population-valued argument: a tracked local, or a copy of one"""
                        if isinstance(a_, ast.Name) and a_.id in sym:
                            return sym[a_.id]
                        if isinstance(a_, ast.Call) and isinstance(a_.func, ast.Attribute) and a_.func.attr == "copy" and not a_.args and not a_.keywords:
                            return symval(a_.func.value)
                        return None
                    if d_ == "self._mutation" and v_.args and symval(v_.args[0]) is not None \
                            and not any(isinstance(n_, ast.Name) and n_.id in sym for a_ in v_.args[1:] for n_ in ast.walk(a_)):
                        sym[t_] = f"(mutation {symval(v_.args[0])})"
                        continue
                    if d_ == "self._crossover" and len(v_.args) >= 2 and all(symval(a_) is not None for a_ in v_.args[:2]) \
                            and not any(isinstance(n_, ast.Name) and n_.id in sym for a_ in v_.args[2:] for n_ in ast.walk(a_)):
                        sym[t_] = f"(crossover {symval(v_.args[0])} {symval(v_.args[1])})"
                        continue
                if t_ in sym:
                    raise Unsupported(f"{DE}:{s_.lineno}: {cls}.run: unsupported assignment to a population {ast.unparse(s_)[:100]}")
                continue
            if isinstance(s_, ast.Expr) and isinstance(s_.value, ast.Call) and isinstance(s_.value.func, ast.Attribute) and s_.value.func.attr == "evaluate" \
                    and isinstance(s_.value.func.value, ast.Name) and s_.value.func.value.id in sym and not s_.value.args:
                sym[s_.value.func.value.id] = f"(evaluate {sym[s_.value.func.value.id]})"
                continue
        rnames = [k_ for k_, v_ in sym.items() if v_.startswith("(evaluate ")]
        if len(rnames) != 1:
            raise Unsupported(f"{DE}:{fn.lineno}: {cls}.run: not exactly one evaluated trial population")
        used = {n_.id for n_ in ast.walk(r.value) if isinstance(n_, ast.Name)} | {n_.id for s2 in fn.body for n_ in ast.walk(s2) if isinstance(s2, ast.Assign) and isinstance(n_, ast.Name)}
        if rnames[0] not in used:
            raise Unsupported(f"{DE}:{fn.lineno}: {cls}.run: the evaluated trial population is not what the replacement looks at")
        out.append(f"Definition gen_{cls}_run (mutation : pop (G:=G) -> pop (G:=G)) (crossover : pop (G:=G) -> pop (G:=G) -> pop (G:=G)) (evaluate : pop (G:=G) -> pop (G:=G)) (mx : bool) (parents : pop (G:=G)) : pop (G:=G) :=\n"
                   f"  gen_{cls}_result mx {sym[rnames[0]]} parents.\n")
        fns.append(f"{DE}:{cls}.run[data flow]")

    # the keep-fitness rule of the four operators: the fitness array of the Population they return
    for cls in ("BinaryMutation", "BinaryMutationWithDither", "CurrentToPBestMutation", "Crossover"):
        fn = find_def(dmod, "__call__", cls)
        r = ret_of(fn, DE)
        e = Inliner(fn, DE).inline(r.value, r)
        if not (isinstance(e, ast.Call) and dotted(e.func) == "Population" and len(e.args) == 3):
            raise Unsupported(f"{DE}:{fn.lineno}: {cls}.__call__ does not return Population(new_genomes, new_fitness, problem)")
        popn = fn.args.args[1].arg
        c, t = ATr(DE, [], bind={ast.dump(e.args[0]): ("new", "arrG")}).expr(e.args[1], {popn: ("p", "popo")})
        if t != "arrO":
            raise Unsupported(f"{DE}: {cls} returns a fitness array of type {t}")
        out.append(f"Definition gen_{cls}_new_fitness (p : popo (G:=G)) (new : list G) : list (option Z) :=\n  {c}.\n")
        fns.append(f"{DE}:{cls}.__call__[new_fitness]")
    out.append("End Engines.\n")
    text = "\n".join(out).replace("(gen_getitem_mask gdef ", "(gen_getitem_mask ")
    return {"GenPop.v": text}, fns
