"""pyhms/core/problem.py -> Gen/GenProblem.v: the five evaluate methods (monadic), FunctionProblem.worse_than,
the delegating members of ProblemWrapper and the list of members the subclasses override."""
import ast
from .core import MonadTr, PureTr, Unsupported, Const, find_def, class_bases

SRC = "pyhms/core/problem.py"
OUTPUTS = ["GenProblem.v"]
REBIND = "self <- get_self ;; inner <- get_inner ;;"
FIELDS = {"_n_evals": ("n_evals", "Z"), "_eval_cutoff": ("eval_cutoff", "Z"), "_global_optima": ("global_optima", "F"),
          "precision": ("precision", "F"), "ETA": ("eta", "option Z"), "hit_precision": ("hit_precision", "B"),
          "_durations": ("durations", "list Z")}
WRAPPERS = ["ProblemWrapper", "EvalCountingProblem", "EvalCutoffProblem", "PrecisionCutoffProblem", "StatsGatheringProblem"]
DELEGATED = ["worse_than", "bounds", "maximize", "equivalent"]


def _is_self_inner(n):
    return isinstance(n, ast.Attribute) and n.attr == "_inner" and isinstance(n.value, ast.Name) and n.value.id == "self"


def _passes_args(call, first):
    """the call forwards (phenome, *args, **kwargs)"""
    ok = len(call.args) == 2 and isinstance(call.args[0], ast.Name) and call.args[0].id == first and isinstance(call.args[1], ast.Starred)
    return ok and len(call.keywords) == 1 and call.keywords[0].arg is None


def mk_effects(bases, first):
    def eff(tr, e):
        if not isinstance(e, ast.Call):
            return None
        f = e.func
        if isinstance(f, ast.Attribute) and f.attr == "evaluate" and _is_self_inner(f.value):
            if not _passes_args(e, first):
                tr.bad(e, "inner evaluate not called with (phenome, *args, **kwargs)")
            return f"(call_inner {first})", "F"
        if isinstance(f, ast.Attribute) and f.attr == "evaluate" and isinstance(f.value, ast.Call) and isinstance(f.value.func, ast.Name) and f.value.func.id == "super":
            if not _passes_args(e, first):
                tr.bad(e, "super().evaluate not called with (phenome, *args, **kwargs)")
            return f"({bases[0]}_evaluate {first})", "F"
        if tr.dotted(f) == "time.perf_counter" and not e.args:
            return "tick", "Z"
        return None
    return [eff]


def _abs(tr, node, args, kw):
    (c, t), = args
    if t == "F":
        return f"(fabs {c})", "F"
    tr.bad(node, "abs on non-float")


def _isnan(tr, node, args, kw):
    (c, t), = args
    if t == "F":
        return f"(fis_nan {c})", "B"
    tr.bad(node, "isnan on non-float")


def _choice(tr, node):
    return "nan_coin", "B"


ATTRS = {("wobj", a): (f"({f} {{0}})", t) for a, (f, t) in FIELDS.items()}
ATTRS[("inner", "maximize")] = ("(inner_maximize {0})", "B")


def translate(repo):
    path = f"{repo}/{SRC}"
    mod = ast.parse(open(path).read())
    out = ["(* GENERATED from %s by hv/translate/problem_py.py — do not edit *)" % SRC,
           "From Coq Require Import ZArith List Bool String.", "From HV Require Import F64 WMonad.", "Import ListNotations.", "Open Scope Z_scope.", "",
           "Section Gen.", "Context {G I : Type} (ops : inner_ops G I).",
           "Notation call_inner := (call_inner ops).", "Notation inner_maximize := (inner_maximize ops).", ""]
    fns = []
    overrides = []
    for cls in WRAPPERS:
        bases = class_bases(mod, cls)
        cnode = next(n for n in mod.body if isinstance(n, ast.ClassDef) and n.name == cls)
        members = {n.name for n in cnode.body if isinstance(n, ast.FunctionDef)}
        if cls != "ProblemWrapper":
            overrides += [(cls, m) for m in DELEGATED if m in members]
        if "evaluate" not in members:
            if cls == "ProblemWrapper":
                raise Unsupported(f"{SRC}: ProblemWrapper.evaluate missing")
            out.append(f"Definition {cls}_evaluate (phenome : G) : W F := {bases[0]}_evaluate phenome.\n")
            continue
        fn = find_def(mod, "evaluate", cls)
        first = fn.args.args[1].arg
        if fn.args.vararg is None or fn.args.kwarg is None:
            raise Unsupported(f"{SRC}:{fn.lineno}: evaluate signature")
        tr = MonadTr(SRC, FIELDS, mk_effects(bases, first), REBIND,
                     env={"self": ("self", "wobj"), "np.inf": ("pos_inf", "F")},
                     attrs={**ATTRS, ("wobj", "_inner"): ("inner", "inner")},
                     calls={"abs": _abs})
        body = tr.mblock(fn.body)
        out.append(f"Definition {cls}_evaluate ({first} : G) : W F :=\n {REBIND}\n {body}.\n")
        fns.append(f"{SRC}:{cls}.evaluate")
    out.append("End Gen.\n")
    # FunctionProblem.worse_than (pure)
    fn = find_def(mod, "worse_than", "FunctionProblem")
    a1, a2 = fn.args.args[1].arg, fn.args.args[2].arg
    tr = PureTr(SRC, env={a1: (a1, "F"), a2: (a2, "F"), "self": ("self", "fp")},
                attrs={("fp", "maximize"): ("maximize", "B"), ("fp", "_maximize"): ("maximize", "B")},
                calls={"isnan": _isnan, "np.isnan": _isnan})
    tr.rawcalls = {"random.choice": _choice}
    body = tr.block(fn.body)
    out.append(f"Definition FunctionProblem_worse_than (maximize : bool) ({a1} {a2} : F) : bool :=\n {body}.\n")
    fns.append(f"{SRC}:FunctionProblem.worse_than")
    fn = find_def(mod, "equivalent", "Problem")
    a1, a2 = fn.args.args[1].arg, fn.args.args[2].arg
    tr = PureTr(SRC, env={a1: (a1, "F"), a2: (a2, "F")})
    out.append(f"Definition Problem_equivalent ({a1} {a2} : F) : bool :=\n {tr.block(fn.body)}.\n")
    fns.append(f"{SRC}:Problem.equivalent")
    # delegation of ProblemWrapper: each member must return the inner problem's member
    for m in ("worse_than", "bounds", "maximize"):
        fn = find_def(mod, m, "ProblemWrapper")
        ret = [s for s in fn.body if not (isinstance(s, ast.Expr) and isinstance(s.value, ast.Constant))]
        ok = len(ret) == 1 and isinstance(ret[0], ast.Return)
        if ok:
            v = ret[0].value
            if m == "worse_than":
                ok = isinstance(v, ast.Call) and isinstance(v.func, ast.Attribute) and v.func.attr == m and _is_self_inner(v.func.value) \
                    and [getattr(x, "id", None) for x in v.args] == [a.arg for a in fn.args.args[1:]] and not v.keywords
            else:
                ok = isinstance(v, ast.Attribute) and v.attr == m and _is_self_inner(v.value)
        out.append(f"Definition ProblemWrapper_{m}_delegates : bool := {'true' if ok else 'false'}.")
        fns.append(f"{SRC}:ProblemWrapper.{m}")
    out.append("Definition wrapper_overrides : list (string * string) := [" + "; ".join(f'("{c}"%string, "{m}"%string)' for c, m in overrides) + "].\n")
    # get_function_problem: unwrap through _inner until a FunctionProblem
    fn = find_def(mod, "get_function_problem")
    src = ast.unparse(fn)
    ok = "isinstance(problem, FunctionProblem)" in src and "return get_function_problem(problem._inner)" in src
    out.append(f"Definition get_function_problem_unwraps : bool := {'true' if ok else 'false'}.")
    return {"GenProblem.v": "\n".join(out) + "\n"}, fns
