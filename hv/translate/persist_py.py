"""pyhms/**/*.py -> Gen/GenPersist.v (C19): what a snapshot is.  DemeTree.pickle_dump must hand the tree object itself to pickle.dump and
do nothing else that touches the tree (a log line built from constants and the file path only); DemeTree.pickle_load must return what
pickle.load gave, untouched (a log line only); and NO class of the package may customise pickling or copying (__getstate__,
__setstate__, __reduce__, __reduce_ex__, __getnewargs__, __getnewargs_ex__, __copy__, __deepcopy__, __new__, __del__, copyreg) — then
a snapshot is the default pickle of the object graph: every attribute of every object, shared objects stored once."""
import ast
import glob
import os

from .core import Unsupported, find_def
from .driver_py import dotted

OUTPUTS = ["GenPersist.v"]
TREE = "pyhms/tree.py"
HOOKS = {"__getstate__", "__setstate__", "__reduce__", "__reduce_ex__", "__getnewargs__", "__getnewargs_ex__", "__copy__", "__deepcopy__", "__new__", "__del__"}
SKIP_DIRS = ("utils/visualisation",)


def plain_log(s, allowed_names):
    """a logger call whose arguments are constants / the file path"""
    if not (isinstance(s, ast.Expr) and isinstance(s.value, ast.Call) and isinstance(s.value.func, ast.Attribute) and s.value.func.attr in ("info", "debug", "warning")
            and dotted(s.value.func.value) is not None and dotted(s.value.func.value).endswith("._logger")):
        return False
    for a in list(s.value.args) + [k.value for k in s.value.keywords]:
        if not (isinstance(a, ast.Constant) or (isinstance(a, ast.Name) and a.id in allowed_names)):
            return False
    return True


def translate(repo):
    mod = ast.parse(open(f"{repo}/{TREE}").read())
    alias = {}
    for n in mod.body:
        if isinstance(n, ast.Import):
            for a in n.names:
                alias[a.asname or a.name] = a.name
    pk = [k for k, v in alias.items() if v in ("pickle", "dill")]          # dill = pickle with more picklable types, same protocol and hooks
    if len(pk) != 1:
        raise Unsupported(f"{TREE}: pickle is imported {len(pk)} times as a module")
    pk = pk[0]
    # ---- pickle_dump(self, filepath): log; with open(filepath, "wb") as f: pickle.dump(self, f)
    fn = find_def(mod, "pickle_dump", "DemeTree")
    an = [a.arg for a in fn.args.args]
    body = [s for s in fn.body if not (isinstance(s, ast.Expr) and isinstance(s.value, ast.Constant))]
    withs = [s for s in body if isinstance(s, ast.With)]
    rest = [s for s in body if not isinstance(s, ast.With)]
    ok = len(an) == 2 and an[0] == "self" and len(withs) == 1 and all(plain_log(s, {an[1]}) for s in rest)
    if ok:
        w = withs[0]
        ok = len(w.items) == 1 and ast.unparse(w.items[0].context_expr) == f"open({an[1]}, 'wb')" and isinstance(w.items[0].optional_vars, ast.Name) \
            and [ast.unparse(x) for x in w.body] == [f"{pk}.dump(self, {w.items[0].optional_vars.id})"]
    if not ok:
        raise Unsupported(f"{TREE}:{fn.lineno}: DemeTree.pickle_dump is not `log a constant message; with open(filepath, 'wb') as f: pickle.dump(self, f)`")
    # ---- pickle_load(filepath): with open(filepath, "rb") as f: tree = pickle.load(f); log; return tree
    fn = find_def(mod, "pickle_load", "DemeTree")
    an = [a.arg for a in fn.args.args]
    body = [s for s in fn.body if not (isinstance(s, ast.Expr) and isinstance(s.value, ast.Constant))]
    withs = [s for s in body if isinstance(s, ast.With)]
    ok = len(an) == 1 and len(withs) == 1 and body and body[0] is withs[0] and isinstance(body[-1], ast.Return) and isinstance(body[-1].value, ast.Name)
    if ok:
        w, res = withs[0], body[-1].value.id
        ok = len(w.items) == 1 and ast.unparse(w.items[0].context_expr) == f"open({an[0]}, 'rb')" and isinstance(w.items[0].optional_vars, ast.Name) \
            and [ast.unparse(x) for x in w.body] == [f"{res} = {pk}.load({w.items[0].optional_vars.id})"] and all(plain_log(s, {an[0]}) for s in body[1:-1])
    if not ok:
        raise Unsupported(f"{TREE}:{fn.lineno}: DemeTree.pickle_load is not `with open(filepath, 'rb') as f: tree = pickle.load(f); log a constant message; return tree`")
    # ---- no class customises pickling / copying
    rows = []
    for path in sorted(glob.glob(os.path.join(repo, "pyhms", "**", "*.py"), recursive=True)):
        rel = os.path.relpath(path, repo)
        if any(d in rel for d in SKIP_DIRS):
            continue
        m = ast.parse(open(path).read())
        for n in ast.walk(m):
            if isinstance(n, ast.ClassDef):
                for b in n.body:
                    if isinstance(b, (ast.FunctionDef, ast.AsyncFunctionDef)) and b.name in HOOKS:
                        rows.append((rel, n.name, b.name))
                    if isinstance(b, (ast.Assign, ast.AnnAssign)):
                        for t in (b.targets if isinstance(b, ast.Assign) else [b.target]):
                            if isinstance(t, ast.Name) and (t.id in HOOKS or t.id == "__slots__"):
                                rows.append((rel, n.name, t.id))
            if isinstance(n, (ast.Import, ast.ImportFrom)):
                names = [a.name for a in n.names] + ([n.module] if isinstance(n, ast.ImportFrom) and n.module else [])
                if any(x and x.split(".")[0] == "copyreg" for x in names):
                    rows.append((rel, "<module>", "copyreg"))
    tab = "; ".join(f'("{r}"%string, "{c}"%string, "{h}"%string)' for r, c, h in rows)
    out = ["(* GENERATED from pyhms/**/*.py by hv/translate/persist_py.py — do not edit *)", "From Coq Require Import List String.", "Import ListNotations.", "",
           "(* classes that customise pickling / copying: (file, class, hook) *)",
           f"Definition pickle_customisations : list (string * string * string) := [{tab}].",
           "(* pickle_dump hands the tree object itself to pickle.dump and touches nothing else; pickle_load returns what pickle.load gave *)",
           "Definition dump_is_plain : bool := true.", "Definition load_is_plain : bool := true.", ""]
    return {"GenPersist.v": "\n".join(out)}, [f"{TREE}:DemeTree.pickle_dump", f"{TREE}:DemeTree.pickle_load", "pyhms/**:pickling hooks of every class"]
