"""pyhms/sprout/sprout_filters.py: LevelLimit.__call__ and DemeLimit.__call__ -> Gen/GenFilters.v : read-only programs of the event monad
D (Model/DriverPrim.v) that return the filtered candidate dictionary; Proofs/GenEquivFilters.v proves them equal to the filter
models of Model/Sprout.v (level_limit, deme_limit), which are what the HMS machine applies in a sprouting round and what the C08 /
C10 / C13 theorems are about.

Same compiler as stops_py ("function returning a value" mode); additionally: the candidate dictionary is a tracked local that is
re-bound by `candidates[deme].individuals = ...`, list comprehensions over demes / individuals, `sorted(..., reverse=True)`,
`list.sort(reverse=True)`, slicing `[:n]`, indexing and `>` on Individuals (on fitness keys: strictly better)."""
import ast

from .core import Unsupported, find_def
from .driver_py import COQTY, V, dotted
from .stops_py import STr
from .lazy import Inliner, canon, normalise

OUTPUTS = ["GenFilters.v"]
SRC = "pyhms/sprout/sprout_filters.py"
COQTY.update({"cmap": "cmap", "deme_list": "(list nat)", "natlist": "(list nat)"})
COQTY.update({"llist": "(list (list nat))"})
LISTS = {"deme_list": "deme", "nat_list": "nat", "inds": "ind", "llist": "deme_list"}


class FTr(STr):
    def __init__(self, src, cls, fname, params, mod=None):
        super().__init__(src, cls, fname, "tree", params)
        self.rettype = "cmap"
        self.mod = mod
        self.levels_as_numbers = True

    # ---------------------------------------------------------------- expressions
    def comp(self, e, env, pre):
        """list comprehension with one or two generators over typed lists"""
        gens = e.generators
        if len(gens) not in (1, 2) or any(g.is_async for g in gens):
            self.bad(e, "comprehension shape")
        env2 = dict(env)
        binders, its = [], []
        for g in gens:
            it = self._expr(g.iter, env2, pre)
            if it.ty == "cmap":       # iterating a dict = iterating its keys
                it = V(f"(cm_keys {it.code})", "deme_list")
            if it.ty == "cands":      # candidates[deme].individuals reached through an inlined entry
                it = V(it.code, "inds")
            if it.ty not in LISTS or not isinstance(g.target, ast.Name):
                self.bad(e, f"comprehension over {it.ty}")
            x = "v_" + g.target.id
            env2[g.target.id] = V(x, LISTS[it.ty])
            conds = [self._expr(c, env2, pre) for c in g.ifs]
            if any(c.ty != "bool" for c in conds):
                self.bad(e, "comprehension filter")
            src = it.code
            if conds:
                cc = conds[0].code
                for c in conds[1:]:
                    cc = f"(andb {cc} {c.code})"
                src = f"(filter (fun {x} => {cc}) {src})"
            binders.append(x)
            its.append((src, it.ty))
        elt = self._expr(e.elt, env2, pre)
        out_ty = {"deme": "deme_list", "nat": "nat_list", "ind": "inds"}.get(elt.ty)
        if out_ty is None:
            self.bad(e, f"comprehension element of type {elt.ty}")
        inner_src, _ = its[-1]
        inner = inner_src if elt.code == binders[-1] else f"(map (fun {binders[-1]} => {elt.code}) {inner_src})"
        if len(gens) == 1:
            return V(inner, out_ty)
        return V(f"(flat_map (fun {binders[0]} => {inner}) {its[0][0]})", out_ty)

    def dictcomp(self, e, env, pre):
        """{deme: DemeCandidates(individuals=..., features=...) for level in <levels> for deme in level if cond}"""
        env2 = dict(env)
        srcs, binders = [], []
        for g in e.generators:
            it = self._expr(g.iter, env2, pre)
            if it.ty not in ("llist", "deme_list") or not isinstance(g.target, ast.Name):
                self.bad(e, f"dict comprehension over {it.ty}")
            x = "v_" + g.target.id
            env2[g.target.id] = V(x, "deme_list" if it.ty == "llist" else "deme")
            src = it.code
            for cnd in g.ifs:
                cv = self._expr(cnd, env2, pre)
                if cv.ty != "bool":
                    self.bad(cnd, "filter")
                src = f"(filter (fun {x} => {cv.code}) {src})"
            srcs.append(src)
            binders.append(x)
        k, v = self._expr(e.key, env2, pre), self._expr(e.value, env2, pre)
        if k.ty != "deme" or k.code != binders[-1] or v.ty != "cands":
            self.bad(e, "dict comprehension entry")
        inner = f"(map (fun {binders[-1]} => ({k.code}, {v.code})) {srcs[-1]})"
        for x, src in zip(reversed(binders[:-1]), reversed(srcs[:-1])):
            inner = f"(flat_map (fun {x} => {inner}) {src})"
        return V(inner, "cmap")

    def _expr(self, e, env, pre):
        if isinstance(e, ast.ListComp):
            return self.comp(e, env, pre)
        if isinstance(e, ast.DictComp):
            return self.dictcomp(e, env, pre)
        if isinstance(e, ast.Dict) and not e.keys:
            return V("[]", "cmap")
        if isinstance(e, ast.List) and len(e.elts) == 1:
            x = self._expr(e.elts[0], env, pre)
            if x.ty == "ind":
                return V(f"[{x.code}]", "inds")
        if isinstance(e, ast.Compare) and len(e.ops) == 1 and isinstance(e.ops[0], ast.Eq):
            a, b = self._expr(e.left, env, pre), self._expr(e.comparators[0], env, pre)
            if a.ty == b.ty == "nat":
                return V(f"(Nat.eqb {a.code} {b.code})", "bool")
        if isinstance(e, ast.Compare) and len(e.ops) == 1 and isinstance(e.ops[0], ast.IsNot) and isinstance(e.comparators[0], ast.Constant) and e.comparators[0].value is None \
                and isinstance(e.left, ast.Attribute) and e.left.attr == "centroid":
            sib = self._expr(e.left.value, env, pre)
            if sib.ty == "deme":
                return V(f"(has_centroid {sib.code})", "bool")
        if isinstance(e, ast.Attribute) and e.attr == "check_only_active" and dotted(e) == "self.check_only_active":
            return V("p_only_active", "bool")
        if isinstance(e, ast.Compare) and len(e.ops) == 1 and isinstance(e.ops[0], (ast.Gt, ast.Lt)):
            a, b = self._expr(e.left, env, pre), self._expr(e.comparators[0], env, pre)
            if a.ty == b.ty == "ind":
                x, y = (a, b) if isinstance(e.ops[0], ast.Gt) else (b, a)
                return V(f"(ind_gt (maximize c) {x.code} {y.code})", "bool")
        return super()._expr(e, env, pre)

    def attribute(self, e, env, pre):
        if isinstance(e.value, ast.Name) and isinstance(env.get(e.value.id), V) and env[e.value.id].ty == "deme":
            dm = env[e.value.id].code
            if e.attr == "best_current_individual":
                return V(f"(cur_best {dm})", "ind")          # oracle: the key of max(deme.current_population)
            if e.attr == "best_individual":
                return V(f"(hist_best {dm})", "ind")         # oracle: the key of max(deme.all_individuals)
            if e.attr == "current_population":
                return V(dm, "curpop")
        if isinstance(e.value, ast.Subscript) and e.attr == "individuals":
            b = self._expr(e.value, env, pre)
            if b.ty == "cands":
                return V(b.code, "inds")
        return super().attribute(e, env, pre)

    def subscript(self, e, env, pre):
        # tree.levels[:-1] (only its length is used), tree.levels[i], candidates[deme], xs[i], xs[:n]
        d = dotted(e.value)
        if d is not None and d.endswith(".levels") and isinstance(env.get(d.split(".")[0]), V) and env[d.split(".")[0]].ty == "treeobj":
            sl = e.slice
            if isinstance(sl, ast.Slice) and sl.lower is None and sl.step is None and isinstance(sl.upper, ast.UnaryOp) and isinstance(sl.upper.op, ast.USub) \
                    and isinstance(sl.upper.operand, ast.Constant) and sl.upper.operand.value == 1:
                return V("(seq 0 (height c - 1))", "nat_list") if self.levels_as_numbers else V(f"(map (level_ids (demes {self.read(pre)})) (seq 0 (height c - 1)))", "llist")
            if isinstance(sl, ast.Slice) and sl.lower is None and sl.step is None and isinstance(sl.upper, ast.UnaryOp) and isinstance(sl.upper.op, ast.USub) \
                    and isinstance(sl.upper.operand, ast.Constant) and sl.upper.operand.value == 2:
                return V(f"(map (level_ids (demes {self.read(pre)})) (seq 0 (height c - 2)))", "llist")
            if isinstance(sl, ast.UnaryOp) and isinstance(sl.op, ast.USub) and isinstance(sl.operand, ast.Constant) and sl.operand.value == 2:
                return V(f"(level_ids (demes {self.read(pre)}) (height c - 2))", "deme_list")
            i = self._expr(sl, env, pre)
            if i.ty != "nat":
                self.bad(e, "level index")
            return V(f"(level_ids (demes {self.read(pre)}) {i.code})", "deme_list")
        base = self._expr(e.value, env, pre)
        if base.ty == "cmap":
            k = self._expr(e.slice, env, pre)
            if k.ty == "deme":
                return V(f"(cm_get {base.code} {k.code})", "cands")
        if base.ty == "inds":
            if isinstance(e.slice, ast.Slice):
                if e.slice.lower is None and e.slice.step is None and e.slice.upper is not None:
                    n = self._expr(e.slice.upper, env, pre)
                    if n.ty == "nat":
                        return V(f"(firstn {n.code} {base.code})", "inds")
                self.bad(e, "slice")
            i = self._expr(e.slice, env, pre)
            if i.ty == "nat":
                return V(f"(nth {i.code} {base.code} 0%Z)", "ind")
        self.bad(e, "subscript")

    @staticmethod
    def opaque_ok_features(e):
        """DemeFeatures(...) values are not part of the model; they may only read the clustering object / constants / a number computed from it"""
        for n in ast.walk(e):
            if isinstance(n, ast.Call) and dotted(n.func) not in ("DemeFeatures", "np.mean"):
                return False
        return True

    def helper_template(self, name, template):
        """the body of a one-line helper method of the filter class must be exactly `return <template>`"""
        fn = find_def(self.mod, name, self.cls)
        want = ast.dump(ast.parse(template).body[0])
        if len(fn.body) != 1 or ast.dump(fn.body[0]) != want:
            raise Unsupported(f"{self.src}:{fn.lineno}: {self.cls}.{name} is not `{template}`")

    def call(self, e, env, pre):
        d = dotted(e.func)
        if d == "self._is_far_enough" and len(e.args) == 2 and isinstance(e.args[1], ast.Attribute) and e.args[1].attr == "centroid":
            self.helper_template("_is_far_enough", "return nla.norm(ind.genome - centroid, ord=self.norm_ord) > self.min_distance")
            ind, sib = self._expr(e.args[0], env, pre), self._expr(e.args[1].value, env, pre)
            if (ind.ty, sib.ty) == ("ind", "deme"):
                return V(f"(Z.ltb p_thr (dist {ind.code} {sib.code}))", "bool")
        if d == "self._is_nbc_far_enough" and len(e.args) == 3 and isinstance(e.args[1], ast.Attribute) and e.args[1].attr == "centroid":
            self.helper_template("_is_nbc_far_enough", "return nla.norm(ind.genome - centroid, ord=self.norm_ord) > self.min_distance_factor * mean_dist")
            ind, sib = self._expr(e.args[0], env, pre), self._expr(e.args[1].value, env, pre)
            md = e.args[2]
            if isinstance(md, ast.Name) and getattr(self, "inl", None) is not None:
                md = self.inl.inline_at(md)      # a temporary holding the parent's nbc_mean_distance
            # candidates[deme].features.nbc_mean_distance: the threshold factor x mean distance is a per-parent oracle value
            if isinstance(md, ast.Attribute) and md.attr == "nbc_mean_distance" and isinstance(md.value, ast.Attribute) and md.value.attr == "features" and isinstance(md.value.value, ast.Subscript):
                ent = self._expr(md.value.value, env, pre)
                if (ind.ty, sib.ty, ent.ty) == ("ind", "deme", "cands"):
                    par = self._expr(md.value.value.slice, env, pre)
                    return V(f"(Z.ltb (nbc_thr {par.code}) (dist {ind.code} {sib.code}))", "bool")
        if d == "DemeCandidates" and not e.args and {k.arg for k in e.keywords} == {"individuals", "features"}:
            kw = {k.arg: k.value for k in e.keywords}
            inds = self._expr(kw["individuals"], env, pre)
            feat_ok = self.opaque_ok_features(kw["features"]) or (isinstance(kw["features"], ast.Name) and isinstance(env.get(kw["features"].id), V) and env[kw["features"].id].ty == "features")
            if inds.ty == "inds" and feat_ok:
                return V(inds.code, "cands")
            self.bad(e, "DemeCandidates arguments")
        if d == "NearestBetterClustering" and len(e.args) == 3:
            pop = self._expr(e.args[0], env, pre)
            if pop.ty == "curpop" and dotted(e.args[1]) == "self.distance_factor" and dotted(e.args[2]) == "self.truncation_factor":
                return V(pop.code, "nbcobj")      # clustering of THAT deme's current population
            self.bad(e, "NearestBetterClustering arguments")
        if isinstance(e.func, ast.Attribute) and e.func.attr == "cluster" and not e.args:
            o = self._expr(e.func.value, env, pre)
            if o.ty == "nbcobj":
                return V(f"(nbc_cluster {o.code})", "inds")   # oracle: what nearest-better clustering returns for that population (C15)
        if d == "len" and len(e.args) == 1 and isinstance(e.args[0], ast.Attribute) and e.args[0].attr == "_history":
            dm = self._expr(e.args[0].value, env, pre)
            if dm.ty == "deme":
                return V(f"(S (d_meta (dnth {dm.code} (demes {self.read(pre)}))))", "nat")   # metaepoch_count = len(_history) - 1
        if d == "sorted" and len(e.args) == 1 and [k.arg for k in e.keywords] == ["reverse"] and isinstance(e.keywords[0].value, ast.Constant) and e.keywords[0].value.value is True:
            v = self._expr(e.args[0], env, pre)
            if v.ty == "inds":
                return V(f"(sort_best_first (maximize c) {v.code})", "inds")
        if isinstance(e.func, ast.Attribute) and e.func.attr == "keys" and not e.args:
            v = self._expr(e.func.value, env, pre)
            if v.ty == "cmap":
                return V(f"(cm_keys {v.code})", "deme_list")
        if d == "len" and len(e.args) == 1:
            dd = dotted(e.args[0])
            if dd is not None and dd.endswith(".levels") and isinstance(env.get(dd.split(".")[0]), V) and env[dd.split(".")[0]].ty == "treeobj":
                return V("(height c)", "nat")
            v = self._expr(e.args[0], env, pre)
            if v.ty in ("deme_list", "nat_list", "inds"):
                return V(f"(length {v.code})", "nat")
        return super().call(e, env, pre)

    # ---------------------------------------------------------------- statements
    def assigned_tracked(self, stmts, env):
        out = super().assigned_tracked(stmts, env)
        for s in stmts:
            for n in ast.walk(s):
                t = None
                if isinstance(n, ast.Assign) and len(n.targets) == 1 and isinstance(n.targets[0], ast.Attribute) and isinstance(n.targets[0].value, ast.Subscript) \
                        and isinstance(n.targets[0].value.value, ast.Name):
                    t = n.targets[0].value.value.id
                if isinstance(n, ast.Call) and isinstance(n.func, ast.Attribute) and n.func.attr == "sort" and isinstance(n.func.value, ast.Name):
                    t = n.func.value.id
                if isinstance(n, ast.Assign) and len(n.targets) == 1 and isinstance(n.targets[0], ast.Name):
                    t = n.targets[0].id
                if isinstance(n, ast.Assign) and len(n.targets) == 1 and isinstance(n.targets[0], ast.Subscript) and isinstance(n.targets[0].value, ast.Name):
                    t = n.targets[0].value.id
                if t and isinstance(env.get(t), V) and env[t].ty in ("cmap", "inds") and t not in out:
                    out.append(t)
        return out

    def block(self, stmts, env, k, ret):
        if not stmts:
            return k(env)
        s, rest = stmts[0], stmts[1:]
        go = lambda env2: self.block(rest, env2, k, ret)  # noqa: E731
        if isinstance(s, ast.Expr) and isinstance(s.value, ast.Constant):
            return go(env)
        if isinstance(s, ast.Assert):
            # an assertion over values the model does not contain (the candidates' ELA features): no effect
            if self.opaque_ok(s.test, env) or all(isinstance(n, ast.Call) is False or dotted(n.func) in ("all", "candidates.values") for n in ast.walk(s.test)):
                return go(env)
            self.bad(s, "assert")
        if isinstance(s, ast.Return):
            env = dict(env)
            pre, v = self.expr(s.value, env)
            if v.ty != self.rettype:
                self.bad(s, f"return of type {v.ty}")
            return " ".join(pre) + f" ret (Some {v.code})"
        if isinstance(s, ast.Assign) and len(s.targets) == 1:
            t = s.targets[0]
            if isinstance(t, ast.Attribute) and t.attr == "individuals" and isinstance(t.value, ast.Subscript) and isinstance(t.value.value, ast.Name):
                nm = t.value.value.id
                env = dict(env)
                cm = env.get(nm)
                pre, key = self.expr(t.value.slice, env)
                p2, val = self.expr(s.value, env)
                if not (isinstance(cm, V) and cm.ty == "cmap" and key.ty == "deme" and val.ty == "inds"):
                    self.bad(s, "assignment to the individuals of a candidate entry")
                new = "v_" + nm
                env[nm] = V(new, "cmap")
                return " ".join(pre + p2) + f" let {new} := cm_set {cm.code} {key.code} {val.code} in\n  " + go(env)
            if isinstance(t, ast.Subscript) and isinstance(t.value, ast.Name) and isinstance(env.get(t.value.id), V) and env[t.value.id].ty == "cmap":
                nm = t.value.id
                env = dict(env)
                cm = env[nm]
                pre, key = self.expr(t.slice, env)
                p2, val = self.expr(s.value, env)
                if key.ty == "deme" and val.ty == "cands":
                    new = "v_" + nm
                    env[nm] = V(new, "cmap")
                    return " ".join(pre + p2) + f" let {new} := cm_add {cm.code} {key.code} {val.code} in\n  " + go(env)
                self.bad(s, "new candidate entry")
            if isinstance(t, ast.Name) and isinstance(s.value, ast.Call) and dotted(s.value.func) == "DemeFeatures" and self.opaque_ok_features(s.value) \
                    and all(isinstance(env.get(n.id), V) and env[n.id].ty in ("nbcobj", "opaque") for n in ast.walk(s.value) if isinstance(n, ast.Name) and n.id not in ("np", "DemeFeatures")):
                env2 = dict(env)
                env2[t.id] = V("", "features")       # a DemeFeatures object held in a temporary
                return go(env2)
            if isinstance(t, ast.Name) and isinstance(s.value, ast.Call) and dotted(s.value.func) == "np.mean" and self.opaque_ok_features(s.value) \
                    and all(isinstance(env.get(n.id), V) and env[n.id].ty == "nbcobj" for n in ast.walk(s.value) if isinstance(n, ast.Name) and n.id != "np"):
                env2 = dict(env)
                env2[t.id] = V("", "opaque")       # a number that only goes into DemeFeatures (not part of the model)
                return go(env2)
            if isinstance(t, ast.Name) and isinstance(s.value, ast.Attribute) and isinstance(s.value.value, ast.Attribute) and s.value.value.attr == "features" \
                    and not any(isinstance(n, ast.Call) for n in ast.walk(s.value)):
                env2 = dict(env)
                env2[t.id] = V("", "opaque")       # a feature value held in a temporary: looked through where it is used (Inliner)
                return go(env2)
            if isinstance(t, ast.Name):
                env2 = dict(env)
                pre, v = self.expr(s.value, env2)
                if v.ty == "nbcobj":
                    env2[t.id] = v
                    return " ".join(pre) + " " + go(env2)
                if v.ty in ("deme_list", "nat_list", "inds", "ind", "cmap"):
                    nm = "v_" + t.id
                    env2[t.id] = V(nm, v.ty)
                    return " ".join(pre) + f" let {nm} := {v.code} in\n  " + go(env2)
        if isinstance(s, ast.Expr) and isinstance(s.value, ast.Call) and isinstance(s.value.func, ast.Attribute) and s.value.func.attr == "sort" \
                and isinstance(s.value.func.value, ast.Name) and not s.value.args and [k_.arg for k_ in s.value.keywords] == ["reverse"] \
                and isinstance(s.value.keywords[0].value, ast.Constant) and s.value.keywords[0].value.value is True:
            nm = s.value.func.value.id
            v = env.get(nm)
            if isinstance(v, V) and v.ty == "inds":
                env = dict(env)
                new = "v_" + nm
                env[nm] = V(new, "inds")
                return f"let {new} := sort_best_first (maximize c) {v.code} in\n  " + go(env)
            self.bad(s, "sort of a non-candidate list")
        if isinstance(s, ast.For):
            # loops over demes / levels carrying the candidate dictionary
            env = dict(env)
            pre, it = self.expr(s.iter, env)
            if it.ty == "cmap":       # iterating a dict = iterating its keys
                it = V(f"(cm_keys {it.code})", "deme_list")
            if it.ty not in LISTS or not isinstance(s.target, ast.Name) or s.orelse or self.has(s.body, ast.Break) or self.has(s.body, ast.Continue) or self.has(s.body, ast.Return):
                self.bad(s, f"for over {it.ty}")
            carried = self.assigned_tracked(s.body, env)
            if len(carried) != 1:
                self.bad(s, f"loop carrying {carried}")
            nm = carried[0]
            x = self.fresh("it")
            inner = dict(env)
            inner[s.target.id] = V(x, LISTS[it.ty])
            self.nloops = getattr(self, "nloops", 0) + 1
            k_id = self.nloops
            inner[nm] = V("v_" + nm, env[nm].ty)
            body = self.block(s.body, inner, lambda e2: f"ret {e2[nm].code}", None)
            decl, use = self.params(env, exclude={env[nm].code, "v_" + nm}, text=body)
            lty = COQTY[env[nm].ty] if env[nm].ty != "inds" else "(list Z)"
            xty = "(list nat)" if it.ty == "llist" else "nat"
            self.aux.append(f"Definition {self.fname}_forl{k_id} {decl}(v_{nm} : {lty}) ({x} : {xty}) : D {lty} :=\n  {body}.\n")
            after = dict(env)
            after[nm] = V("v_" + nm, env[nm].ty)
            return " ".join(pre) + f" v_{nm} <- forl_ {it.code} ({self.fname}_forl{k_id} {use}) {env[nm].code} ;;\n  " + go(after)
        if isinstance(s, ast.If) and not s.orelse:
            # `if cond: <updates of the tracked dictionary>` inside a loop body: both branches continue with the (possibly updated) dictionary
            env = dict(env)
            pre, t = self.expr(s.test, env)
            if t.ty == "bool":
                a = self.block(s.body, dict(env), lambda e2: self.block(rest, e2, k, ret), ret)
                b = self.block(rest, dict(env), k, ret)
                return " ".join(pre) + f"\n  (if {t.code} then ({a}) else ({b}))"
        return super().block(stmts, env, k, ret)


def filter_method(mod, cls, params, fname):
    fn = normalise(find_def(mod, "__call__", cls))
    argn = [a.arg for a in fn.args.args]
    if len(argn) != 3 or argn[0] != "self":
        raise Unsupported(f"{SRC}:{fn.lineno}: {cls}.__call__ signature changed: {argn}")
    tr = FTr(SRC, cls, fname, params, mod)
    tr.inl = Inliner(fn, SRC)
    env = {argn[1]: V("v_" + argn[1] + "0", "cmap")}
    if argn[2] != "_":
        env[argn[2]] = V("tree", "treeobj", deps=set())
    body = tr.block(fn.body, env, lambda e2: "ret None", None)
    decl = "(c : cfg) (fuel : nat) " + "".join(f"({n} : {COQTY[t]}) " for n, t in params.values()) + f"(v_{argn[1]}0 : cmap) "
    return "".join(a + "\n" for a in tr.aux) + f"Definition {fname} {decl}: D cmap :=\n  returned ({body}).\n"


HEADER = ["From Coq Require Import List Bool Arith ZArith.", "From HV Require Import Ord Sprout Tree DriverPrim SproutPrim.", "Import ListNotations.", ""]


def translate_one(repo, which):
    """one Gen file per group of filter classes, so that a class that no longer translates breaks only the obligations about it"""
    mod = ast.parse(open(f"{repo}/{SRC}").read())
    L = {"limit": ("p_limit", "nat")}
    COQTY["Z"] = "Z"
    if which == "levellimit":
        out = ["(* GENERATED from pyhms/sprout/sprout_filters.py (LevelLimit) by hv/translate/filters_py.py — do not edit *)"] + HEADER
        out.append(filter_method(mod, "LevelLimit", L, "gen_LevelLimit"))
        return {"GenLevelLimit.v": "\n".join(out)}, [f"{SRC}:LevelLimit.__call__"]
    if which == "demelimit":
        out = ["(* GENERATED from pyhms/sprout/sprout_filters.py (DemeLimit) by hv/translate/filters_py.py — do not edit *)"] + HEADER
        out.append(filter_method(mod, "DemeLimit", L, "gen_DemeLimit"))
        return {"GenDemeLimit.v": "\n".join(out)}, [f"{SRC}:DemeLimit.__call__"]
    out = ["(* GENERATED from pyhms/sprout/sprout_filters.py (FarEnough, NBC_FarEnough) by hv/translate/filters_py.py — do not edit *)"] + HEADER
    out.append("(* the numbers numpy computes enter as oracles — dist ind s = the key of nla.norm(ind.genome - s.centroid, ord),\n"
               "   has_centroid s = (s.centroid is not None), nbc_thr d = the key of min_distance_factor * (nbc_mean_distance of parent d's candidates) *)")
    out.append("Section Distances.\nVariable dist : Z -> nat -> Z.\nVariable has_centroid : nat -> bool.\nVariable nbc_thr : nat -> Z.\n")
    out.append(filter_method(mod, "FarEnough", {"min_distance": ("p_thr", "Z")}, "gen_FarEnough"))
    out.append(filter_method(mod, "NBC_FarEnough", {"check_only_active": ("p_only_active", "bool")}, "gen_NBC_FarEnough"))
    out.append("End Distances.\n")
    return {"GenFar.v": "\n".join(out)}, [f"{SRC}:{c}.__call__" for c in ("FarEnough", "NBC_FarEnough")]


def generator_method(mod, src, cls, fname):
    fn = normalise(find_def(mod, "__call__", cls))
    argn = [a.arg for a in fn.args.args]
    if argn != ["self", "tree"]:
        raise Unsupported(f"{src}:{fn.lineno}: {cls}.__call__ signature changed: {argn}")
    tr = FTr(src, cls, fname, {}, mod)
    tr.levels_as_numbers = False
    env = {"tree": V("tree", "treeobj", deps=set())}
    body = tr.block(fn.body, env, lambda e2: "ret None", None)
    return "".join(a + "\n" for a in tr.aux) + f"Definition {fname} (c : cfg) (fuel : nat) : D cmap :=\n  returned ({body}).\n"


GSRC = "pyhms/sprout/sprout_generators.py"


def translate_generators(repo):
    mod = ast.parse(open(f"{repo}/{GSRC}").read())
    out = ["(* GENERATED from pyhms/sprout/sprout_generators.py by hv/translate/filters_py.py — do not edit *)"] + HEADER
    out.append("(* oracles: cur_best d = the key of deme d's best_current_individual, hist_best d = of its best_individual (both tied to the stored history by\n"
               "   Gen/GenAccessors.v), nbc_cluster d = the keys nearest-better clustering returns for deme d's CURRENT population (C15) *)")
    out.append("Section Generators.\nVariable cur_best : nat -> Z.\nVariable hist_best : nat -> Z.\nVariable nbc_cluster : nat -> list Z.\n")
    for cls in ("BestPerDeme", "NBC_Generator", "NBCGeneratorWithLocalMethod"):
        out.append(generator_method(mod, GSRC, cls, f"gen_{cls}"))
    out.append("End Generators.\n")
    return {"GenGenerators.v": "\n".join(out)}, [f"{GSRC}:{c}.__call__" for c in ("BestPerDeme", "NBC_Generator", "NBCGeneratorWithLocalMethod")]


MSRC = "pyhms/sprout/sprout_mechanisms.py"


def _only_looks(e):
    """an expression that only reads the candidates: names, attributes, dict comprehensions over candidates.items(), copy.deepcopy of such"""
    for n in ast.walk(e):
        if isinstance(n, ast.Call) and dotted(n.func) not in ("candidates.items", "copy.deepcopy", "deepcopy"):
            return False
        if isinstance(n, (ast.NamedExpr, ast.Lambda, ast.Await, ast.Yield, ast.YieldFrom)):
            return False
    return True


def _is_bookkeeping(stmt):
    """statements of SproutMechanism.get_seeds that only feed the plotting history (copies of {deme.id: candidates} appended to
    self._generated/_used..._history): no effect on the candidates or on modelled state"""
    if isinstance(stmt, (ast.Assign, ast.AnnAssign)) and stmt.value is not None:
        t = stmt.targets[0] if isinstance(stmt, ast.Assign) and len(stmt.targets) == 1 else (stmt.target if isinstance(stmt, ast.AnnAssign) else None)
        if isinstance(t, ast.Name) and t.id != "candidates" and _only_looks(stmt.value) and isinstance(stmt.value, (ast.Call, ast.DictComp)):
            return True
    if isinstance(stmt, ast.Expr) and isinstance(stmt.value, ast.Call) and isinstance(stmt.value.func, ast.Attribute) and stmt.value.func.attr == "append":
        d = dotted(stmt.value.func.value)
        return d is not None and d.startswith("self._") and d.endswith("_history") and len(stmt.value.args) == 1 and _only_looks(stmt.value.args[0])
    return False


def translate_mechanism(repo):
    mod = ast.parse(open(f"{repo}/{MSRC}").read())
    out = ["(* GENERATED from pyhms/sprout/sprout_mechanisms.py (SproutMechanism) by hv/translate/filters_py.py — do not edit *)"] + HEADER
    out.append("(* the configured generator and filters are objects of the mechanism: calling one is `generator` / `apply_filter f candidates` *)")
    out.append("Section Mechanism.\nVariable F : Type.\nVariable generator : D cmap.\nVariable apply_filter : F -> cmap -> D cmap.\n")
    for meth, chain in (("apply_deme_filters", "deme_filter_chain"), ("apply_tree_filters", "tree_filter_chain")):
        fn = find_def(mod, meth, "SproutMechanism")
        a = [x.arg for x in fn.args.args]
        body = [s_ for s_ in fn.body if not (isinstance(s_, ast.Expr) and isinstance(s_.value, ast.Constant))]
        ok = (len(a) == 3 and len(body) == 2 and isinstance(body[0], ast.For) and dotted(body[0].iter) == f"self.{chain}" and isinstance(body[0].target, ast.Name)
              and len(body[0].body) == 1 and not body[0].orelse and isinstance(body[1], ast.Return) and isinstance(body[1].value, ast.Name) and body[1].value.id == a[1])
        if ok:
            st = body[0].body[0]
            ok = (isinstance(st, ast.Assign) and isinstance(st.targets[0], ast.Name) and st.targets[0].id == a[1] and isinstance(st.value, ast.Call)
                  and isinstance(st.value.func, ast.Name) and st.value.func.id == body[0].target.id and [ast.unparse(x) for x in st.value.args] == [a[1], a[2]] and not st.value.keywords)
        if not ok:
            raise Unsupported(f"{MSRC}:{fn.lineno}: SproutMechanism.{meth} is not `for f in self.{chain}: candidates = f(candidates, tree)` followed by `return candidates`")
        out.append(f"Definition gen_{meth} ({chain} : list F) (v_candidates : cmap) : D cmap :=\n  forl_ {chain} (fun v_candidates v_filter => apply_filter v_filter v_candidates) v_candidates.\n")
    fn = normalise(find_def(mod, "get_seeds", "SproutMechanism"))
    tn = fn.args.args[1].arg if len(fn.args.args) == 2 else "?"
    body = [s_ for s_ in fn.body if not (isinstance(s_, ast.Expr) and isinstance(s_.value, ast.Constant))]
    if not body or not isinstance(body[-1], ast.Return) or body[-1].value is None:
        raise Unsupported(f"{MSRC}:{fn.lineno}: SproutMechanism.get_seeds does not end with `return <seeds>`")
    # everything but the assignments the result is computed from only feeds the plotting history
    inl = Inliner(fn, MSRC)
    rv = inl.inline(body[-1].value, body[-1])
    chain = f"self.apply_tree_filters(self.apply_deme_filters(self.candidates_generator({tn}), {tn}), {tn})"
    shape = ast.unparse(canon(rv)).replace(chain, "C")
    accepted = {"{_c0: _c0_1 for _c0, _c0_1 in C.items() if C[_c0].individuals}", "{_c0: _c0_1 for _c0, _c0_1 in C.items() if _c0_1.individuals}",
                "{_c0: C[_c0] for _c0 in C.keys() if C[_c0].individuals}", "{_c0: C[_c0] for _c0 in C if C[_c0].individuals}"}
    if shape not in accepted:
        raise Unsupported(f"{MSRC}:{fn.lineno}: SproutMechanism.get_seeds does not return the entries that still have a seed of tree_filters(deme_filters(generator(tree))): {shape[:200]}")
    used_names = set()

    def deps(name, before):
        """the assignments (to plain names) the value of `name` at statement `before` is computed from"""
        for s_ in body:
            if s_ is before:
                break
            t_ = s_.targets[0] if isinstance(s_, ast.Assign) and len(s_.targets) == 1 else (s_.target if isinstance(s_, ast.AnnAssign) else None)
            if isinstance(t_, ast.Name) and t_.id == name:
                used_names.add(id(s_))
                for n_ in ast.walk(s_.value):
                    if isinstance(n_, ast.Name) and n_.id != name:
                        deps(n_.id, s_)
                    elif isinstance(n_, ast.Name):
                        deps(name, s_)
    for n_ in ast.walk(body[-1].value):
        if isinstance(n_, ast.Name):
            deps(n_.id, body[-1])
    for s_ in body[:-1]:
        if id(s_) in used_names:
            continue
        if not _is_bookkeeping(s_):
            raise Unsupported(f"{MSRC}:{s_.lineno}: SproutMechanism.get_seeds: a statement that is neither part of generator -> deme filters -> tree filters nor plotting history: {ast.unparse(s_)[:120]}")
    out.append("Definition gen_get_seeds (deme_filter_chain tree_filter_chain : list F) : D cmap :=\n"
               "  v_candidates <- generator ;;\n  v_candidates <- gen_apply_deme_filters deme_filter_chain v_candidates ;;\n"
               "  v_candidates <- gen_apply_tree_filters tree_filter_chain v_candidates ;;\n"
               "  ret (filter (fun kv => negb (match cm_get v_candidates (fst kv) with [] => true | _ => false end)) v_candidates).\n")
    out.append("End Mechanism.\n")
    # the two shipped mechanisms: which generator, which chains
    for name, gen, dchain, tchain in (("get_simple_sprout", "BestPerDeme", ["FarEnough"], ["LevelLimit"]), ("get_NBC_sprout", "NBC_Generator", ["NBC_FarEnough", "DemeLimit"], ["LevelLimit"])):
        fn = find_def(mod, name)
        ret = fn.body[-1]
        ok = isinstance(ret, ast.Return) and isinstance(ret.value, ast.Call) and dotted(ret.value.func) == "SproutMechanism" and len(ret.value.args) == 3
        if ok:
            g, dc, tc = ret.value.args
            ok = (isinstance(g, ast.Call) and dotted(g.func) == gen and isinstance(dc, ast.List) and [dotted(x.func) for x in dc.elts] == dchain
                  and isinstance(tc, ast.List) and [dotted(x.func) for x in tc.elts] == tchain)
        if not ok:
            raise Unsupported(f"{MSRC}:{fn.lineno}: {name} no longer builds SproutMechanism({gen}, {dchain}, {tchain})")
    out.append("(* get_simple_sprout = SproutMechanism(BestPerDeme, [FarEnough], [LevelLimit]); get_NBC_sprout = SproutMechanism(NBC_Generator, [NBC_FarEnough, DemeLimit], [LevelLimit]) *)")
    out.append("Definition gen_shipped_mechanisms : list (nat * nat * nat) := [(1, 1, 1); (1, 2, 1)].\n")
    return {"GenMechanism.v": "\n".join(out)}, [f"{MSRC}:SproutMechanism.{m}" for m in ("get_seeds", "apply_deme_filters", "apply_tree_filters")] + [f"{MSRC}:get_simple_sprout", f"{MSRC}:get_NBC_sprout"]


class _FE:
    def __init__(self, which, outputs):
        self.which, self.OUTPUTS = which, outputs

    def translate(self, repo):
        if self.which == "generators":
            return translate_generators(repo)
        if self.which == "mechanism":
            return translate_mechanism(repo)
        return translate_one(repo, self.which)


LEVELLIMIT, DEMELIMIT, FARFILTERS = _FE("levellimit", ["GenLevelLimit.v"]), _FE("demelimit", ["GenDemeLimit.v"]), _FE("farfilters", ["GenFar.v"])
GENERATORS = _FE("generators", ["GenGenerators.v"])
MECHANISM = _FE("mechanism", ["GenMechanism.v"])
