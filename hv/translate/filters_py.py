"""pyhms/sprout/sprout_filters.py: LevelLimit.__call__ and DemeLimit.__call__ -> Gen/GenFilters.v : read-only programs of the event monad
D (Model/DriverPrim.v) that return the filtered candidate dictionary; Proofs/GenEquivFilters.v proves them equal to the filter
models of Model/Sprout.v (level_limit, deme_limit), which are what the HMS machine applies in a sprouting round and what the C08 /
C10 / C13 theorems are about.

Same compiler as stops_py ("function returning a value" mode); additionally: the candidate dictionary is a tracked local that is
re-bound by `candidates[deme].individuals = ...`, list comprehensions over demes / individuals, `sorted(..., reverse=True)`,
`list.sort(reverse=True)`, slicing `[:n]`, indexing and `>` on Individuals (on fitness keys: strictly better)."""
import ast

from .core import Unsupported, find_def
from .driver_py import COQTY, V, dotted
from .stops_py import STr

OUTPUTS = ["GenFilters.v"]
SRC = "pyhms/sprout/sprout_filters.py"
COQTY.update({"cmap": "cmap", "deme_list": "(list nat)", "natlist": "(list nat)"})
LISTS = {"deme_list": "deme", "nat_list": "nat", "inds": "ind"}


class FTr(STr):
    def __init__(self, src, cls, fname, params, mod=None):
        super().__init__(src, cls, fname, "tree", params)
        self.rettype = "cmap"
        self.mod = mod

    # ---------------------------------------------------------------- expressions
    def comp(self, e, env, pre):
        """list comprehension with one or two generators over typed lists"""
        gens = e.generators
        if len(gens) not in (1, 2) or any(g.is_async for g in gens):
            self.bad(e, "comprehension shape")
        env2 = dict(env)
        binders, its = [], []
        for g in gens:
            it = self._expr(g.iter, env2, pre)
            if it.ty not in LISTS or not isinstance(g.target, ast.Name):
                self.bad(e, f"comprehension over {it.ty}")
            x = "v_" + g.target.id
            env2[g.target.id] = V(x, LISTS[it.ty])
            conds = [self._expr(c, env2, pre) for c in g.ifs]
            if any(c.ty != "bool" for c in conds):
                self.bad(e, "comprehension filter")
            src = it.code
            if conds:
                cc = conds[0].code
                for c in conds[1:]:
                    cc = f"(andb {cc} {c.code})"
                src = f"(filter (fun {x} => {cc}) {src})"
            binders.append(x)
            its.append((src, it.ty))
        elt = self._expr(e.elt, env2, pre)
        out_ty = {"deme": "deme_list", "nat": "nat_list", "ind": "inds"}.get(elt.ty)
        if out_ty is None:
            self.bad(e, f"comprehension element of type {elt.ty}")
        inner_src, _ = its[-1]
        inner = inner_src if elt.code == binders[-1] else f"(map (fun {binders[-1]} => {elt.code}) {inner_src})"
        if len(gens) == 1:
            return V(inner, out_ty)
        return V(f"(flat_map (fun {binders[0]} => {inner}) {its[0][0]})", out_ty)

    def _expr(self, e, env, pre):
        if isinstance(e, ast.ListComp):
            return self.comp(e, env, pre)
        if isinstance(e, ast.Compare) and len(e.ops) == 1 and isinstance(e.ops[0], ast.IsNot) and isinstance(e.comparators[0], ast.Constant) and e.comparators[0].value is None \
                and isinstance(e.left, ast.Attribute) and e.left.attr == "centroid":
            sib = self._expr(e.left.value, env, pre)
            if sib.ty == "deme":
                return V(f"(has_centroid {sib.code})", "bool")
        if isinstance(e, ast.Attribute) and e.attr == "check_only_active" and dotted(e) == "self.check_only_active":
            return V("p_only_active", "bool")
        if isinstance(e, ast.Compare) and len(e.ops) == 1 and isinstance(e.ops[0], (ast.Gt, ast.Lt)):
            a, b = self._expr(e.left, env, pre), self._expr(e.comparators[0], env, pre)
            if a.ty == b.ty == "ind":
                x, y = (a, b) if isinstance(e.ops[0], ast.Gt) else (b, a)
                return V(f"(ind_gt (maximize c) {x.code} {y.code})", "bool")
        return super()._expr(e, env, pre)

    def attribute(self, e, env, pre):
        if isinstance(e.value, ast.Subscript) and e.attr == "individuals":
            b = self._expr(e.value, env, pre)
            if b.ty == "cands":
                return V(b.code, "inds")
        return super().attribute(e, env, pre)

    def subscript(self, e, env, pre):
        # tree.levels[:-1] (only its length is used), tree.levels[i], candidates[deme], xs[i], xs[:n]
        d = dotted(e.value)
        if d is not None and d.endswith(".levels") and isinstance(env.get(d.split(".")[0]), V) and env[d.split(".")[0]].ty == "treeobj":
            sl = e.slice
            if isinstance(sl, ast.Slice) and sl.lower is None and sl.step is None and isinstance(sl.upper, ast.UnaryOp) and isinstance(sl.upper.op, ast.USub) \
                    and isinstance(sl.upper.operand, ast.Constant) and sl.upper.operand.value == 1:
                return V("(seq 0 (height c - 1))", "nat_list")
            i = self._expr(sl, env, pre)
            if i.ty != "nat":
                self.bad(e, "level index")
            return V(f"(level_ids (demes {self.read(pre)}) {i.code})", "deme_list")
        base = self._expr(e.value, env, pre)
        if base.ty == "cmap":
            k = self._expr(e.slice, env, pre)
            if k.ty == "deme":
                return V(f"(cm_get {base.code} {k.code})", "cands")
        if base.ty == "inds":
            if isinstance(e.slice, ast.Slice):
                if e.slice.lower is None and e.slice.step is None and e.slice.upper is not None:
                    n = self._expr(e.slice.upper, env, pre)
                    if n.ty == "nat":
                        return V(f"(firstn {n.code} {base.code})", "inds")
                self.bad(e, "slice")
            i = self._expr(e.slice, env, pre)
            if i.ty == "nat":
                return V(f"(nth {i.code} {base.code} 0%Z)", "ind")
        self.bad(e, "subscript")

    def helper_template(self, name, template):
        """the body of a one-line helper method of the filter class must be exactly `return <template>`"""
        fn = find_def(self.mod, name, self.cls)
        want = ast.dump(ast.parse(template).body[0])
        if len(fn.body) != 1 or ast.dump(fn.body[0]) != want:
            raise Unsupported(f"{self.src}:{fn.lineno}: {self.cls}.{name} is not `{template}`")

    def call(self, e, env, pre):
        d = dotted(e.func)
        if d == "self._is_far_enough" and len(e.args) == 2 and isinstance(e.args[1], ast.Attribute) and e.args[1].attr == "centroid":
            self.helper_template("_is_far_enough", "return nla.norm(ind.genome - centroid, ord=self.norm_ord) > self.min_distance")
            ind, sib = self._expr(e.args[0], env, pre), self._expr(e.args[1].value, env, pre)
            if (ind.ty, sib.ty) == ("ind", "deme"):
                return V(f"(Z.ltb p_thr (dist {ind.code} {sib.code}))", "bool")
        if d == "self._is_nbc_far_enough" and len(e.args) == 3 and isinstance(e.args[1], ast.Attribute) and e.args[1].attr == "centroid":
            self.helper_template("_is_nbc_far_enough", "return nla.norm(ind.genome - centroid, ord=self.norm_ord) > self.min_distance_factor * mean_dist")
            ind, sib = self._expr(e.args[0], env, pre), self._expr(e.args[1].value, env, pre)
            md = e.args[2]
            # candidates[deme].features.nbc_mean_distance: the threshold factor x mean distance is a per-parent oracle value
            if isinstance(md, ast.Attribute) and md.attr == "nbc_mean_distance" and isinstance(md.value, ast.Attribute) and md.value.attr == "features" and isinstance(md.value.value, ast.Subscript):
                ent = self._expr(md.value.value, env, pre)
                if (ind.ty, sib.ty, ent.ty) == ("ind", "deme", "cands"):
                    par = self._expr(md.value.value.slice, env, pre)
                    return V(f"(Z.ltb (nbc_thr {par.code}) (dist {ind.code} {sib.code}))", "bool")
        if d == "sorted" and len(e.args) == 1 and [k.arg for k in e.keywords] == ["reverse"] and isinstance(e.keywords[0].value, ast.Constant) and e.keywords[0].value.value is True:
            v = self._expr(e.args[0], env, pre)
            if v.ty == "inds":
                return V(f"(sort_best_first (maximize c) {v.code})", "inds")
        if isinstance(e.func, ast.Attribute) and e.func.attr == "keys" and not e.args:
            v = self._expr(e.func.value, env, pre)
            if v.ty == "cmap":
                return V(f"(cm_keys {v.code})", "deme_list")
        if d == "len" and len(e.args) == 1:
            v = self._expr(e.args[0], env, pre)
            if v.ty in ("deme_list", "nat_list", "inds"):
                return V(f"(length {v.code})", "nat")
        return super().call(e, env, pre)

    # ---------------------------------------------------------------- statements
    def assigned_tracked(self, stmts, env):
        out = super().assigned_tracked(stmts, env)
        for s in stmts:
            for n in ast.walk(s):
                t = None
                if isinstance(n, ast.Assign) and len(n.targets) == 1 and isinstance(n.targets[0], ast.Attribute) and isinstance(n.targets[0].value, ast.Subscript) \
                        and isinstance(n.targets[0].value.value, ast.Name):
                    t = n.targets[0].value.value.id
                if isinstance(n, ast.Call) and isinstance(n.func, ast.Attribute) and n.func.attr == "sort" and isinstance(n.func.value, ast.Name):
                    t = n.func.value.id
                if isinstance(n, ast.Assign) and len(n.targets) == 1 and isinstance(n.targets[0], ast.Name):
                    t = n.targets[0].id
                if t and isinstance(env.get(t), V) and env[t].ty in ("cmap", "inds") and t not in out:
                    out.append(t)
        return out

    def block(self, stmts, env, k, ret):
        if not stmts:
            return k(env)
        s, rest = stmts[0], stmts[1:]
        go = lambda env2: self.block(rest, env2, k, ret)  # noqa: E731
        if isinstance(s, ast.Expr) and isinstance(s.value, ast.Constant):
            return go(env)
        if isinstance(s, ast.Assert):
            # an assertion over values the model does not contain (the candidates' ELA features): no effect
            if self.opaque_ok(s.test, env) or all(isinstance(n, ast.Call) is False or dotted(n.func) in ("all", "candidates.values") for n in ast.walk(s.test)):
                return go(env)
            self.bad(s, "assert")
        if isinstance(s, ast.Return):
            env = dict(env)
            pre, v = self.expr(s.value, env)
            if v.ty != self.rettype:
                self.bad(s, f"return of type {v.ty}")
            return " ".join(pre) + f" ret (Some {v.code})"
        if isinstance(s, ast.Assign) and len(s.targets) == 1:
            t = s.targets[0]
            if isinstance(t, ast.Attribute) and t.attr == "individuals" and isinstance(t.value, ast.Subscript) and isinstance(t.value.value, ast.Name):
                nm = t.value.value.id
                env = dict(env)
                cm = env.get(nm)
                pre, key = self.expr(t.value.slice, env)
                p2, val = self.expr(s.value, env)
                if not (isinstance(cm, V) and cm.ty == "cmap" and key.ty == "deme" and val.ty == "inds"):
                    self.bad(s, "assignment to the individuals of a candidate entry")
                new = "v_" + nm
                env[nm] = V(new, "cmap")
                return " ".join(pre + p2) + f" let {new} := cm_set {cm.code} {key.code} {val.code} in\n  " + go(env)
            if isinstance(t, ast.Name):
                env2 = dict(env)
                pre, v = self.expr(s.value, env2)
                if v.ty in ("deme_list", "nat_list", "inds", "ind", "cmap"):
                    nm = "v_" + t.id
                    env2[t.id] = V(nm, v.ty)
                    return " ".join(pre) + f" let {nm} := {v.code} in\n  " + go(env2)
        if isinstance(s, ast.Expr) and isinstance(s.value, ast.Call) and isinstance(s.value.func, ast.Attribute) and s.value.func.attr == "sort" \
                and isinstance(s.value.func.value, ast.Name) and not s.value.args and [k_.arg for k_ in s.value.keywords] == ["reverse"] \
                and isinstance(s.value.keywords[0].value, ast.Constant) and s.value.keywords[0].value.value is True:
            nm = s.value.func.value.id
            v = env.get(nm)
            if isinstance(v, V) and v.ty == "inds":
                env = dict(env)
                new = "v_" + nm
                env[nm] = V(new, "inds")
                return f"let {new} := sort_best_first (maximize c) {v.code} in\n  " + go(env)
            self.bad(s, "sort of a non-candidate list")
        if isinstance(s, ast.For):
            # loops over demes / levels carrying the candidate dictionary
            env = dict(env)
            pre, it = self.expr(s.iter, env)
            if it.ty not in LISTS or not isinstance(s.target, ast.Name) or s.orelse or self.has(s.body, ast.Break) or self.has(s.body, ast.Continue) or self.has(s.body, ast.Return):
                self.bad(s, f"for over {it.ty}")
            carried = self.assigned_tracked(s.body, env)
            if len(carried) != 1:
                self.bad(s, f"loop carrying {carried}")
            nm = carried[0]
            x = self.fresh("it")
            inner = dict(env)
            inner[s.target.id] = V(x, LISTS[it.ty])
            self.nloops = getattr(self, "nloops", 0) + 1
            k_id = self.nloops
            decl, use = self.params(env, exclude={env[nm].code})
            inner[nm] = V("v_" + nm, env[nm].ty)
            body = self.block(s.body, inner, lambda e2: f"ret {e2[nm].code}", None)
            lty = COQTY[env[nm].ty] if env[nm].ty != "inds" else "(list Z)"
            self.aux.append(f"Definition {self.fname}_forl{k_id} {decl}(v_{nm} : {lty}) ({x} : nat) : D {lty} :=\n  {body}.\n")
            after = dict(env)
            after[nm] = V("v_" + nm, env[nm].ty)
            return " ".join(pre) + f" v_{nm} <- forl_ {it.code} ({self.fname}_forl{k_id} {use}) {env[nm].code} ;;\n  " + go(after)
        return super().block(stmts, env, k, ret)


def filter_method(mod, cls, params, fname):
    fn = find_def(mod, "__call__", cls)
    argn = [a.arg for a in fn.args.args]
    if len(argn) != 3 or argn[0] != "self":
        raise Unsupported(f"{SRC}:{fn.lineno}: {cls}.__call__ signature changed: {argn}")
    tr = FTr(SRC, cls, fname, params, mod)
    env = {argn[1]: V("v_" + argn[1] + "0", "cmap")}
    if argn[2] != "_":
        env[argn[2]] = V("tree", "treeobj", deps=set())
    body = tr.block(fn.body, env, lambda e2: "ret None", None)
    decl = "(c : cfg) (fuel : nat) " + "".join(f"({n} : {COQTY[t]}) " for n, t in params.values()) + f"(v_{argn[1]}0 : cmap) "
    return "".join(a + "\n" for a in tr.aux) + f"Definition {fname} {decl}: D cmap :=\n  returned ({body}).\n"


HEADER = ["From Coq Require Import List Bool Arith ZArith.", "From HV Require Import Ord Sprout Tree DriverPrim SproutPrim.", "Import ListNotations.", ""]


def translate_one(repo, which):
    """one Gen file per group of filter classes, so that a class that no longer translates breaks only the obligations about it"""
    mod = ast.parse(open(f"{repo}/{SRC}").read())
    L = {"limit": ("p_limit", "nat")}
    COQTY["Z"] = "Z"
    if which == "levellimit":
        out = ["(* GENERATED from pyhms/sprout/sprout_filters.py (LevelLimit) by hv/translate/filters_py.py — do not edit *)"] + HEADER
        out.append(filter_method(mod, "LevelLimit", L, "gen_LevelLimit"))
        return {"GenLevelLimit.v": "\n".join(out)}, [f"{SRC}:LevelLimit.__call__"]
    if which == "demelimit":
        out = ["(* GENERATED from pyhms/sprout/sprout_filters.py (DemeLimit) by hv/translate/filters_py.py — do not edit *)"] + HEADER
        out.append(filter_method(mod, "DemeLimit", L, "gen_DemeLimit"))
        return {"GenDemeLimit.v": "\n".join(out)}, [f"{SRC}:DemeLimit.__call__"]
    out = ["(* GENERATED from pyhms/sprout/sprout_filters.py (FarEnough, NBC_FarEnough) by hv/translate/filters_py.py — do not edit *)"] + HEADER
    out.append("(* the numbers numpy computes enter as oracles — dist ind s = the key of nla.norm(ind.genome - s.centroid, ord),\n"
               "   has_centroid s = (s.centroid is not None), nbc_thr d = the key of min_distance_factor * (nbc_mean_distance of parent d's candidates) *)")
    out.append("Section Distances.\nVariable dist : Z -> nat -> Z.\nVariable has_centroid : nat -> bool.\nVariable nbc_thr : nat -> Z.\n")
    out.append(filter_method(mod, "FarEnough", {"min_distance": ("p_thr", "Z")}, "gen_FarEnough"))
    out.append(filter_method(mod, "NBC_FarEnough", {"check_only_active": ("p_only_active", "bool")}, "gen_NBC_FarEnough"))
    out.append("End Distances.\n")
    return {"GenFar.v": "\n".join(out)}, [f"{SRC}:{c}.__call__" for c in ("FarEnough", "NBC_FarEnough")]


class _FE:
    def __init__(self, which, outputs):
        self.which, self.OUTPUTS = which, outputs

    def translate(self, repo):
        return translate_one(repo, self.which)


LEVELLIMIT, DEMELIMIT, FARFILTERS = _FE("levellimit", ["GenLevelLimit.v"]), _FE("demelimit", ["GenDemeLimit.v"]), _FE("farfilters", ["GenFar.v"])
