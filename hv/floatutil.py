"""binary64 helpers: bit patterns, ulp stepping, order key (same definition as Base/F64.v fkey)."""
import math
import struct
from fractions import Fraction


def bits(x):
    return struct.unpack("<Q", struct.pack("<d", float(x)))[0]


def frombits(b):
    return struct.unpack("<d", struct.pack("<Q", b & 0xFFFFFFFFFFFFFFFF))[0]


def hexb(x):
    return "0x%016X" % bits(x)


def nextn(x, n):
    """x moved by n ulps (n may be negative)"""
    x = float(x)
    for _ in range(abs(n)):
        x = math.nextafter(x, math.inf if n > 0 else -math.inf)
    return x


def fkey(b):
    return b if b < 0x8000000000000000 else 0x8000000000000000 - b


def key(x):
    return fkey(bits(x))


def isnan_bits(b):
    return (b & 0x7FFFFFFFFFFFFFFF) > 0x7FF0000000000000


def canon(b):
    return 0x7FF8000000000000 if isnan_bits(b) else b


def ulp(x):
    return math.ulp(x)


def frac(x):
    return Fraction(float(x))
