(* Model/Pop.v — pyhms/core/population.py and the "keep the parent's fitness only if identical" rule of de.py, on rows
   (genome, fitness): a genome is any type with decidable equality (bit-exact arrays), a missing fitness (NaN) is None.
   Hand-written, executable; no proofs here. *)
From Coq Require Import List Bool Arith.
Import ListNotations.

Section Pop.
  Context {G F : Type} (geq : G -> G -> bool).
  Definition row := (G * option F)%type.
  (* update_genome: change_mask = any(new != old, axis=1); genomes[mask] = new[mask]; fitnesses[mask] = nan *)
  Definition update_row (r : row) (g' : G) : row := if geq g' (fst r) then r else (g', None).
  Fixpoint update_genome (p : list row) (new : list G) : list row :=
    match p, new with r :: p', g' :: n' => update_row r g' :: update_genome p' n' | _, _ => [] end.
  (* evaluate: only the NaN rows are sent to the problem, in row order; the others keep their value *)
  Definition eval_row (f : G -> F) (r : row) : row := match snd r with Some _ => r | None => (fst r, Some (f (fst r))) end.
  Definition evaluate (f : G -> F) (p : list row) : list row := map (eval_row f) p.
  Definition requests (p : list row) : list G := map fst (filter (fun r => match snd r with None => true | Some _ => false end) p).
  (* DE / SHADE mutation and crossover: new_fitness = where(all(new == old, axis=1), old fitness, nan) *)
  Fixpoint de_trial (parents : list row) (new : list G) : list row :=
    match parents, new with r :: p', g' :: n' => (g', if geq g' (fst r) then snd r else None) :: de_trial p' n' | _, _ => [] end.
  (* Population.copy / operators never touch the parent rows: they return new lists (functional model) *)
  Definition well_valued (f : G -> F) (r : row) : Prop := match snd r with Some v => v = f (fst r) | None => True end.
End Pop.
