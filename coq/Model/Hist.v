(* Model/Hist.v — the HISTORY machine: what every deme stores.  Genomes are interned (an integer names a bit-exact genome),
   fitness values are keys.  The machine BUILDS each generation itself from the sources the event names: an individual is
   either carried over from the deme's previous generation, or the result of an evaluation the deme requested since that
   generation was completed, or (local deme) the sprout seed itself.  A generation that cannot be built this way is rejected.
   Hand-written, executable; no proofs here. *)
From Coq Require Import List Bool Arith ZArith.
Import ListNotations.

Record ind := { ig : Z; ifit : Z; ist : nat }.           (* genome id, fitness key, stamp = index of the evaluation in the log *)
Inductive src := Carried (j : nat) | Fresh (k : nat) | SeedRef.
Record hdeme := { hgens : list (list ind * nat);          (* generations oldest first, each with the log length at its completion *)
                  hpend : list nat;                       (* stamps of this deme's evaluations since its last generation *)
                  hfixed : bool;                          (* population-based engine: constant generation size *)
                  hseed : option ind;
                  hpar : option nat }.
Record hst := { evlog : list (nat * Z * Z);               (* (requesting deme, genome id, value) *)
                hdemes : list hdeme }.

Inductive hevent :=
| HBegin (fixed : bool) (parent : option (nat * nat * nat)) (strict : bool)   (* seed = individual #pos of generation #gi of deme p *)
| HEval (d : nat) (x v : Z)
| HGen (d : nat) (srcs : list src).

Definition ind_eqb (a b : ind) : bool := Z.eqb (ig a) (ig b) && Z.eqb (ifit a) (ifit b) && Nat.eqb (ist a) (ist b).
Definition last_gen (d : hdeme) : option (list ind * nat) := nth_error (hgens d) (length (hgens d) - 1).
Fixpoint set_deme (i : nat) (d : hdeme) (l : list hdeme) : list hdeme :=
  match l, i with [], _ => [] | _ :: r, O => d :: r | x :: r, S i' => x :: set_deme i' d r end.

Definition build_one (s : hst) (d : nat) (hd : hdeme) (x : src) : option ind :=
  match x with
  | Carried j => match last_gen hd with Some (g, _) => nth_error g j | None => None end
  | Fresh k => match nth_error (hpend hd) k with
               | Some stamp => match nth_error (evlog s) stamp with
                               | Some (d', gx, v) => if Nat.eqb d' d then Some {| ig := gx; ifit := v; ist := stamp |} else None
                               | None => None
                               end
               | None => None
               end
  | SeedRef => match hgens hd with [] => hseed hd | _ => None end     (* only the initial generation may hold the seed itself *)
  end.
Fixpoint build (s : hst) (d : nat) (hd : hdeme) (xs : list src) : option (list ind) :=
  match xs with
  | [] => Some []
  | x :: r => match build_one s d hd x, build s d hd r with Some i, Some l => Some (i :: l) | _, _ => None end
  end.

Definition hstep (s : hst) (e : hevent) : option hst :=
  match e with
  | HBegin fixed parent strict =>
      match parent with
      | None => Some {| evlog := evlog s; hdemes := hdemes s ++ [{| hgens := []; hpend := []; hfixed := fixed; hseed := None; hpar := None |}] |}
      | Some (p, gi, pos) =>
          match nth_error (hdemes s) p with
          | Some pd =>
              if strict && negb (Nat.eqb (S gi) (length (hgens pd))) then None else
              match nth_error (hgens pd) gi with
              | Some (g, _) => match nth_error g pos with
                               | Some sd => Some {| evlog := evlog s;
                                                    hdemes := hdemes s ++ [{| hgens := []; hpend := []; hfixed := fixed; hseed := Some sd; hpar := Some p |}] |}
                               | None => None
                               end
              | None => None
              end
          | None => None
          end
      end
  | HEval d x v =>
      match nth_error (hdemes s) d with
      | Some hd => Some {| evlog := evlog s ++ [(d, x, v)];
                           hdemes := set_deme d {| hgens := hgens hd; hpend := hpend hd ++ [length (evlog s)]; hfixed := hfixed hd; hseed := hseed hd; hpar := hpar hd |} (hdemes s) |}
      | None => None
      end
  | HGen d srcs =>
      match nth_error (hdemes s) d with
      | Some hd =>
          match build s d hd srcs with
          | Some g =>
              if hfixed hd && match last_gen hd with Some (g0, _) => negb (Nat.eqb (length g0) (length g)) | None => false end then None else
              Some {| evlog := evlog s;
                      hdemes := set_deme d {| hgens := hgens hd ++ [(g, length (evlog s))]; hpend := []; hfixed := hfixed hd; hseed := hseed hd; hpar := hpar hd |} (hdemes s) |}
          | None => None
          end
      | None => None
      end
  end.

Fixpoint hrun (s : hst) (evs : list hevent) : option hst :=
  match evs with [] => Some s | e :: r => match hstep s e with Some s' => hrun s' r | None => None end end.
Definition hinit : hst := {| evlog := []; hdemes := [] |}.

(* replay output for the correspondence: accepted count, then for every deme and generation the (genome id, fitness key) pairs *)
Fixpoint haccepted (s : hst) (evs : list hevent) (i : nat) : nat * hst :=
  match evs with [] => (i, s) | e :: r => match hstep s e with Some s' => haccepted s' r (S i) | None => (i, s) end end.
Definition hdigest (s : hst) : list Z :=
  flat_map (fun hd => (-1)%Z :: flat_map (fun gt => (-2)%Z :: flat_map (fun i => [ig i; ifit i]) (fst gt)) (hgens hd)) (hdemes s).
Definition hreplay (evs : list hevent) : list Z :=
  let '(n, s) := haccepted hinit evs 0 in Z.of_nat n :: Z.of_nat (length (evlog s)) :: hdigest s.

(* all individuals a deme exposes, in history order; the deme's best; the tree's best *)
Definition all_inds (hd : hdeme) : list ind := flat_map fst (hgens hd).
