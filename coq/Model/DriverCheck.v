(* Model/DriverCheck.v — executable comparison for the correspondence harness: the run() TRANSLATED from the current sources
   (Gen/GenDriver.v) is executed on the event stream recorded from a real run and must consume it completely and end in the state
   the small-step machine ends in.  (The simulation theorem gives "translated run => accepted machine run"; this checks, on recorded
   streams, the other direction: what the real code did is something the translated program can do.) *)
From Coq Require Import List Bool Arith ZArith.
From HV Require Import Ord Sprout Tree TreeCheck DriverPrim GenDriver.
Import ListNotations.

Definition code_agrees (c : cfg) (s : st) (evs : list event) : list Z :=
  match run c s evs with
  | Some sm =>
      match pc sm with
      | PDone =>
          match exec (gen_tree_run c (S (length evs))) s evs with
          | Some (_, s', []) => if list_eq_dec Z.eq_dec (full_digest s') (full_digest sm) then [(-5)%Z; 1%Z] else [(-5)%Z; 0%Z]
          | Some (_, _, _ :: _) => [(-5)%Z; 2%Z]      (* the translated run() returned before the recorded run did *)
          | None => [(-5)%Z; 3%Z]                     (* the translated run() cannot perform the recorded run *)
          end
      | _ => [(-5)%Z; 9%Z]                            (* the recorded run did not return: nothing to compare *)
      end
  | None => [(-5)%Z; 8%Z]                             (* rejected by the machine: reported by the machine replay *)
  end.
Definition replay_both (c : cfg) (s : st) (evs : list event) : list Z := replay c s evs 0 ++ code_agrees c s evs.
