(* Model/Ops.v — how each variational operator produces a gene (per coordinate, binary64), following pyhms/demes/single_pop_eas/
   sea.py and de.py, and the rejection loop of initializers.sample_normal.  The random draws (noise, masks, uniform samples,
   crossover weights, donors) are inputs: the theorems hold for every draw.  Hand-written, executable; no proofs here. *)
From Coq Require Import ZArith Bool List.
From HV Require Import F64 Bounds.
Import ListNotations.

(* GaussianMutation: genomes + mask * noise, then toroidal repair of ALL genes (delta = mask * noise, any double) *)
Definition gauss_gene (x delta lo hi : f64) : f64 := apply_bounds MToroidal (fadd x delta) lo hi.
(* UniformMutation: np.where(mask, sample, parent gene) *)
Definition uniform_gene (mask : bool) (sample x : f64) : f64 := np_where mask sample x.
(* ArithmeticCrossover: np.clip(alpha * x + (1 - alpha) * y, lower, upper)  (any combined value) *)
Definition crossover_gene (combined lo hi : f64) : f64 := np_clip combined lo hi.
(* DE / SHADE: reflect the donor, then Crossover mixes it gene-wise with the parent *)
Definition de_gene (take_donor : bool) (donor x lo hi : f64) : f64 := np_where take_donor (apply_bounds MReflect donor lo hi) x.

(* sample_normal.create(): draw until in_bounds; [draws] is the stream of multivariate-normal samples *)
Fixpoint sample_normal (fuel : nat) (draws : nat -> list f64) (box : list (f64 * f64)) : option (list f64) :=
  match fuel with
  | O => None
  | S f => let x := draws f in if in_box x box then Some x else sample_normal f draws box
  end.

Fixpoint map4 {A B C D E} (f : A -> B -> C -> D -> E) (a : list A) (b : list B) (c : list C) (d : list D) : list E :=
  match a, b, c, d with x :: a', y :: b', z :: c', w :: d' => f x y z w :: map4 f a' b' c' d' | _, _, _, _ => [] end.
Definition gauss_vec (xs deltas : list f64) (box : list (f64 * f64)) : list f64 :=
  map4 gauss_gene xs deltas (map fst box) (map snd box).

(* LHSDeme / SobolDeme: lower + sample * (upper - lower) per coordinate, sample in [0, 1) (qmc contract X4) *)
Definition scale_gene (lo hi s : f64) : f64 := fadd lo (fmul s (fsub hi lo)).
Definition pred_one : f64 := of_bits 0x3FEFFFFFFFFFFFFF.      (* the largest double below 1 *)
(* decidable per box: everything finite, non-negative range, and the LARGEST admissible sample still lands inside *)
Definition scale_ok (lo hi : f64) : bool :=
  let r := fsub hi lo in
  fis_finite lo && fis_finite hi && fis_finite r && fle (fzero false) r && fis_finite (fmul pred_one r) &&
  fis_finite (scale_gene lo hi pred_one) && fle (scale_gene lo hi pred_one) hi.

(* the arithmetic the operators perform before the repair, per gene, exactly as numpy evaluates it (left to right, binary64) *)
Definition gauss_delta (mask : bool) (noise : f64) : f64 := fmul (if mask then fone else fzero false) noise.   (* binary_mask * noise *)
Definition gauss_full (x noise : f64) (mask : bool) (lo hi : f64) : f64 := gauss_gene x (gauss_delta mask noise) lo hi.
Definition arith_combine (a x y : f64) : f64 := fadd (fmul a x) (fmul (fsub fone a) y).                       (* alpha * x + (1 - alpha) * y *)
Definition arith_gene (a x y lo hi : f64) : f64 := crossover_gene (arith_combine a x y) lo hi.
Definition de_donor (f r0 r1 r2 : f64) : f64 := fadd r0 (fmul f (fsub r1 r2)).                               (* r0 + f * (r1 - r2) *)
Definition de_full (take : bool) (f r0 r1 r2 x lo hi : f64) : f64 := de_gene take (de_donor f r0 r1 r2) x lo hi.
