(* Model/Bounds.v — pyhms/demes/single_pop_eas/common.py apply_bounds, per coordinate, on binary64.
   [*_pinned] are the definitions of the pinned tree (commit 903d392), kept for the refutation
   witnesses of defect D1; [clip]/[reflect]/[toroidal] follow the repaired source and are what
   Gen/Common.v (regenerated from /repo on every run) must be equal to (Proofs/GenEquivCommon.v). *)
From Coq Require Import ZArith Bool.
From HV Require Import F64.

Definition inside (x lo hi : f64) : bool := fge x lo && fle x hi.

Definition reflect_raw (x lo hi : f64) : f64 :=
  let r := fsub hi lo in
  let n := fsub x lo in
  let flips := np_floor_divide n r in
  let md := np_mod n r in
  let odd := feq (np_mod flips ftwo) fone in
  fadd lo (np_where odd (fsub r md) md).
Definition toroidal_raw (x lo hi : f64) : f64 :=
  let r := fsub hi lo in fadd lo (np_mod (fsub x lo) r).

Definition reflect_pinned := reflect_raw.
Definition toroidal_pinned := toroidal_raw.

Definition clip (x lo hi : f64) : f64 := np_clip x lo hi.
Definition reflect (x lo hi : f64) : f64 :=
  np_where (inside x lo hi) x (np_clip (reflect_raw x lo hi) lo hi).
Definition toroidal (x lo hi : f64) : f64 :=
  np_where (inside x lo hi) x (np_clip (toroidal_raw x lo hi) lo hi).

Inductive method := MClip | MReflect | MToroidal.
Definition apply_bounds (m : method) (x lo hi : f64) : f64 :=
  match m with MClip => clip x lo hi | MReflect => reflect x lo hi | MToroidal => toroidal x lo hi end.

(* vectors: numpy broadcasts coordinate-wise *)
From Coq Require Import List.
Fixpoint apply_bounds_vec (m : method) (xs : list f64) (box : list (f64 * f64)) : list f64 :=
  match xs, box with
  | x :: xs', (lo, hi) :: box' => apply_bounds m x lo hi :: apply_bounds_vec m xs' box'
  | _, _ => nil
  end.
Definition in_box1 (x lo hi : f64) : bool := fle lo x && fle x hi.
Fixpoint in_box (xs : list f64) (box : list (f64 * f64)) : bool :=
  match xs, box with
  | x :: xs', (lo, hi) :: box' => in_box1 x lo hi && in_box xs' box'
  | nil, nil => true
  | _, _ => false
  end.
