(* Model/Ctor.v — what a deme constructor builds.  The constructors of the seven deme classes (and Individual's small methods) are
   TRANSLATED into programs over this vocabulary (Gen/GenCtor.v); Proofs/GenEquivCtor.v proves that every class builds exactly the deme
   the machine's sprouting / initial step assumes: on the given level, started at the given metaepoch, active, awake, childless, its
   history holding exactly one generation (the start population), every individual of which carries a fitness, the deme's evaluation
   count being the number of individuals it evaluated itself, and — for a sprouted engine deme — the start population containing a copy
   of the sprout seed.

   Individuals are symbolic: where the genome came from, whether the individual carries a fitness, and whether its problem is the
   deme's own counting problem (only those evaluations are counted for the deme). *)
From Coq Require Import List Bool Arith.
From HV Require Import Tree.
Import ListNotations.

Inductive origin :=
| OUniform (k : nat)       (* sample_uniform(bounds)() *)
| ONormal (k : nat)        (* sample_normal(seed genome, std, bounds)() *)
| OSeedGenome              (* the sprout seed's genome, in a NEW individual *)
| OSeedObject              (* the parent's individual object itself *)
| OAsk (k : nat)           (* a row of CMAEvolutionStrategy.ask() *)
| OScaled (k : nat).       (* a row of lower + sample * (upper - lower) *)
Record sind := { s_org : origin; s_fit : bool; s_own : bool }.

(* DemeInitArgs as far as the model goes *)
Record iargs := { a_level : nat; a_started : nat; a_seed : bool }.

(* the object under construction: a field is None until the constructor assigns it *)
Record cobj := { c_level : option nat; c_started : option nat; c_active : option bool; c_hib : option bool;
                 c_hist : option (list (list (list sind))); c_children : option nat; c_own_problem : bool; c_counted : nat; c_local_evals : option nat }.
Definition blank : cobj :=
  {| c_level := None; c_started := None; c_active := None; c_hib := None; c_hist := None; c_children := None; c_own_problem := false; c_counted := 0; c_local_evals := None |}.
Definition set_level (o : cobj) v := {| c_level := Some v; c_started := c_started o; c_active := c_active o; c_hib := c_hib o; c_hist := c_hist o; c_children := c_children o; c_own_problem := c_own_problem o; c_counted := c_counted o; c_local_evals := c_local_evals o |}.
Definition set_started (o : cobj) v := {| c_level := c_level o; c_started := Some v; c_active := c_active o; c_hib := c_hib o; c_hist := c_hist o; c_children := c_children o; c_own_problem := c_own_problem o; c_counted := c_counted o; c_local_evals := c_local_evals o |}.
Definition set_active (o : cobj) v := {| c_level := c_level o; c_started := c_started o; c_active := Some v; c_hib := c_hib o; c_hist := c_hist o; c_children := c_children o; c_own_problem := c_own_problem o; c_counted := c_counted o; c_local_evals := c_local_evals o |}.
Definition set_hibernating (o : cobj) v := {| c_level := c_level o; c_started := c_started o; c_active := c_active o; c_hib := Some v; c_hist := c_hist o; c_children := c_children o; c_own_problem := c_own_problem o; c_counted := c_counted o; c_local_evals := c_local_evals o |}.
Definition set_history (o : cobj) v := {| c_level := c_level o; c_started := c_started o; c_active := c_active o; c_hib := c_hib o; c_hist := Some v; c_children := c_children o; c_own_problem := c_own_problem o; c_counted := c_counted o; c_local_evals := c_local_evals o |}.
Definition set_children (o : cobj) v := {| c_level := c_level o; c_started := c_started o; c_active := c_active o; c_hib := c_hib o; c_hist := c_hist o; c_children := Some v; c_own_problem := c_own_problem o; c_counted := c_counted o; c_local_evals := c_local_evals o |}.
(* self._problem = EvalCountingProblem(config.problem): from here on "the deme's own problem" exists *)
Definition set_own_problem (o : cobj) := {| c_level := c_level o; c_started := c_started o; c_active := c_active o; c_hib := c_hib o; c_hist := c_hist o; c_children := c_children o; c_own_problem := true; c_counted := c_counted o; c_local_evals := c_local_evals o |}.
(* k more evaluations went through the deme's own counting problem *)
Definition count_evals (o : cobj) k := {| c_level := c_level o; c_started := c_started o; c_active := c_active o; c_hib := c_hib o; c_hist := c_hist o; c_children := c_children o; c_own_problem := c_own_problem o; c_counted := c_counted o + k; c_local_evals := c_local_evals o |}.
(* LocalDeme keeps its own counter *)
Definition set_local_evals (o : cobj) v := {| c_level := c_level o; c_started := c_started o; c_active := c_active o; c_hib := c_hib o; c_hist := c_hist o; c_children := c_children o; c_own_problem := c_own_problem o; c_counted := c_counted o; c_local_evals := Some v |}.
(* self._history.append(x) *)
Definition append_history (o : cobj) (x : list (list sind)) : cobj :=
  match c_hist o with Some h => set_history o (h ++ [x]) | None => o end.

(* problem.evaluate(genome) through an individual: fitness present afterwards; counted for the deme iff the problem is the deme's own *)
Definition with_fitness (i : sind) : sind := {| s_org := s_org i; s_fit := true; s_own := s_own i |}.
Definition b2n (b : bool) : nat := if b then 1 else 0.

(* the deme the machine works with, if the constructor assigned everything (its n_evaluations: the own problem's counter, or the local one) *)
Definition built (o : cobj) (local : bool) : option deme :=
  match c_level o, c_started o, c_active o, c_hib o, c_hist o, c_children o with
  | Some l, Some st, Some a, Some h, Some hist, Some 0 =>
      match (if local then c_local_evals o else Some (c_counted o)) with
      | Some n => Some {| d_lvl := l; d_par := None; d_started := st; d_active := a; d_hib := h; d_meta := length hist - 1; d_evals := n;
                          d_meta0 := 0; d_should := false; d_after := 0; d_hibmark := (0, 0) |}
      | None => None
      end
  | _, _, _, _, _, _ => None
  end.

(* what every constructor has to deliver *)
Definition fresh_deme (lvl started n : nat) : deme :=
  {| d_lvl := lvl; d_par := None; d_started := started; d_active := true; d_hib := false; d_meta := 0; d_evals := n;
     d_meta0 := 0; d_should := false; d_after := 0; d_hibmark := (0, 0) |}.
Definition start_population (o : cobj) : option (list sind) :=
  match c_hist o with Some [[p]] => Some p | _ => None end.
