(* Model/Report.v — what DemeTree.summary() / tree() print, as numbers and deme lines (pyhms/tree.py, utils/print_tree.py), over
   the state of the HMS machine plus each deme's best fitness key.  Float formatting is not modelled: the harness parses the
   numbers back.  Hand-written, executable; no proofs here. *)
From Coq Require Import List Bool Arith ZArith.
From HV Require Import Ord Sprout Tree.
Import ListNotations.

(* deme.children, in creation order *)
Definition kids (ds : list deme) (r : nat) : list nat := ids (fun d => match d_par d with Some p => Nat.eqb p r | None => false end) ds.
(* format_deme_children_tree: depth-first, children in creation order; a child that has not run a metaepoch is skipped with its
   whole subtree (the recursion is bounded by the number of demes) *)
Fixpoint dfs (fuel : nat) (ds : list deme) (r : nat) : list nat :=
  match fuel with
  | O => []
  | S f => flat_map (fun ch => if Nat.eqb (d_meta (dnth ch ds)) 0 then [] else ch :: dfs f ds ch) (kids ds r)
  end.
Definition lines (ds : list deme) : list nat := 0 :: dfs (length ds) ds 0.

Record rline := { l_deme : nat; l_evals : nat; l_new : bool; l_marked : bool }.
(* best : deme -> best fitness key of its whole history; gb : the tree's best fitness key *)
Definition mk_line (ds : list deme) (best : nat -> Z) (gb : Z) (i : nat) : rline :=
  let d := dnth i ds in
  {| l_deme := i; l_evals := d_evals d; l_new := (d_meta d <=? 1) && negb (Nat.eqb i 0); l_marked := Z.eqb (best i) gb |}.
Definition tree_report (ds : list deme) (best : nat -> Z) (gb : Z) : list rline := map (mk_line ds best gb) (lines ds).

Definition level_evals (ds : list deme) (lv : nat) : nat := total_evals (filter (fun d => Nat.eqb (d_lvl d) lv) ds).
Definition level_count (ds : list deme) (lv : nat) : nat := count (fun d => Nat.eqb (d_lvl d) lv) ds.
Record rsummary := { s_meta : nat; s_evals : nat; s_demes : nat; s_levels : list (nat * nat) }.
Definition summary (H : nat) (s : st) : rsummary :=
  {| s_meta := mcount s; s_evals := total_evals (demes s); s_demes := length (demes s);
     s_levels := map (fun lv => (level_evals (demes s) lv, level_count (demes s) lv)) (seq 0 H) |}.
