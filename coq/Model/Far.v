(* Model/Far.v — FarEnough / NBC_FarEnough (pyhms/sprout/sprout_filters.py) and the centroid accessor, over abstract distance and
   mean functions: the property is about WHICH siblings and WHICH population, not about floating-point summation.  Executable
   once the oracles are supplied; no proofs here. *)
From Coq Require Import ZArith List Bool Arith.
Import ListNotations.

Section Far.
  Context {Cand Sib : Type}.
  Variable dist : Cand -> Sib -> Z.             (* key of nla.norm(ind.genome - sibling.centroid, ord) *)
  Variable active : Sib -> bool.
  (* which demes of the target level are compared against: FarEnough — active ones; NBC_FarEnough — active ones, or all when
     check_only_active is false *)
  Definition considered (only_active : bool) (level_below : list Sib) : list Sib :=
    filter (fun s => active s || negb only_active) level_below.
  (* for sibling in child_siblings: child_seeds = [ind for ind in child_seeds if dist(ind, sibling.centroid) > threshold] *)
  Definition far_enough (thr : Z) (sibs : list Sib) (cands : list Cand) : list Cand :=
    fold_left (fun cs s => filter (fun c => (thr <? dist c s)%Z) cs) sibs cands.
  Definition far_filter (only_active : bool) (thr : Z) (level_below : list Sib) (cands : list Cand) : list Cand :=
    far_enough thr (considered only_active level_below) cands.
End Far.

(* AbstractDeme.centroid: the mean of the CURRENT population (the last generation of the history), recomputed on every read *)
Section Centroid.
  Context {G M : Type}.
  Variable mean : list G -> M.
  Definition current {A} (history : list (list A)) : list A := last history [].
  Definition centroid (history : list (list G)) : M := mean (current history).
End Centroid.
