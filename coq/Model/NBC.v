(* Model/NBC.v — nearest-better clustering as coded in pyhms/utils/clusterization.py, on the best-first sorted, truncated
   population: goodness values gs (ascending = best first; good mx (fkey fitness)), distance keys D i j between positions
   (fkey of the Euclidean norm numpy computed), cut threshold thr (fkey of mean * factor).  Executable; no proofs here. *)
From Coq Require Import ZArith List Bool Arith.
Import ListNotations.
Local Open Scope Z_scope.

Section NBC.
  Variable D : nat -> nat -> Z.
  (* individuals.index(ind): Individual.__eq__ compares fitness, so this is the first position with an equal fitness *)
  Fixpoint first_eq (g : Z) (gs : list Z) : nat := match gs with [] => O | x :: r => if x =? g then O else S (first_eq g r) end.
  (* how many leading individuals are offered to _find_nearest_better: [root] for a tie with the best, individuals[:index(ind)] otherwise *)
  Definition ncand (gs : list Z) (i : nat) : nat := let g := nth i gs 0 in if g =? nth 0 gs 0 then 1%nat else first_eq g gs.
  Definition min_dist (i k : nat) : Z := fold_left Z.min (map (D i) (seq 1 (k - 1))) (D i 0).
  Definition nbd (gs : list Z) (i : nat) : Z := min_dist i (ncand gs i).
  (* first arg-min: the parent in the spanning tree *)
  Definition parent (gs : list Z) (i : nat) : nat :=
    let d := nbd gs i in fold_right (fun j acc => if D i j =? d then j else acc) O (seq 0 (ncand gs i)).
  (* cluster(): the root (distance inf) plus every node whose edge is strictly longer than the threshold, in tree order *)
  Definition nbc (gs : list Z) (thr : Z) : list nat := O :: filter (fun i => thr <? nbd gs i) (seq 1 (length gs - 1)).
  Definition edge_lengths (gs : list Z) : list Z := map (nbd gs) (seq 1 (length gs - 1)).
End NBC.

(* int(len * truncation) is computed on doubles by the harness and enters as a number *)
Definition truncate {A} (m : nat) (sorted : list A) : list A := firstn m sorted.
