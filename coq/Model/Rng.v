(* Model/Rng.v — where run-to-run variation can come from, and what options.random_seed controls (C14).  The global numpy and
   python generator states are explicit; DemeTree.__init__ overwrites both from the seed before anything is drawn; every draw
   threads the state.  Hand-written; the table of sources is generated from the code (Gen/GenEntropy.v). *)
From Coq Require Import List Bool ZArith.
Import ListNotations.

Inductive ekind :=
| KNumpyGlobal | KPythonGlobal          (* draws from the global generators: functions of the state the constructor seeds *)
| KSeeding                              (* np.random.seed / random.seed with the configured seed *)
| KSeededSampler | KOwnSeeded           (* a generator / qmc sampler owned by an object, built from the configured seed alone *)
| KUuidOutside | KClockOutside          (* uuid / clock values that never enter the compared state (Individual.uuid, durations) *)
| KStateAccess
| KReseedOther | KUnseededSampler | KOwnUnseeded | KUuid | KClock | KHash | KId | KUrandom | KSetIter.   (* not controlled by the seed *)

Definition controlled (k : ekind) : bool :=
  match k with
  | KNumpyGlobal | KPythonGlobal | KSeeding | KSeededSampler | KOwnSeeded | KUuidOutside | KClockOutside | KStateAccess => true
  | _ => false
  end.

Section Run.
  Context {Cfg State Result : Type}.
  (* the run as a function of the configuration and of the generator states in force when the first draw happens *)
  Variable run_from : Cfg -> State * State -> Result.
  Variable seed_np seed_py : Z -> State.
  (* DemeTree.__init__: random.seed(s); np.random.seed(s) when the option is set, else the prior state stays *)
  Definition after_init (seed : option Z) (prior : State * State) : State * State :=
    match seed with Some s => (seed_np s, seed_py s) | None => prior end.
  Definition run (c : Cfg) (seed : option Z) (prior : State * State) : Result := run_from c (after_init seed prior).
End Run.
