(* Model/Minimize.v — what pyhms.minimize() sets up before it builds the tree, as far as budgets and reporting go (the plan is TRANSLATED
   from hms.py into Gen/GenMinimize.v): which wrappers sit on the ONE problem object both levels share, which global stop condition is
   chosen, and which counter is reported as nfev. *)
From Coq Require Import ZArith List Bool.
From HV Require Import F64 WMonad Problem.
Import ListNotations.
Local Open Scope Z_scope.

Inductive gsc_choice := ByEvals (n : Z) | ByMetaepochs (n : option Z).
Inductive nfev_source := FromCutoffWrapper | FromTree.
Record plan := { pl_stack : stack; pl_maximize : bool; pl_gsc : gsc_choice; pl_nfev : nfev_source; pl_levels_share_problem : bool;
                 pl_x_is_tree_best : bool; pl_fun_is_tree_best : bool; pl_nit_is_metaepochs : bool }.
(* EvalCutoffProblem(p, eval_cutoff=b): a fresh counter *)
Definition fresh_cutoff (b : Z) : wobj :=
  {| n_evals := 0; eval_cutoff := b; global_optima := fzero false; precision := fzero false; eta := None; hit_precision := false; durations := [] |}.
Definition is_none {A} (o : option A) : bool := match o with None => true | Some _ => false end.
Definition is_some {A} (o : option A) : bool := negb (is_none o).
Definition oget (o : option Z) : Z := match o with Some z => z | None => 0 end.
