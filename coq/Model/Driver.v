(* Model/Driver.v — the HMS driver in big steps, hand-written: what pyhms/tree.py's run / run_step / run_metaepoch / run_sprout /
   _do_sprout and the seven run_metaepoch methods do, as programs over the primitives of DriverPrim.v.
   Gen/GenDriver.v (regenerated from /repo on every check) is proved equal to these programs in Proofs/GenEquivDriver.v, and
   Proofs/DriverFacts.v proves that every execution of these programs is a run accepted by the small-step machine of Model/Tree.v.
   No proofs in this file. *)
From Coq Require Import List Bool Arith ZArith.
From HV Require Import Ord Sprout Tree DriverPrim.
Import ListNotations.

(* `while epoch_counter < self._generations` *)
Definition gens_cond (c : cfg) (d : nat) (g : nat) : D bool := gens <- r_generations c d ;; ret (g <? gens).

(* EADeme / DEDeme / SHADEDeme.run_metaepoch *)
Definition pop_body (c : cfg) (d : nat) (g : nat) : D (nat * bool) :=
  p_engine_iter d ;;;
  v <- p_gsc c ;;
  if v then p_append_meta d ;;; p_deactivate d ;;; ret (S g, true) else ret (S g, false).
Definition run_pop (c : cfg) (fuel : nat) (d : nat) : D unit :=
  r <- while_ fuel (gens_cond c d) (pop_body c d) 0 ;;
  if snd r then ret tt else
  p_append_meta d ;;;
  v <- p_lsc c d ;;
  if v then p_deactivate d else ret tt.

(* CMADeme.run_metaepoch *)
Definition cma_body (c : cfg) (d : nat) (g : nat) : D (nat * bool) :=
  p_engine_iter d ;;;
  v <- or_ (p_gsc c) p_cma_stop ;;
  if v then p_append_meta d ;;; p_deactivate d ;;; ret (S g, true) else ret (S g, false).
Definition run_cma (c : cfg) (fuel : nat) (d : nat) : D unit :=
  r <- while_ fuel (gens_cond c d) (cma_body c d) 0 ;;
  if snd r then ret tt else
  p_append_meta d ;;;
  v <- or_ (p_lsc c d) p_cma_stop ;;
  if v then p_deactivate d else ret tt.

(* LHSDeme / SobolDeme.run_metaepoch (run() appends the sampled generation at once) *)
Definition run_sampler (c : cfg) (d : nat) : D unit :=
  p_engine_iter d ;;;
  p_append_meta d ;;;
  v <- or_ (p_gsc c) (p_lsc c d) ;;
  if v then p_deactivate d else ret tt.

(* LocalDeme.run_metaepoch *)
Definition run_local (d : nat) : D unit :=
  n <- p_local_search ;;
  p_count_evals d n ;;;
  p_append_meta d ;;;
  p_deactivate d.

(* deme.run_metaepoch(tree): python's dynamic dispatch on the class configured for the deme's level *)
Definition run_deme (c : cfg) (fuel : nat) (d : nat) : D unit :=
  lv <- r_level d ;;
  match kind_of c lv with
  | KPop => run_pop c fuel d
  | KCma => run_cma c fuel d
  | KSampler => run_sampler c d
  | KLocal => run_local d
  end.

(* DemeTree.active_demes / active_non_leaves *)
Definition active_demes (c : cfg) (ds : list deme) : list nat :=
  flat_map (fun l => filter (fun i => d_active (dnth i ds)) (level_ids ds l)) (seq 0 (height c)).
Definition active_non_leaves (c : cfg) (ds : list deme) : list nat :=
  flat_map (fun l => filter (fun i => d_active (dnth i ds)) (level_ids ds l)) (seq 0 (height c - 1)).

(* DemeTree.run_metaepoch *)
Definition meta_body (c : cfg) (fuel : nat) (d : nat) : D bool :=
  h <- r_hibernating d ;; if hib_on c && h then ret false else run_deme c fuel d ;;; ret false.
Definition run_metaepoch (c : cfg) (fuel : nat) : D unit :=
  s <- get_st ;;
  for_ (rev (active_demes c (demes s))) (meta_body c fuel) ;;;
  ret tt.

(* DemeTree._do_sprout *)
Definition sprout_child (p : nat) (target : nat) : D bool :=
  m <- r_metaepoch_count ;;
  ch <- p_init_from_config target target m ;;
  p_append_level target (add_child p ch) ;;;
  ret false.
Definition sprout_parent (pk : nat * list Z) : D bool :=
  lv <- r_level (fst pk) ;; for_ (snd pk) (fun _ => sprout_child (fst pk) (S lv)).
Definition do_sprout_b (seeds : cmap) : D unit :=
  for_ seeds sprout_parent ;;;
  ret tt.

(* DemeTree.run_sprout *)
Definition hib_body (seeds : cmap) (d : nat) : D bool := p_set_hibernating d (negb (in_seeds seeds d)) ;;; ret false.
Definition run_sprout (c : cfg) : D unit :=
  s <- get_st ;;
  let participants := active_non_leaves c (demes s) in
  seeds <- p_get_seeds c ;;
  do_sprout_b seeds ;;;
  if hib_on c
  then for_ (rev participants) (hib_body seeds) ;;; ret tt
  else ret tt.

(* DemeTree.run_step *)
Definition run_step (c : cfg) (fuel : nat) : D unit :=
  p_inc_metaepoch c ;;;
  run_metaepoch c fuel ;;;
  v <- p_gsc c ;;
  if v then ret tt else run_sprout c.

(* DemeTree.run: while not self._gsc(self): self.run_step() *)
Definition run_cond (c : cfg) (_ : unit) : D bool := v <- p_gsc c ;; ret (negb v).
Definition run_body (c : cfg) (fuel : nat) (_ : unit) : D (unit * bool) := run_step c fuel ;;; ret (tt, false).
Definition run_tree (c : cfg) (fuel : nat) : D unit :=
  while_ fuel (run_cond c) (run_body c fuel) tt ;;; ret tt.
