(* Model/Tree.v — the HMS machine: pyhms/tree.py (run, run_step, run_metaepoch, run_sprout, _do_sprout), the
   run_metaepoch loops of every deme class, the shipped global/local stop conditions and the tree-level
   filter chain, as a deterministic small-step machine.  Everything the model does not compute (how many
   evaluations an engine iteration made, verdicts of user-defined / float-valued conditions, candidate keys,
   verdicts of distance filters) arrives as an EVENT; an event that the code could not produce in the current
   state is rejected (None).  "At every moment of the run" = in every state of every accepted event sequence.
   Hand-written and executable; no proofs in this file. *)
From Coq Require Import List Bool Arith ZArith.
From HV Require Import Ord Sprout.
Import ListNotations.

Inductive dkind := KPop | KCma | KLocal | KSampler.
Inductive lsc_kind := LMetaLimit (n : nat) | LDontStop | LDontRun | LAllChildrenStopped | LOracle
| LSteadiness (n : nat).   (* FitnessSteadiness(_, n): false while the deme has run fewer than n metaepochs; afterwards a float-valued verdict from outside *)
Inductive gsc_kind :=
| GMetaLimit (n : nat) | GDontRun | GDontStop | GRootStopped | GAllStopped
| GEvalLimit (limit : nat) (weights : list nat)        (* singular: all weights 1; FitnessEvalLimitReached: per level *)
| GNoActiveNonroot (n : nat)
| GOracle                                               (* precision reached / user-defined: verdict comes from outside *)
| GOr (a b : gsc_kind).

(* what a user may pass as FitnessEvalLimitReached(limit, weights): None, the strategy names "equal" / "root" (WeightingStrategy is a str-Enum, so
   the plain strings compare equal to its members), some other string, or an explicit list of per-level weights *)
Inductive wspec := WNone | WEqual | WRoot | WOtherStr | WList (ws : list nat).
Definition w_is_none (w : wspec) : bool := match w with WNone => true | _ => false end.
Definition w_is_str (w : wspec) : bool := match w with WEqual | WRoot | WOtherStr => true | _ => false end.
Definition w_is_list (w : wspec) : bool := match w with WList _ => true | _ => false end.
Definition w_eq_equal (w : wspec) : bool := match w with WEqual => true | _ => false end.
Definition w_eq_root (w : wspec) : bool := match w with WRoot => true | _ => false end.
(* `w[i] = v` : IndexError (None) beyond the end, TypeError (None) on anything but a list *)
Fixpoint list_set (l : list nat) (i v : nat) : option (list nat) :=
  match l, i with
  | [], _ => None
  | _ :: r, 0 => Some (v :: r)
  | x :: r, S j => match list_set r j v with Some r' => Some (x :: r') | None => None end
  end.
Definition w_setitem (w : wspec) (i v : nat) : option wspec :=
  match w with WList l => match list_set l i v with Some l' => Some (WList l') | None => None end | _ => None end.
Definition w_as_list (w : option wspec) : option (list nat) := match w with Some (WList l) => Some l | _ => None end.
(* the per-level weights the machine's GEvalLimit carries for a tree of n levels (None: the call raises) *)
Definition weights_of (n : nat) (w : wspec) : option (list nat) :=
  match w with
  | WList ws => Some ws
  | WNone | WEqual => Some (repeat 1 n)
  | WRoot => match n with 0 => None | S m => Some (1 :: repeat 0 m) end
  | WOtherStr => None
  end.
Definition weights_or_nil (n : nat) (w : wspec) : list nat := match weights_of n w with Some l => l | None => [] end.

Record cfg := { height : nat; kinds : list dkind; ngens : list nat; lscs : list lsc_kind; gsc : gsc_kind;
                hib_on : bool; level_lim : option nat; maximize : bool }.

Record deme := { d_lvl : nat; d_par : option nat; d_started : nat; d_active : bool; d_hib : bool;
                 d_meta : nat;       (* metaepochs run = len(_history) - 1 *)
                 d_evals : nat;      (* the deme's own evaluation counter *)
                 (* ghost *)
                 d_meta0 : nat;      (* d_meta when the current metaepoch began *)
                 d_should : bool;    (* active and awake when the current metaepoch began *)
                 d_after : nat;      (* engine iterations since the GSC was first observed true *)
                 d_hibmark : nat * nat  (* (evals, metaepochs) when it last went to sleep *) }.

Inductive dsub := SGen | SGsc | SCma | SLsc | SCma2 | SLocal.
Inductive pc_t := PMain | PDeme (todo : list nat) (d : nat) (g : nat) (sub : dsub) | PStepGsc | PSprout | PDone.

Record st := { mcount : nat; demes : list deme; pc : pc_t;
               (* ghost *) seen : bool; steps : nat; clock : nat; born_after_seen : nat; last_round : list nat * list nat }.

Inductive event :=
| EGsc (v : bool)                      (* the global stop condition was consulted *)
| EGen (n : nat)                       (* one engine iteration of the running deme, n evaluations *)
| ELsc (v : bool)                      (* the running deme's local stop condition *)
| ECma (v : bool)                      (* cma.stop() *)
| ELocal (n : nat)                     (* one complete local search, n evaluations *)
| ESprout (cands : cmap) (post : list (list bool)) (inits : list nat).
      (* candidates entering the tree-level chain, verdicts of removing filters after LevelLimit, evaluations spent by each constructor *)

(* ---------------------------------------------------------------- record updates *)
Definition set_d (d : deme) lvl par started active hib meta evals meta0 should after mark : deme :=
  {| d_lvl := lvl; d_par := par; d_started := started; d_active := active; d_hib := hib; d_meta := meta; d_evals := evals;
     d_meta0 := meta0; d_should := should; d_after := after; d_hibmark := mark |}.
Definition add_evals (n : nat) (k : nat) (d : deme) : deme :=
  set_d d (d_lvl d) (d_par d) (d_started d) (d_active d) (d_hib d) (d_meta d) (d_evals d + n) (d_meta0 d) (d_should d) (d_after d + k) (d_hibmark d).
Definition append_meta (d : deme) : deme :=
  set_d d (d_lvl d) (d_par d) (d_started d) (d_active d) (d_hib d) (S (d_meta d)) (d_evals d) (d_meta0 d) (d_should d) (d_after d) (d_hibmark d).
Definition deactivate (d : deme) : deme :=
  set_d d (d_lvl d) (d_par d) (d_started d) false (d_hib d) (d_meta d) (d_evals d) (d_meta0 d) (d_should d) (d_after d) (d_hibmark d).
Definition set_hib (b : bool) (d : deme) : deme :=
  set_d d (d_lvl d) (d_par d) (d_started d) (d_active d) b (d_meta d) (d_evals d) (d_meta0 d) (d_should d) (d_after d)
        (if b && negb (d_hib d) then (d_evals d, d_meta d) else d_hibmark d).
Definition mark_step (hib_on : bool) (d : deme) : deme :=
  set_d d (d_lvl d) (d_par d) (d_started d) (d_active d) (d_hib d) (d_meta d) (d_evals d) (d_meta d)
        (d_active d && negb (hib_on && d_hib d)) (d_after d) (d_hibmark d).
Definition new_deme (lvl par started evals : nat) : deme :=
  {| d_lvl := lvl; d_par := Some par; d_started := started; d_active := true; d_hib := false; d_meta := 0; d_evals := evals;
     d_meta0 := 0; d_should := false; d_after := 0; d_hibmark := (0, 0) |}.
Definition root_deme (evals : nat) : deme :=
  {| d_lvl := 0; d_par := None; d_started := 0; d_active := true; d_hib := false; d_meta := 0; d_evals := evals;
     d_meta0 := 0; d_should := false; d_after := 0; d_hibmark := (0, 0) |}.

Fixpoint upd (i : nat) (f : deme -> deme) (l : list deme) : list deme :=
  match l, i with
  | [], _ => []
  | d :: r, O => f d :: r
  | d :: r, S i' => d :: upd i' f r
  end.
Definition dnth (i : nat) (l : list deme) : deme := nth i l (root_deme 0).

Definition with_state (s : st) (m : nat) (ds : list deme) (p : pc_t) (sn : bool) (stp clk bas : nat) (lr : list nat * list nat) : st :=
  {| mcount := m; demes := ds; pc := p; seen := sn; steps := stp; clock := clk; born_after_seen := bas; last_round := lr |}.
Definition set_pc (s : st) (p : pc_t) : st := with_state s (mcount s) (demes s) p (seen s) (steps s) (clock s) (born_after_seen s) (last_round s).
Definition set_demes (s : st) (ds : list deme) : st := with_state s (mcount s) ds (pc s) (seen s) (steps s) (clock s) (born_after_seen s) (last_round s).

(* ---------------------------------------------------------------- queries *)
Fixpoint ids_from (i : nat) (p : deme -> bool) (l : list deme) : list nat :=
  match l with [] => [] | d :: r => if p d then i :: ids_from (S i) p r else ids_from (S i) p r end.
Definition ids (p : deme -> bool) (l : list deme) : list nat := ids_from 0 p l.
(* tree.active_demes order: level by level, creation order inside a level *)
Definition level_order (H : nat) (p : deme -> bool) (l : list deme) : list nat :=
  flat_map (fun lv => ids (fun d => Nat.eqb (d_lvl d) lv && p d) l) (seq 0 H).
Definition count (p : deme -> bool) (l : list deme) : nat := length (filter p l).
Definition active_at (l : list deme) (lv : nat) : nat := count (fun d => Nat.eqb (d_lvl d) lv && d_active d) l.
Definition total_evals (l : list deme) : nat := fold_right (fun d a => d_evals d + a) 0 l.
Definition children_of (i : nat) (l : list deme) : list deme :=
  filter (fun d => match d_par d with Some p => Nat.eqb p i | None => false end) l.

Fixpoint gsc_eval (g : gsc_kind) (H : nat) (s : st) : option bool :=
  match g with
  | GMetaLimit n => Some (n <=? mcount s)
  | GDontRun => Some true
  | GDontStop => Some false
  | GRootStopped => Some (negb (d_active (dnth 0 (demes s))))
  | GAllStopped => Some (forallb (fun d => negb (d_active d)) (demes s))
  | GEvalLimit limit ws => Some (limit <=? fold_right (fun d a => nth (d_lvl d) ws 0 * d_evals d + a) 0 (demes s))
  | GNoActiveNonroot n =>
      Some (forallb (fun lv => negb (Nat.eqb (count (fun d => Nat.eqb (d_lvl d) lv) (demes s)) 0) &&
                               forallb (fun d => negb (Nat.eqb (d_lvl d) lv) || (negb (d_active d) && (d_started d + d_meta d + n <? mcount s)))
                                       (demes s))
                    (seq 1 (H - 1)))
  | GOracle => None
  | GOr a b => match gsc_eval a H s, gsc_eval b H s with
               | Some true, _ | _, Some true => Some true
               | Some false, Some false => Some false
               | _, _ => None
               end
  end.
Definition lsc_eval (k : lsc_kind) (i : nat) (l : list deme) : option bool :=
  match k with
  | LMetaLimit n => Some (n <=? d_meta (dnth i l))
  | LDontStop => Some false
  | LDontRun => Some true
  | LAllChildrenStopped => Some (negb (Nat.eqb (length (children_of i l)) 0) && forallb (fun d => negb (d_active d)) (children_of i l))
  | LOracle => None
  | LSteadiness n => if d_meta (dnth i l) <? n then Some false else None
  end.
Definition consistent (o : option bool) (v : bool) : bool := match o with Some b => Bool.eqb b v | None => true end.

Definition kind_of (c : cfg) (lv : nat) : dkind := nth lv (kinds c) KSampler.
Definition gens_of (c : cfg) (lv : nat) : nat := nth lv (ngens c) 1.
Definition lsc_of (c : cfg) (lv : nat) : lsc_kind := nth lv (lscs c) LOracle.
Definition first_sub (k : dkind) : dsub := match k with KLocal => SLocal | _ => SGen end.

(* next deme of run_metaepoch's loop, or the end of the metaepoch *)
Definition begin_deme (c : cfg) (todo : list nat) (s : st) : st :=
  match todo with
  | [] => set_pc s PStepGsc
  | d :: t => set_pc s (PDeme t d 0 (first_sub (kind_of c (d_lvl (dnth d (demes s))))))
  end.

(* ---------------------------------------------------------------- sprouting *)
Definition total_seeds (c : cmap) : nat := fold_right (fun pk a => length (snd pk) + a) 0 c.
(* _do_sprout: for every (parent, seeds) in dict order, one child per seed; inits = evaluations each constructor spent *)
Fixpoint sprout_one (par lvl m : nat) (ks : list Z) (inits : list nat) (ds : list deme) : list deme * list nat :=
  match ks with
  | [] => (ds, inits)
  | _ :: ks' => sprout_one par lvl m ks' (tl inits) (ds ++ [new_deme lvl par m (hd 0 inits)])
  end.
Fixpoint do_sprout (m : nat) (seeds : cmap) (inits : list nat) (lvl_of : nat -> nat) (ds : list deme) : list deme :=
  match seeds with
  | [] => ds
  | (p, ks) :: r => let '(ds', inits') := sprout_one p (S (lvl_of p)) m ks inits ds in do_sprout m r inits' lvl_of ds'
  end.
Definition has_seeds (seeds : cmap) (i : nat) : bool := existsb (fun pk => Nat.eqb (fst pk) i && negb (Nat.eqb (length (snd pk)) 0)) seeds.
Fixpoint set_hibs (i : nat) (parts : list nat) (seeds : cmap) (ds : list deme) : list deme :=
  match ds with
  | [] => []
  | d :: r => (if existsb (Nat.eqb i) parts then set_hib (negb (has_seeds seeds i)) d else d) :: set_hibs (S i) parts seeds r
  end.
Definition seeds_valid (c : cfg) (ds : list deme) (seeds : cmap) : bool :=
  forallb (fun pk => (fst pk <? length ds) && (S (d_lvl (dnth (fst pk) ds)) <? height c) && (1 <=? d_meta (dnth (fst pk) ds))) seeds.
  (* candidates are offered for demes that exist, are not leaves and have run at least one metaepoch (a deme created by a round runs before the next round) *)

(* ---------------------------------------------------------------- the step function *)
Definition b2n (b : bool) : nat := if b then 1 else 0.
Definition finish (c : cfg) (t : list nat) (s : st) : st := begin_deme c t s.

Definition step (c : cfg) (s : st) (e : event) : option st :=
  let H := height c in
  match pc s, e with
  | PMain, EGsc v =>
      if negb (consistent (gsc_eval (gsc c) H s) v) || (seen s && negb v) then None else
      if v then Some (with_state s (mcount s) (demes s) PDone true (steps s) (clock s) (born_after_seen s) (last_round s))
      else
        let ds := map (mark_step (hib_on c)) (demes s) in
        let todo := rev (level_order H d_should ds) in
        Some (begin_deme c todo (with_state s (S (mcount s)) ds PMain (seen s) (S (steps s)) (clock s) (born_after_seen s) (last_round s)))
  | PDeme t d g SGen, EGen n =>
      let k := kind_of c (d_lvl (dnth d (demes s))) in
      let ds := upd d (add_evals n (b2n (seen s))) (demes s) in
      let ds := match k with KSampler => upd d append_meta ds | _ => ds end in      (* LHS/Sobol run() appends at once *)
      Some (with_state s (mcount s) ds (PDeme t d (S g) SGsc) (seen s) (steps s) (clock s + n) (born_after_seen s) (last_round s))
  | PDeme t d g SGsc, EGsc v =>
      if negb (consistent (gsc_eval (gsc c) H s) v) || (seen s && negb v) then None else
      let k := kind_of c (d_lvl (dnth d (demes s))) in
      let s1 := with_state s (mcount s) (demes s) (pc s) (seen s || v) (steps s) (clock s) (born_after_seen s) (last_round s) in
      if v then
        let ds := match k with KSampler => demes s | _ => upd d append_meta (demes s) end in
        Some (finish c t (set_demes s1 (upd d deactivate ds)))
      else match k with
           | KPop => if g <? gens_of c (d_lvl (dnth d (demes s))) then Some (set_pc s1 (PDeme t d g SGen))
                     else Some (set_pc (set_demes s1 (upd d append_meta (demes s))) (PDeme t d g SLsc))
           | KCma => Some (set_pc s1 (PDeme t d g SCma))
           | KSampler => Some (set_pc s1 (PDeme t d g SLsc))
           | KLocal => None
           end
  | PDeme t d g SCma, ECma v =>
      if v then Some (finish c t (set_demes s (upd d deactivate (upd d append_meta (demes s)))))
      else if g <? gens_of c (d_lvl (dnth d (demes s))) then Some (set_pc s (PDeme t d g SGen))
      else Some (set_pc (set_demes s (upd d append_meta (demes s))) (PDeme t d g SLsc))
  | PDeme t d g SLsc, ELsc v =>
      if negb (consistent (lsc_eval (lsc_of c (d_lvl (dnth d (demes s)))) d (demes s)) v) then None else
      if v then Some (finish c t (set_demes s (upd d deactivate (demes s))))
      else match kind_of c (d_lvl (dnth d (demes s))) with
           | KCma => Some (set_pc s (PDeme t d g SCma2))
           | _ => Some (finish c t s)
           end
  | PDeme t d g SCma2, ECma v =>
      if v then Some (finish c t (set_demes s (upd d deactivate (demes s)))) else Some (finish c t s)
  | PDeme t d g SLocal, ELocal n =>
      let ds := upd d deactivate (upd d append_meta (upd d (add_evals n (b2n (seen s))) (demes s))) in
      Some (finish c t (with_state s (mcount s) ds (pc s) (seen s) (steps s) (clock s + n) (born_after_seen s) (last_round s)))
  | PStepGsc, EGsc v =>
      if negb (consistent (gsc_eval (gsc c) H s) v) || (seen s && negb v) then None else
      Some (with_state s (mcount s) (demes s) (if v then PMain else PSprout) (seen s || v) (steps s) (clock s) (born_after_seen s) (last_round s))
  | PSprout, ESprout cands post inits =>
      let ds := demes s in
      let lvl_of := fun i => d_lvl (dnth i ds) in
      let c1 := match level_lim c with Some L => level_limit (maximize c) L lvl_of (active_at ds) cands | None => cands end in
      let seeds := mask_cmap c1 post in
      if negb (seeds_valid c ds cands) || negb (Nat.eqb (length post) (length cands)) || negb (Nat.eqb (length inits) (total_seeds seeds)) then None else
      let parts := ids (fun d => d_active d && (S (d_lvl d) <? H)) ds in
      let ds1 := do_sprout (mcount s) seeds inits lvl_of ds in
      let ds2 := if hib_on c then set_hibs 0 parts seeds ds1 else ds1 in
      Some (with_state s (mcount s) ds2 PMain (seen s) (steps s) (clock s + fold_right Nat.add 0 inits)
                       (born_after_seen s + (if seen s then total_seeds seeds else 0)) (parts, map fst (filter (fun pk => negb (Nat.eqb (length (snd pk)) 0)) seeds)))
  | _, _ => None
  end.

Fixpoint run (c : cfg) (s : st) (evs : list event) : option st :=
  match evs with [] => Some s | e :: r => match step c s e with Some s' => run c s' r | None => None end end.

Definition init (root_evals : nat) : st :=
  {| mcount := 0; demes := [root_deme root_evals]; pc := PMain; seen := false; steps := 0; clock := root_evals; born_after_seen := 0; last_round := ([], []) |}.

(* how far a trace is accepted (for the correspondence report): index of the first rejected event *)
Fixpoint accepted_prefix (c : cfg) (s : st) (evs : list event) (i : nat) : nat * st :=
  match evs with [] => (i, s) | e :: r => match step c s e with Some s' => accepted_prefix c s' r (S i) | None => (i, s) end end.

(* ---------------------------------------------------------------- deme ids (_next_child_id) as paths of numbers *)
(* len(tree.levels[level]) at the moment deme i was created: the earlier demes of the same level (levels only grow, creation order = index) *)
Definition lvl_index (ds : list deme) (i : nat) : nat := count (fun d => Nat.eqb (d_lvl d) (d_lvl (dnth i ds))) (firstn i ds).
Fixpoint did_fuel (fuel : nat) (ds : list deme) (i : nat) : list nat :=
  match fuel with
  | O => []
  | S f => match d_par (dnth i ds) with None => [] | Some p => did_fuel f ds p ++ [lvl_index ds i] end
  end.
Definition did (ds : list deme) (i : nat) : list nat := did_fuel (length ds) ds i.

