(* Model/Problem.v — pyhms/core/problem.py: wrapper stacks of any depth over a FunctionProblem.
   Hand-written, executable; no proofs here.  The per-class steps m_* are what Gen/GenProblem.v
   (regenerated from /repo) is proved equal to in Proofs/GenEquivProblem.v. *)
From Coq Require Import ZArith List Bool.
From HV Require Import F64 WMonad.
Import ListNotations.
Open Scope Z_scope.

Inductive kind := KWrapper | KCounting | KCutoff | KPrecision | KStats.

Definition bump (s : wobj) : wobj :=
  {| n_evals := n_evals s + 1; eval_cutoff := eval_cutoff s; global_optima := global_optima s; precision := precision s;
     eta := eta s; hit_precision := hit_precision s; durations := durations s |}.
Definition with_dur (s : wobj) : wobj :=
  {| n_evals := n_evals s; eval_cutoff := eval_cutoff s; global_optima := global_optima s; precision := precision s;
     eta := eta s; hit_precision := hit_precision s; durations := durations s ++ [0] |}.
Definition with_hit (s : wobj) : wobj :=
  {| n_evals := n_evals s; eval_cutoff := eval_cutoff s; global_optima := global_optima s; precision := precision s;
     eta := Some (n_evals s); hit_precision := true; durations := durations s |}.
Definition prec_test (s : wobj) (v : F) : bool := fle (fabs (fsub v (global_optima s))) (precision s).
Definition sentinel (mx : bool) : F := if mx then neg_inf else pos_inf.

(* what a wrapper of kind k does to its OWN fields when it forwarded a call that returned v *)
Definition local (k : kind) (s : wobj) (v : F) : wobj :=
  match k with
  | KWrapper => s
  | KCounting | KCutoff => bump s
  | KPrecision => let s' := bump s in if prec_test s' v && negb (hit_precision s') then with_hit s' else s'
  | KStats => with_dur (bump s)
  end.
Definition refuses (k : kind) (s : wobj) : bool :=
  match k with KCutoff => n_evals s >=? eval_cutoff s | _ => false end.

Section Steps.
  Context {G I : Type} (ops : inner_ops G I).
  (* one evaluate() of a wrapper of kind k, in direct style *)
  Definition m_step (k : kind) (x : G) (w : world) : F * world :=
    if refuses k (w_self w) then (sentinel (i_max ops (w_inner w)), w)
    else let '(v, i') := i_eval ops x (w_inner w) in (v, {| w_self := local k (w_self w) v; w_inner := i' |}).
End Steps.

Section Stack.
  Context {G : Type} (f : G -> F).
  Record base := { b_max : bool; b_calls : list G }.
  Definition stack := list (kind * wobj).

  Fixpoint eval_stack (st : stack) (x : G) (b : base) : F * (stack * base) :=
    match st with
    | [] => (f x, ([], {| b_max := b_max b; b_calls := b_calls b ++ [x] |}))
    | (k, s) :: rest =>
        let ops := {| i_eval := fun x' (i : stack * base) => eval_stack rest x' (snd i);
                      i_max := fun (i : stack * base) => b_max (snd i) |} in
        let '(v, w') := m_step ops k x {| w_self := s; w_inner := (rest, b) |} in
        (v, ((k, w_self w') :: fst (w_inner w'), snd (w_inner w')))
    end.

  (* a sequence of evaluate() calls on the outermost wrapper; returns the values handed back *)
  Fixpoint run_calls (st : stack) (b : base) (xs : list G) : list F * (stack * base) :=
    match xs with
    | [] => ([], (st, b))
    | x :: xs' => let '(v, (st', b')) := eval_stack st x b in
                  let '(vs, r) := run_calls st' b' xs' in (v :: vs, r)
    end.

  (* delegation: direction (and with it worse_than and the bounds, which live in the FunctionProblem) *)
  Definition stack_maximize (st : stack) (b : base) : bool := b_max b.
  Definition worse_than (mx : bool) (a c : F) : bool :=
    if fis_nan a then true (* both-NaN draws a coin in python; NaN fitness is outside every property *)
    else if fis_nan c then false else if mx then flt a c else fgt a c.

  (* how many wrappers, from the outside, forward the next call (= length st iff the objective is invoked) *)
  Fixpoint depth (st : stack) : nat :=
    match st with [] => O | (k, s) :: rest => if refuses k s then O else S (depth rest) end.
End Stack.
Arguments base : clear implicits.
