(* Model/Sprout.v — sprout filters on fitness keys (pyhms/sprout/sprout_filters.py), pure and executable.
   A candidate map is a list of (parent deme, keys of its candidates), in the dict's insertion order. *)
From Coq Require Import ZArith List Bool Arith.
From HV Require Import Ord.
Import ListNotations.

Definition cmap := list (nat * list Z).

Definition level_keys (lvl_of : nat -> nat) (l : nat) (c : cmap) : list Z :=
  flat_map (fun pk => if Nat.eqb (lvl_of (fst pk)) l then snd pk else []) c.

(* LevelLimit (after the D6 repair): best first in the problem's direction; when the level would overflow, the
   candidate at index (limit - active below) is the cut, and only candidates STRICTLY better than it stay *)
Definition level_cut (mx : bool) (L active_below : nat) (ks : list Z) : option Z :=
  if (L <? active_below + length ks)%nat
  then Some (nth (L - active_below) (sort_good (map (good mx) ks)) 0%Z)
  else None.
Definition keep_under (mx : bool) (cut : option Z) (k : Z) : bool :=
  match cut with None => true | Some c => (good mx k <? c)%Z end.
Definition level_limit (mx : bool) (L : nat) (lvl_of : nat -> nat) (active_at : nat -> nat) (c : cmap) : cmap :=
  map (fun pk => let l := lvl_of (fst pk) in
                 (fst pk, filter (keep_under mx (level_cut mx L (active_at (S l)) (level_keys lvl_of l c))) (snd pk))) c.

(* DemeLimit: more than `limit` candidates => the `limit` best, best first (python's sort is stable; on keys only the
   multiset matters) *)
Definition un_good (mx : bool) (g : Z) : Z := if mx then (- g)%Z else g.
Definition deme_limit (mx : bool) (limit : nat) (ks : list Z) : list Z :=
  if (limit <? length ks)%nat then map (un_good mx) (firstn limit (sort_good (map (good mx) ks))) else ks.

(* a removing filter whose verdicts come from outside (FarEnough, NBC_FarEnough, SkipSameSprout): keep where the mask says *)
Fixpoint mask_keys (ks : list Z) (m : list bool) : list Z :=
  match ks, m with
  | k :: ks', b :: m' => if b then k :: mask_keys ks' m' else mask_keys ks' m'
  | _, _ => []
  end.
Fixpoint mask_cmap (c : cmap) (ms : list (list bool)) : cmap :=
  match c, ms with
  | (p, ks) :: c', m :: ms' => (p, mask_keys ks m) :: mask_cmap c' ms'
  | _, _ => []
  end.
