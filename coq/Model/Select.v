(* Model/Select.v — the comparison-based selection steps of pyhms on fitness keys (fkey of a non-NaN double; Base/Ord.v):
   python's max() over Individuals (best individual queries), Population.topk with numpy's argsort as an ORACLE (any valid
   argsort permutation, so unstable sorts and ties are covered), the tournament of TournamentSelection, SEA's
   select_new_population, the one-to-one replacement of DE / SHADE.  Hand-written, executable; no proofs here. *)
From Coq Require Import ZArith List Bool Arith.
From HV Require Import Ord.
Import ListNotations.

(* max(individuals): first element no other element is strictly better than (python keeps the first maximum) *)
Definition best_step (mx : bool) (acc k : Z) : Z := if better mx k acc then k else acc.
Definition best_of (mx : bool) (ks : list Z) : option Z :=
  match ks with [] => None | k :: r => Some (fold_left (best_step mx) r k) end.

(* Population.topk(k): order = np.argsort(fitnesses) (ascending raw fitness, any tie order);
   minimise: order[:k]      maximise: order[max(size - k, 0):] *)
Definition topk_idx (mx : bool) (k n : nat) (order : list nat) : list nat :=
  if mx then skipn (n - k) order else firstn k order.
Definition at_ (fs : list Z) (i : nat) : Z := nth i fs 0%Z.
Definition topk (mx : bool) (k : nat) (fs : list Z) (order : list nat) : list Z :=
  map (at_ fs) (topk_idx mx k (length fs) order).

(* TournamentSelection with tournament_size 2: np.argmin / np.argmax return the FIRST extremum *)
Definition tournament_pick (mx : bool) (a b : Z) : nat := if better mx b a then 1 else 0.

(* BaseSEA.select_new_population: offspring.merge(parents.topk(k_elites)).topk(len(parents)) *)
Definition sea_select (mx : bool) (k_elites : nat) (parents offspring : list Z) (order1 order2 : list nat) : list Z :=
  topk mx (length parents) (offspring ++ topk mx k_elites parents order1) order2.

(* DE.run / SHADE.run: mask = trial >= parent (maximise) | trial <= parent (minimise);
   result = trial[mask] ++ parent[~mask] *)
Definition de_take (mx : bool) (t p : Z) : bool := if mx then (p <=? t)%Z else (t <=? p)%Z.
Fixpoint de_mask (mx : bool) (ts ps : list Z) : list bool :=
  match ts, ps with t :: ts', p :: ps' => de_take mx t p :: de_mask mx ts' ps' | _, _ => [] end.
Fixpoint pick {A} (m : list bool) (l : list A) : list A :=
  match m, l with b :: m', x :: l' => if b then x :: pick m' l' else pick m' l' | _, _ => [] end.
Definition de_select (mx : bool) (ts ps : list Z) : list Z :=
  pick (de_mask mx ts ps) ts ++ pick (map negb (de_mask mx ts ps)) ps.
(* the survivor of every (trial, parent) pair, in index order *)
Fixpoint de_winners (mx : bool) (ts ps : list Z) : list Z :=
  match ts, ps with t :: ts', p :: ps' => (if de_take mx t p then t else p) :: de_winners mx ts' ps' | _, _ => [] end.

(* SHADE's p-best ranking: argsort(f) when minimising, argsort(-f) when maximising, then the first max(2, round(p n)) *)
Definition pbest_idx (m : nat) (order : list nat) : list nat := firstn m order.

(* mirror image of a list of fitness keys: the (-f, minimise) formulation of (f, maximise) *)
Definition neg (ks : list Z) : list Z := map Z.opp ks.

(* MWEA's MultiwinnerRepeatedSelection: size // k + 1 elections of k winners each, merged, then topk(size) when there are too many *)
Definition mwea_elections (size k : nat) : nat := size / k + 1.
Definition mwea_size (size k : nat) : nat := let total := mwea_elections size k * k in if size <? total then size else total.
