(* Model/TreeCheck.v — executable replay of a recorded event sequence, printing what the harness compares with abs(tree). *)
From Coq Require Import List Bool Arith ZArith.
From HV Require Import Ord Sprout Tree.
Import ListNotations.

Definition zb (b : bool) : Z := if b then 1%Z else 0%Z.
Definition zn (n : nat) : Z := Z.of_nat n.
Definition quick_digest (s : st) : list Z :=
  [zn (mcount s); zn (length (demes s)); zn (total_evals (demes s)); zn (count d_active (demes s))].
Definition full_digest (s : st) : list Z :=
  zn (mcount s) :: flat_map (fun d => [zn (d_lvl d); match d_par d with Some p => zn (S p) | None => 0%Z end; zn (d_started d);
                                       zb (d_active d); zb (d_hib d); zn (d_meta d); zn (d_evals d)]) (demes s)
  ++ (-4)%Z :: map (fun i => zn (last (did (demes s) i) 0)) (seq 0 (length (demes s))).
Definition is_gsc (e : event) : bool := match e with EGsc _ => true | _ => false end.
Definition at_boundary (s : st) : bool := match pc s with PMain => true | _ => false end.

(* output: for every EGsc event, the state it was consulted in (-1 :: quick, or -2 :: full at metaepoch boundaries);
   finally -3 :: accepted-count :: full digest of the last state *)
Fixpoint replay (c : cfg) (s : st) (evs : list event) (i : nat) : list Z :=
  match evs with
  | [] => (-3)%Z :: zn i :: full_digest s
  | e :: r =>
      let pre := if is_gsc e then (if at_boundary s then (-2)%Z :: full_digest s else (-1)%Z :: quick_digest s) else [] in
      match step c s e with
      | Some s' => pre ++ replay c s' r (S i)
      | None => pre ++ (-3)%Z :: zn i :: full_digest s
      end
  end.
