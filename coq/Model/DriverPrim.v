(* Model/DriverPrim.v — the target language of the DRIVER translator (hv/translate/driver_py.py).
   pyhms/tree.py (run, run_step, run_metaepoch, run_sprout, _do_sprout) and the run_metaepoch methods of the seven deme
   classes are translated, on every check, into programs of the monad D below: a state monad over the machine state of
   Model/Tree.v that READS the event stream (what the engines, stop conditions and the sprouting mechanism answered).
   Every primitive is ONE atomic effect of the python code (one consult of a stop condition, one engine iteration, one
   history append, one flag assignment ...), so the ORDER and the CONDITIONS under which the effects happen are those of
   the translated source, not of the hand-written machine.  Proofs/DriverFacts.v shows that whatever such a program does
   is a run the small-step machine accepts, so every theorem about all accepted runs holds of the translated code.
   Hand-written and executable; no proofs in this file. *)
From Coq Require Import List Bool Arith ZArith.
From HV Require Import Ord Sprout Tree.
Import ListNotations.

(* the driver state: the machine state (its pc is not used: always PMain) + the evaluation counts of the child constructors
   of the sprouting round in progress, handed out one per init_from_config call *)
Record dst := { ms : st; pend : list nat }.
Definition D (A : Type) := dst -> list event -> option (A * dst * list event).
Definition ret {A} (a : A) : D A := fun s evs => Some (a, s, evs).
Definition bind {A B} (m : D A) (f : A -> D B) : D B :=
  fun s evs => match m s evs with Some (a, s', evs') => f a s' evs' | None => None end.
Definition fail {A} : D A := fun _ _ => None.
Notation "x <- m ;; k" := (bind m (fun x => k)) (at level 61, m at next level, right associativity).
Notation "m ;;; k" := (bind m (fun _ => k)) (at level 61, right associativity).

Definition with_ms (s : dst) (m : st) : dst := {| ms := m; pend := pend s |}.
Definition get_st : D st := fun s evs => Some (ms s, s, evs).
Definition put_demes (ds : list deme) : D unit := fun s evs => Some (tt, with_ms s (set_demes (ms s) ds), evs).

(* ---------------------------------------------------------------- control *)
(* python `while cond: body` with loop-carried locals L; the body says whether it executed `return` *)
Fixpoint while_ {L} (fuel : nat) (cond : L -> D bool) (body : L -> D (L * bool)) (l : L) : D (L * bool) :=
  match fuel with
  | O => fail
  | S f => b <- cond l ;; if b then r <- body l ;; (if snd r then ret r else while_ f cond body (fst r)) else ret (l, false)
  end.
(* python `for x in xs: body`; the body says whether it executed `return` (a `continue` is just the end of the body) *)
Fixpoint for_ {X} (xs : list X) (body : X -> D bool) : D bool :=
  match xs with
  | [] => ret false
  | x :: r => b <- body x ;; if b then ret true else for_ r body
  end.
(* `for x in xs:` in a function that returns a value: the body says what it returned, if it did *)
Fixpoint forv_ {X R} (xs : list X) (body : X -> D (option R)) : D (option R) :=
  match xs with
  | [] => ret None
  | x :: r => b <- body x ;; match b with Some v => ret (Some v) | None => forv_ r body end
  end.
(* `for x in xs:` with loop-carried locals L (an accumulator) and no return inside *)
Fixpoint forl_ {X L} (xs : list X) (body : L -> X -> D L) (l : L) : D L :=
  match xs with
  | [] => ret l
  | x :: r => l' <- body l x ;; forl_ r body l'
  end.
(* the value a python function returned (falling off the end of a function whose value is used is not modelled) *)
Definition returned {R} (m : D (option R)) : D R := r <- m ;; match r with Some v => ret v | None => fail end.
(* short-circuit `a or b` / `a and b` on effectful operands *)
Definition or_ (a b : D bool) : D bool := x <- a ;; if x then ret true else b.
Definition and_ (a b : D bool) : D bool := x <- a ;; if x then b else ret false.

(* ---------------------------------------------------------------- reads (pure python attribute / property reads) *)
Definition deme_of (s : dst) (d : nat) : deme := dnth d (demes (ms s)).
Definition r_level (d : nat) : D nat := fun s evs => Some (d_lvl (deme_of s d), s, evs).
Definition r_hibernating (d : nat) : D bool := fun s evs => Some (d_hib (deme_of s d), s, evs).
Definition r_generations (c : cfg) (d : nat) : D nat := fun s evs => Some (gens_of c (d_lvl (deme_of s d)), s, evs).
Definition r_metaepoch_count : D nat := fun s evs => Some (mcount (ms s), s, evs).
Definition r_height (c : cfg) : D nat := ret (height c).
(* tree.levels[l]: the demes of level l in creation order, as indices into the creation-ordered list *)
Definition level_ids (ds : list deme) (l : nat) : list nat := ids (fun d => Nat.eqb (d_lvl d) l) ds.
Definition r_levels (l : nat) : D (list nat) := fun s evs => Some (level_ids (demes (ms s)) l, s, evs).
Definition r_is_active (d : nat) : D bool := fun s evs => Some (d_active (deme_of s d), s, evs).
(* deme.children: the demes whose parent link (add_child) names d, in creation order *)
Definition child_ids (ds : list deme) (d : nat) : list nat := ids (fun x => match d_par x with Some p => Nat.eqb p d | None => false end) ds.

(* ---------------------------------------------------------------- effects of the deme loops *)
(* tree._gsc(tree): the next event must be a consult of the global stop condition whose verdict the configured condition
   can give in this state; ghost: remember that it was seen true *)
Definition p_gsc (c : cfg) : D bool := fun s evs =>
  match evs with
  | EGsc v :: r =>
      let m := ms s in
      if negb (consistent (gsc_eval (gsc c) (height c) m) v) || (seen m && negb v) then None
      else Some (v, with_ms s (with_state m (mcount m) (demes m) (pc m) (seen m || v) (steps m) (clock m) (born_after_seen m) (last_round m)), r)
  | _ => None
  end.
(* self._lsc(self) *)
Definition p_lsc (c : cfg) (d : nat) : D bool := fun s evs =>
  match evs with
  | ELsc v :: r =>
      if negb (consistent (lsc_eval (lsc_of c (d_lvl (deme_of s d))) d (demes (ms s))) v) then None else Some (v, s, r)
  | _ => None
  end.
(* self._cma_es.stop() *)
Definition p_cma_stop : D bool := fun s evs => match evs with ECma v :: r => Some (v, s, r) | _ => None end.
(* one engine iteration (self._ea.run / self._de.run / self._shade.run / tell-ask-evaluate / sample-evaluate): the deme's
   counting wrapper counts its n evaluations *)
Definition p_engine_iter (d : nat) : D unit := fun s evs =>
  match evs with
  | EGen n :: r =>
      let m := ms s in
      Some (tt, with_ms s (with_state m (mcount m) (upd d (add_evals n (b2n (seen m))) (demes m)) (pc m) (seen m) (steps m) (clock m + n)
                                      (born_after_seen m) (last_round m)), r)
  | _ => None
  end.
(* result = scipy.optimize.minimize(...): the evaluations happen (clock); result.nfev is returned *)
Definition p_local_search : D nat := fun s evs =>
  match evs with
  | ELocal n :: r =>
      let m := ms s in
      Some (n, with_ms s (with_state m (mcount m) (demes m) (pc m) (seen m) (steps m) (clock m + n) (born_after_seen m) (last_round m)), r)
  | _ => None
  end.
(* self._n_evals += n  (LocalDeme counts for itself) *)
Definition p_count_evals (d n : nat) : D unit := fun s evs =>
  let m := ms s in Some (tt, with_ms s (set_demes m (upd d (add_evals n (b2n (seen m))) (demes m))), evs).
(* self._history.append(...) *)
Definition p_append_meta (d : nat) : D unit := fun s evs => Some (tt, with_ms s (set_demes (ms s) (upd d append_meta (demes (ms s)))), evs).
(* self._active = False *)
Definition p_deactivate (d : nat) : D unit := fun s evs => Some (tt, with_ms s (set_demes (ms s) (upd d deactivate (demes (ms s)))), evs).
(* deme._hibernating = b *)
Definition p_set_hibernating (d : nat) (b : bool) : D unit := fun s evs => Some (tt, with_ms s (set_demes (ms s) (upd d (set_hib b) (demes (ms s)))), evs).

(* ---------------------------------------------------------------- effects of tree.py *)
(* self.metaepoch_count += 1; ghost: one more step, every deme notes whether it is due in this metaepoch *)
Definition p_inc_metaepoch (c : cfg) : D unit := fun s evs =>
  let m := ms s in
  Some (tt, with_ms s (with_state m (S (mcount m)) (map (mark_step (hib_on c)) (demes m)) (pc m) (seen m) (S (steps m)) (clock m) (born_after_seen m) (last_round m)), evs).

(* self._sprout_mechanism.get_seeds(self): the next event carries the candidates entering the tree-level chain, the verdicts of
   the removing filters after LevelLimit and what the child constructors will spend; LevelLimit is computed here.  Returns the dict
   the mechanism returns: parents with a non-empty list of seeds, in dict order.  Ghost: clock, born_after_seen, last_round. *)
Definition nonempty (seeds : cmap) : cmap := filter (fun pk => negb (Nat.eqb (length (snd pk)) 0)) seeds.
Definition p_get_seeds (c : cfg) : D cmap := fun s evs =>
  match evs with
  | ESprout cands post inits :: r =>
      let m := ms s in
      let ds := demes m in
      let lvl_of := fun i => d_lvl (dnth i ds) in
      let c1 := match level_lim c with Some L => level_limit (maximize c) L lvl_of (active_at ds) cands | None => cands end in
      let seeds := mask_cmap c1 post in
      if negb (seeds_valid c ds cands) || negb (Nat.eqb (length post) (length cands)) || negb (Nat.eqb (length inits) (total_seeds seeds)) then None else
      let parts := ids (fun d => d_active d && (S (d_lvl d) <? height c)) ds in
      Some (nonempty seeds,
            {| ms := with_state m (mcount m) ds (pc m) (seen m) (steps m) (clock m + fold_right Nat.add 0 inits)
                                (born_after_seen m + (if seen m then total_seeds seeds else 0)) (parts, map fst (nonempty seeds));
               pend := inits |}, r)
  | _ => None
  end.
(* `deme in deme_seeds` *)
Definition in_seeds (seeds : cmap) (d : nat) : bool := existsb (fun pk => Nat.eqb (fst pk) d) seeds.

(* child = init_from_config(config=self.config.levels[cfg_level], target_level=lvl, metaepoch_count=started, ...): the constructor
   evaluates its initial population; the new deme is not yet part of the tree and nobody's child.  The level whose configuration it
   is built from must be the level it is put on (its engine is the one configured for its level). *)
Definition p_init_from_config (cfg_level lvl started : nat) : D deme := fun s evs =>
  if negb (Nat.eqb cfg_level lvl) then None else
  match pend s with
  | n :: rest => Some ({| d_lvl := lvl; d_par := None; d_started := started; d_active := true; d_hib := false; d_meta := 0; d_evals := n;
                         d_meta0 := 0; d_should := false; d_after := 0; d_hibmark := (0, 0) |}, {| ms := ms s; pend := rest |}, evs)
  | [] => None
  end.
(* parent.add_child(child): the only link between a deme and its parent *)
Definition add_child (p : nat) (ch : deme) : deme :=
  set_d ch (d_lvl ch) (Some p) (d_started ch) (d_active ch) (d_hib ch) (d_meta ch) (d_evals ch) (d_meta0 ch) (d_should ch) (d_after ch) (d_hibmark ch).
(* self._levels[l].append(child): the child joins the tree, on level l *)
Definition p_append_level (l : nat) (ch : deme) : D unit := fun s evs =>
  if negb (Nat.eqb l (d_lvl ch)) then None else Some (tt, with_ms s (set_demes (ms s) (demes (ms s) ++ [ch])), evs).

(* parent.add_child(child) for a child that already joined its level (the two statements commute in python: one object): the parent link is set
   on the deme that was appended last *)
Definition p_adopt_last (p : nat) : D unit := fun s evs =>
  let ds := demes (ms s) in Some (tt, with_ms s (set_demes (ms s) (upd (length ds - 1) (add_child p) ds)), evs).

(* running a program from a machine state *)
Definition exec {A} (m : D A) (s : st) (evs : list event) : option (A * st * list event) :=
  match m {| ms := s; pend := [] |} evs with Some (a, s', r) => Some (a, ms s', r) | None => None end.
