(* Model/BoundsZ.v — what the three repair methods PRESCRIBE, in exact arithmetic (integers; rationals reduce to this by scaling with
   a common denominator): the same formulas as apply_bounds with floor division and floored modulus (numpy semantics for a
   positive range), without rounding.  Executable; no proofs here. *)
From Coq Require Import ZArith Bool.
Local Open Scope Z_scope.

Definition insideZ (x lo hi : Z) : bool := (lo <=? x) && (x <=? hi).
Definition clipZ (x lo hi : Z) : Z := Z.min (Z.max x lo) hi.
Definition reflectZ (x lo hi : Z) : Z :=
  if insideZ x lo hi then x else
  let r := hi - lo in let n := x - lo in
  let flips := n / r in let md := n mod r in
  clipZ (lo + (if Z.eqb (flips mod 2) 1 then r - md else md)) lo hi.
Definition toroidalZ (x lo hi : Z) : Z :=
  if insideZ x lo hi then x else let r := hi - lo in clipZ (lo + (x - lo) mod r) lo hi.
