(* Model/SproutPrim.v — the vocabulary of the FILTER translator (hv/translate/filters_py.py): a candidate dictionary
   {parent deme: DemeCandidates} as an association list on fitness keys, python's dict reads / item assignment on it, and
   best-first sorting of Individuals (sorted(..., reverse=True) / list.sort(reverse=True)).  No proofs in this file. *)
From Coq Require Import ZArith List Bool Arith.
From HV Require Import Ord Sprout.
Import ListNotations.

(* candidates[deme].individuals *)
Definition cm_get (cm : cmap) (d : nat) : list Z :=
  match find (fun pk => Nat.eqb (fst pk) d) cm with Some pk => snd pk | None => [] end.
(* candidates[deme].individuals = ks   (keys of a dict are unique; the order of the dict is kept) *)
Definition cm_set (cm : cmap) (d : nat) (ks : list Z) : cmap :=
  map (fun pk => if Nat.eqb (fst pk) d then (fst pk, ks) else pk) cm.
(* candidates[deme] = DemeCandidates(...) for a deme that is not a key yet: python dicts keep insertion order *)
Definition cm_add (cm : cmap) (d : nat) (ks : list Z) : cmap := cm ++ [(d, ks)].
(* candidates.keys() *)
Definition cm_keys (cm : cmap) : list nat := map fst cm.
(* sorted(individuals, reverse=True): best first in the problem's direction *)
Definition sort_best_first (mx : bool) (ks : list Z) : list Z := map (un_good mx) (sort_good (map (good mx) ks)).
(* a > b on Individuals (functools.total_ordering over __lt__ = worse_than and __eq__ = same fitness): strictly better *)
Definition ind_gt (mx : bool) (a b : Z) : bool := better mx a b.
