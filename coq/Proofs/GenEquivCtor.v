(* Proofs/GenEquivCtor.v — the constructors TRANSLATED from the current sources (Gen/GenCtor.v: AbstractDeme.__init__, the seven deme
   classes, Individual's methods, init_from_config, DemeTree.__init__) build exactly the deme the machine assumes a sprout / the initial
   step creates (Model/DriverPrim.p_init_from_config, Model/Tree.init): on the requested level, started at the requested metaepoch,
   active, awake, childless, nobody's child yet, zero metaepochs run (the history holds exactly the start population), its evaluation
   count = the number of individuals of the start population (each evaluated exactly once, by the deme's own counting problem); every
   stored individual carries a fitness; a sprouted engine deme's start population contains a new individual with the seed's genome;
   a local deme's start population is the parent's seed individual itself and costs no evaluation. *)
From Coq Require Import List Bool Arith Lia.
From HV Require Import Ord Sprout Tree DriverPrim Ctor GenCtor.
Import ListNotations.

(* ---------------------------------------------------------------- Individual *)
Definition ev (i : sind) : sind := if s_fit i then i else with_fitness i.
Definition cost (i : sind) : nat := if s_fit i then 0 else b2n (s_own i).
Lemma gen_evaluate_spec i : gen_evaluate i = (ev i, cost i).
Proof. unfold gen_evaluate, ev, cost. destruct (s_fit i); reflexivity. Qed.
Lemma gen_evaluate_population_spec p : gen_evaluate_population p = (map ev p, list_sum (map cost p)).
Proof.
  unfold gen_evaluate_population.
  assert (G : forall acc n, fold_left (fun acc i => let r := gen_evaluate i in (fst acc ++ [fst r], snd acc + snd r)) p (acc, n) = (acc ++ map ev p, n + list_sum (map cost p))).
  { induction p as [|i p IH]; intros acc n; [cbn; now rewrite app_nil_r, Nat.add_0_r|].
    cbn [fold_left map]. rewrite gen_evaluate_spec. cbn [fst snd]. rewrite IH, <- app_assoc. cbn [app].
    change (list_sum (cost i :: map cost p)) with (cost i + list_sum (map cost p)). f_equal. lia. }
  now rewrite G.
Qed.
(* evaluation never recomputes a fitness that is there, and leaves everybody with one *)
Lemma ev_fit p : forallb s_fit (map ev p) = true.
Proof. induction p as [|i p IH]; cbn; [reflexivity|]. rewrite IH, andb_true_r. unfold ev. destruct (s_fit i) eqn:E; [exact E|reflexivity]. Qed.

Definition fresh (org : origin) : sind := {| s_org := org; s_fit := false; s_own := true |}.
Definition done_ (org : origin) : sind := {| s_org := org; s_fit := true; s_own := true |}.
Lemma ev_fresh l : map ev (map fresh l) = map done_ l.
Proof. induction l as [|x l IH]; cbn; [reflexivity|now rewrite IH]. Qed.
Lemma cost_fresh l : list_sum (map cost (map fresh l)) = length l.
Proof. induction l as [|x l IH]; simpl in *; [reflexivity|]. f_equal. exact IH. Qed.
Lemma create_population_fresh n org : gen_create_population n org true = map fresh (map org (seq 0 n)).
Proof. unfold gen_create_population. now rewrite map_map. Qed.

(* ---------------------------------------------------------------- AbstractDeme.__init__ *)
Definition cbase (lvl started : nat) : cobj :=
  {| c_level := Some lvl; c_started := Some started; c_active := Some true; c_hib := Some false; c_hist := Some []; c_children := Some 0;
     c_own_problem := true; c_counted := 0; c_local_evals := None |}.
Theorem AbstractDeme_init_ok lvl started seed : gen_AbstractDeme_init (gen_init_args lvl started seed) = cbase lvl started.
Proof. reflexivity. Qed.

(* what a finished constructor must have produced *)
Definition ctor_ok (lvl started : nat) (local : bool) (o : cobj) (pop : list sind) : Prop :=
  built o local = Some (fresh_deme lvl started (if local then 0 else length pop)) /\ start_population o = Some pop /\ forallb s_fit pop = true.

Ltac ctor_start := intros; unfold ctor_ok; cbv beta delta [gen_EADeme_init gen_DEDeme_init gen_SHADEDeme_init gen_CMADeme_init gen_LocalDeme_init gen_LHSDeme_init gen_SobolDeme_init];
  rewrite ?AbstractDeme_init_ok; cbv zeta; cbn [a_seed gen_init_args c_own_problem cbase].
Ltac ctor_finish := rewrite ?gen_evaluate_population_spec; cbn [fst snd];
  unfold append_history, count_evals, set_local_evals, built, start_population, fresh_deme, cbase;
  cbn [c_level c_started c_active c_hib c_hist c_children c_own_problem c_counted c_local_evals set_history app length Nat.sub].

(* the three population engines: pop_size individuals; with a seed: pop_size - 1 drawn around it plus a new individual holding the seed's genome *)
Definition engine_pop (seed : bool) (pop_size : nat) : list sind :=
  if seed then map done_ (map ONormal (seq 0 (pop_size - 1))) ++ [done_ OSeedGenome] else map done_ (map OUniform (seq 0 pop_size)).
Lemma engine_pop_length seed n : 1 <= n -> length (engine_pop seed n) = n.
Proof. intros H. unfold engine_pop. destruct seed; rewrite ?app_length, !map_length, seq_length; cbn; lia. Qed.
Lemma done_fit l : forallb s_fit (map done_ l) = true.
Proof. induction l; cbn; auto. Qed.
Lemma engine_pop_fit seed n : forallb s_fit (engine_pop seed n) = true.
Proof. unfold engine_pop. destruct seed; rewrite ?forallb_app, !done_fit; reflexivity. Qed.
Lemma engine_ctor (mk : nat -> iargs -> cobj) :
  (forall pop_size a, mk pop_size a =
     let o1 := gen_AbstractDeme_init a in
     if a_seed a then
       (let r := gen_evaluate_population (gen_create_population (pop_size - 1) ONormal (c_own_problem o1) ++ [gen_Individual_new OSeedGenome (c_own_problem o1)]) in
        append_history (count_evals o1 (snd r)) [fst r])
     else (let r := gen_evaluate_population (gen_create_population pop_size OUniform (c_own_problem o1)) in append_history (count_evals o1 (snd r)) [fst r])) ->
  forall lvl started seed pop_size, 1 <= pop_size -> ctor_ok lvl started false (mk pop_size (gen_init_args lvl started seed)) (engine_pop seed pop_size).
Proof.
  intros Hmk lvl started seed n Hn. unfold ctor_ok. rewrite Hmk, AbstractDeme_init_ok. cbv zeta. cbn [a_seed gen_init_args c_own_problem cbase].
  rewrite engine_pop_length by exact Hn. split; [|split; [|apply engine_pop_fit]].
  - destruct seed; rewrite gen_evaluate_population_spec, create_population_fresh; cbn [fst snd].
    + change (gen_Individual_new OSeedGenome true) with (fresh OSeedGenome). rewrite map_app, list_sum_app. cbn [map list_sum]. rewrite cost_fresh, !map_length, seq_length.
      unfold append_history, count_evals, built, fresh_deme, cbase. cbn [c_level c_started c_active c_hib c_hist c_children c_own_problem c_counted c_local_evals set_history app length Nat.sub].
      repeat f_equal. cbn. lia.
    + rewrite cost_fresh, !map_length, seq_length.
      unfold append_history, count_evals, built, fresh_deme, cbase. now cbn [c_level c_started c_active c_hib c_hist c_children c_own_problem c_counted c_local_evals set_history app length Nat.sub].
  - destruct seed; rewrite gen_evaluate_population_spec, create_population_fresh; cbn [fst snd].
    + change (gen_Individual_new OSeedGenome true) with (fresh OSeedGenome). rewrite !map_app, ev_fresh. reflexivity.
    + rewrite ev_fresh. reflexivity.
Qed.
Theorem EADeme_ctor_ok lvl started seed pop_size : 1 <= pop_size -> ctor_ok lvl started false (gen_EADeme_init pop_size (gen_init_args lvl started seed)) (engine_pop seed pop_size).
Proof. apply (engine_ctor gen_EADeme_init). intros ps [l st [|]]; reflexivity. Qed.
Theorem DEDeme_ctor_ok lvl started seed pop_size : 1 <= pop_size -> ctor_ok lvl started false (gen_DEDeme_init pop_size (gen_init_args lvl started seed)) (engine_pop seed pop_size).
Proof. apply (engine_ctor gen_DEDeme_init). intros ps [l st [|]]; reflexivity. Qed.
Theorem SHADEDeme_ctor_ok lvl started seed pop_size : 1 <= pop_size -> ctor_ok lvl started false (gen_SHADEDeme_init pop_size (gen_init_args lvl started seed)) (engine_pop seed pop_size).
Proof. apply (engine_ctor gen_SHADEDeme_init). intros ps [l st [|]]; reflexivity. Qed.
(* a sprouted engine deme starts from a population that contains the seed's genome, evaluated by the deme itself *)
Theorem engine_pop_has_seed pop_size : In (done_ OSeedGenome) (engine_pop true pop_size).
Proof. unfold engine_pop. apply in_or_app. right. now left. Qed.

(* CMA-ES, LHS, Sobol: every row of ask() / of the scaled sample, each evaluated once *)
Lemma rows_ctor (mk : nat -> iargs -> cobj) (org : nat -> origin) :
  (forall n a, mk n a = let o1 := gen_AbstractDeme_init a in
                        let r := gen_evaluate_population (map (fun k => gen_Individual_new (org k) (c_own_problem o1)) (seq 0 n)) in append_history (count_evals o1 (snd r)) [fst r]) ->
  forall lvl started seed n, ctor_ok lvl started false (mk n (gen_init_args lvl started seed)) (map done_ (map org (seq 0 n))).
Proof.
  intros Hmk lvl started seed n. unfold ctor_ok. rewrite Hmk, AbstractDeme_init_ok. cbv zeta. cbn [c_own_problem cbase].
  change (map (fun k => gen_Individual_new (org k) true) (seq 0 n)) with (gen_create_population n org true).
  rewrite gen_evaluate_population_spec, create_population_fresh, cost_fresh, ev_fresh. cbn [fst snd]. rewrite !map_length, seq_length.
  split; [|split; [reflexivity|apply done_fit]].
  unfold append_history, count_evals, built, fresh_deme, cbase. now cbn [c_level c_started c_active c_hib c_hist c_children c_own_problem c_counted c_local_evals set_history app length Nat.sub].
Qed.
Theorem CMADeme_ctor_ok lvl started seed lam : ctor_ok lvl started false (gen_CMADeme_init lam (gen_init_args lvl started seed)) (map done_ (map OAsk (seq 0 lam))).
Proof. apply (rows_ctor gen_CMADeme_init OAsk). reflexivity. Qed.
Theorem LHSDeme_ctor_ok lvl started seed pop_size : ctor_ok lvl started false (gen_LHSDeme_init pop_size (gen_init_args lvl started seed)) (map done_ (map OScaled (seq 0 pop_size))).
Proof. apply (rows_ctor gen_LHSDeme_init OScaled). reflexivity. Qed.
Theorem SobolDeme_ctor_ok lvl started seed pop_size : ctor_ok lvl started false (gen_SobolDeme_init pop_size (gen_init_args lvl started seed)) (map done_ (map OScaled (seq 0 pop_size))).
Proof. apply (rows_ctor gen_SobolDeme_init OScaled). reflexivity. Qed.

(* the local deme: its start population is the parent's seed individual itself; the constructor evaluates nothing *)
Theorem LocalDeme_ctor_ok lvl started seed :
  ctor_ok lvl started true (gen_LocalDeme_init (gen_init_args lvl started seed)) [{| s_org := OSeedObject; s_fit := true; s_own := false |}].
Proof. unfold ctor_ok. repeat split. Qed.

(* ---------------------------------------------------------------- the tie to the machine *)
(* p_init_from_config hands out exactly fresh_deme, with the evaluations the constructor spent *)
Theorem p_init_is_new_deme cfg_level lvl started s evs :
  p_init_from_config cfg_level lvl started s evs =
  if negb (Nat.eqb cfg_level lvl) then None else
  match pend s with n :: rest => Some (fresh_deme lvl started n, {| ms := ms s; pend := rest |}, evs) | [] => None end.
Proof. reflexivity. Qed.
(* DemeTree.__init__: metaepoch 0, one deme, built on level 0 from level 0's configuration without a seed *)
Theorem tree_init_is_init n :
  init n = {| mcount := gen_tree_init_mcount; demes := [fresh_deme gen_tree_root_level (a_started gen_tree_root_args) n]; pc := PMain; seen := false; steps := 0; clock := n;
              born_after_seen := 0; last_round := ([], []) |}
  /\ a_level gen_tree_root_args = gen_tree_root_level /\ a_seed gen_tree_root_args = false.
Proof. repeat split. Qed.
