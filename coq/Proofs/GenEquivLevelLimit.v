(* Proofs/GenEquivLevelLimit.v — LevelLimit TRANSLATED from the current pyhms/sprout/sprout_filters.py (Gen/GenLevelLimit.v) = the model level_limit *)
From Coq Require Import List Bool Arith ZArith Lia Permutation.
From HV Require Import Ord ListX Sprout SproutFacts FilterFacts Tree TreeLemmas DriverPrim SproutPrim DriverFacts GenEquivDriver GenEquivStops FilterDict.
Import ListNotations.

From HV Require Import GenLevelLimit.

(* ---------------------------------------------------------------- LevelLimit *)
(* what one pass of LevelLimit's loop over the levels computes *)
Definition ll_step (mx : bool) (L : nat) (ds : list deme) (cm : cmap) (l : nat) : cmap :=
  let level_demes := filter (fun d => Nat.eqb (lvl_at ds d) l) (cm_keys cm) in
  let lc := sort_best_first mx (flat_map (fun d => cm_get cm d) level_demes) in
  let act := length (filter (fun d => d_active (dnth d ds)) (level_ids ds (l + 1))) in
  if L <? act + length lc
  then fold_left (fun acc d => cm_set acc d (filter (fun k => ind_gt mx k (nth (L - act) lc 0%Z)) (cm_get acc d))) level_demes cm
  else cm.

Lemma ll_body1 c fuel L cm l s evs :
  gen_LevelLimit_forl1 c fuel L cm l s evs = Some (ll_step (maximize c) L (demes (ms s)) cm l, s, evs).
Proof.
  unfold gen_LevelLimit_forl1, ll_step, lvl_at. dunf.
  rewrite <- ?Nat.ltb_antisym.      (* `a + b > L`, `L < a + b` or `not (a + b <= L)` *)
  destruct (L <? _); [|reflexivity].
  rewrite (forl_fold (fun acc d => cm_set acc d (filter (fun k => ind_gt (maximize c) k (nth (L - length (filter (fun d0 => d_active (dnth d0 (demes (ms s)))) (level_ids (demes (ms s)) (l + 1))))
            (sort_best_first (maximize c) (flat_map (fun d0 => cm_get cm d0) (filter (fun d0 => Nat.eqb (d_lvl (dnth d0 (demes (ms s)))) l) (cm_keys cm)))) 0%Z)) (cm_get acc d)))).
  - reflexivity.
  - intros acc d s0 e0. unfold gen_LevelLimit_forl2. dunf. reflexivity.
Qed.

Lemma level_keys_via_get lvl l cm : NoDup (cm_keys cm) ->
  flat_map (fun d => cm_get cm d) (filter (fun d => Nat.eqb (lvl d) l) (cm_keys cm)) = level_keys lvl l cm.
Proof.
  intros N. unfold level_keys, cm_keys.
  assert (G : forall sub, incl sub cm ->
    flat_map (fun d => cm_get cm d) (filter (fun d => Nat.eqb (lvl d) l) (map fst sub)) = flat_map (fun pk => if Nat.eqb (lvl (fst pk)) l then snd pk else []) sub).
  { induction sub as [|pk r IH]; intros I; [reflexivity|]. cbn [map filter flat_map].
    destruct (Nat.eqb (lvl (fst pk)) l); cbn [flat_map]; [rewrite (cm_get_in cm pk N (I pk (or_introl eq_refl)))|]; (rewrite IH; [reflexivity|intros x Hx; apply I; now right]). }
  apply G, incl_refl.
Qed.
Lemma active_below_eq ds l :
  length (filter (fun d => d_active (dnth d ds)) (level_ids ds (l + 1))) = active_at ds (S l).
Proof.
  unfold level_ids, active_at, count. rewrite Nat.add_1_r, <- ids_and_filter, ids_length. reflexivity.
Qed.
Lemma sort_best_first_length mx ks : length (sort_best_first mx ks) = length ks.
Proof. unfold sort_best_first. now rewrite map_length, sort_good_length, map_length. Qed.
Lemma un_good_zero mx : un_good mx 0%Z = 0%Z. Proof. now destruct mx. Qed.
Lemma nth_sort_best_first mx n ks : nth n (sort_best_first mx ks) 0%Z = un_good mx (nth n (sort_good (map (good mx) ks)) 0%Z).
Proof. unfold sort_best_first. rewrite <- (un_good_zero mx) at 1. apply map_nth. Qed.
Lemma ind_gt_keep mx k g : ind_gt mx k (un_good mx g) = keep_under mx (Some g) k.
Proof. unfold ind_gt, better, keep_under. now rewrite good_un_good. Qed.
Lemma filter_true {A} (l : list A) : filter (fun _ => true) l = l.
Proof. induction l as [|x r IH]; cbn; [reflexivity|now rewrite IH]. Qed.
Lemma memb_filter d p l : memb d (filter p l) = memb d l && p d.
Proof.
  unfold memb. induction l as [|x r IH]; [reflexivity|]. cbn [filter existsb]. destruct (p x) eqn:Px; cbn [existsb]; rewrite IH.
  - destruct (Nat.eqb_spec d x) as [->|_]; cbn [orb andb]; [now rewrite Px|reflexivity].
  - destruct (Nat.eqb_spec d x) as [->|_]; cbn [orb andb]; [rewrite Px; now rewrite andb_false_r|reflexivity].
Qed.

(* one pass = the model's cut applied to the parents of that level only *)
Definition ll_keep (mx : bool) (L : nat) (ds : list deme) (cm0 : cmap) (l : nat) : Z -> bool :=
  keep_under mx (level_cut mx L (active_at ds (S l)) (level_keys (lvl_at ds) l cm0)).
Lemma ll_step_spec mx L ds cm l : NoDup (cm_keys cm) ->
  ll_step mx L ds cm l = map (fun pk => (fst pk, if Nat.eqb (lvl_at ds (fst pk)) l then filter (ll_keep mx L ds cm l) (snd pk) else snd pk)) cm.
Proof.
  intros N. unfold ll_step, ll_keep, level_cut. rewrite (level_keys_via_get (lvl_at ds) l cm N), active_below_eq, sort_best_first_length.
  destruct (L <? active_at ds (S l) + length (level_keys (lvl_at ds) l cm)).
  - rewrite update_keys; [|apply NoDup_filter; exact N|exact N]. apply map_ext_in. intros pk Hpk. f_equal.
    rewrite memb_filter.
    assert (M : memb (fst pk) (cm_keys cm) = true) by (apply existsb_exists; exists (fst pk); split; [now apply in_map|apply Nat.eqb_refl]).
    rewrite M. cbn [andb]. destruct (Nat.eqb (lvl_at ds (fst pk)) l); [|reflexivity].
    apply filter_ext. intros k. rewrite nth_sort_best_first. apply ind_gt_keep.
  - rewrite <- (map_id cm) at 1. apply map_ext. intros [k v]. cbn [fst snd]. destruct (Nat.eqb (lvl_at ds k) l); [|reflexivity].
    cbn [keep_under]. now rewrite filter_true.
Qed.

(* the passes over levels 0 .. n-1 = the model's cut applied to the parents of those levels *)
Definition ll_upto (mx : bool) (L : nat) (ds : list deme) (cm0 : cmap) (n : nat) : cmap :=
  map (fun pk => (fst pk, if lvl_at ds (fst pk) <? n then filter (ll_keep mx L ds cm0 (lvl_at ds (fst pk))) (snd pk) else snd pk)) cm0.
Lemma level_keys_upto mx L ds cm0 n : level_keys (lvl_at ds) n (ll_upto mx L ds cm0 n) = level_keys (lvl_at ds) n cm0.
Proof.
  unfold level_keys, ll_upto. rewrite flat_map_concat_map, map_map, <- flat_map_concat_map. apply flat_map_ext. intros pk. cbn [fst snd].
  destruct (Nat.eqb_spec (lvl_at ds (fst pk)) n) as [->|_]; [|reflexivity]. now rewrite Nat.ltb_irrefl.
Qed.
Lemma ll_passes mx L ds cm0 : NoDup (cm_keys cm0) -> forall n, fold_left (ll_step mx L ds) (seq 0 n) cm0 = ll_upto mx L ds cm0 n.
Proof.
  intros N. induction n as [|n IH].
  - unfold ll_upto. cbn [seq fold_left]. rewrite <- (map_id cm0) at 1. apply map_ext. now intros [].
  - rewrite seq_S, fold_left_app, IH. cbn [fold_left Nat.add].
    rewrite ll_step_spec by (unfold ll_upto, cm_keys in *; rewrite map_map; exact N).
    unfold ll_keep at 1. rewrite level_keys_upto. fold (ll_keep mx L ds cm0 n).
    unfold ll_upto. rewrite map_map. apply map_ext. intros pk. cbn [fst snd]. f_equal.
    destruct (Nat.eqb_spec (lvl_at ds (fst pk)) n) as [E|Ne].
    + rewrite E, Nat.ltb_irrefl. assert (X : n <? S n = true) by (apply Nat.ltb_lt; lia). now rewrite X.
    + destruct (Nat.ltb_spec (lvl_at ds (fst pk)) n) as [Hlt|Hge].
      * assert (X : lvl_at ds (fst pk) <? S n = true) by (apply Nat.ltb_lt; lia). now rewrite X.
      * assert (X : lvl_at ds (fst pk) <? S n = false) by (apply Nat.ltb_ge; lia). now rewrite X.
Qed.

Theorem LevelLimit_ok c fuel L cm s :
  NoDup (cm_keys cm) -> (forall pk, In pk cm -> S (lvl_at (demes (ms s)) (fst pk)) < height c) ->
  answers (gen_LevelLimit c fuel L cm) s (level_limit (maximize c) L (lvl_at (demes (ms s))) (active_at (demes (ms s))) cm).
Proof.
  intros N V evs. unfold gen_LevelLimit, returned. dunf.
  rewrite (forl_pure (fun acc l m => ll_step (maximize c) L (demes m) acc l)) by (intros; apply ll_body1).
  rewrite ?seq_length, (ll_passes (maximize c) L (demes (ms s)) cm N). cbn beta iota. f_equal. f_equal. f_equal.
  unfold ll_upto, level_limit, ll_keep. apply map_ext_in. intros pk Hpk.
  assert (X : lvl_at (demes (ms s)) (fst pk) <? height c - 1 = true) by (apply Nat.ltb_lt; specialize (V pk Hpk); lia).
  now rewrite X.
Qed.

