(* Proofs/GenEquivOrder.v — Individual's ordering, TRANSLATED from the current pyhms/core/individual.py (Gen/GenOrder.v) *)
From Coq Require Import Bool.
(* ---------------------------------------------------------------- Individual's ordering (what `>`, max(), sorted(reverse=True) use) *)
From Coq Require Import ZArith.
From Flocq Require Import BinarySingleNaN.
From HV Require Import F64 WMonad GenProblem GenOrder.
(* a > b, as functools.total_ordering derives it from the translated __lt__ / __eq__, is "a is strictly better than b" on doubles that
   are not NaN: in the problem's direction, never true for equal fitness (whatever the genomes), never true both ways *)
Lemma compare_defined (a b : F) : fis_nan a = false -> fis_nan b = false -> exists c, Bcompare a b = Some c.
Proof.
  unfold fis_nan. destruct a as [sa|sa| |sa ma ea Ha], b as [sb|sb| |sb mb eb Hb]; cbn; intros; try discriminate; eexists; reflexivity.
Qed.
Theorem ind_gt_is_strictly_better mx (a b : F) : fis_nan a = false -> fis_nan b = false ->
  gen_ind_gt mx a b = if mx then flt b a else fgt b a.
Proof.
  intros Na Nb. unfold gen_ind_gt, gen_ind_lt, gen_ind_eq, FunctionProblem_worse_than, Problem_equivalent. rewrite Na, Nb.
  unfold flt, fgt, feq, Bltb, Beqb, SpecFloat.SFltb, SpecFloat.SFeqb.
  change (SpecFloat.SFcompare (B2SF a) (B2SF b)) with (Bcompare a b). change (SpecFloat.SFcompare (B2SF b) (B2SF a)) with (Bcompare b a).
  rewrite (Bcompare_swap _ _ b a). destruct (compare_defined b a Nb Na) as (c & ->). destruct c, mx; reflexivity.
Qed.
Theorem ind_gt_asymmetric mx (a b : F) : fis_nan a = false -> fis_nan b = false -> gen_ind_gt mx a b = true -> gen_ind_gt mx b a = false.
Proof.
  intros Na Nb. rewrite !ind_gt_is_strictly_better by assumption. unfold flt, fgt, Bltb, SpecFloat.SFltb.
  change (SpecFloat.SFcompare (B2SF a) (B2SF b)) with (Bcompare a b). change (SpecFloat.SFcompare (B2SF b) (B2SF a)) with (Bcompare b a).
  rewrite (Bcompare_swap _ _ b a). destruct (compare_defined b a Nb Na) as (c & ->). destruct c, mx; cbn; congruence.
Qed.
