(* Proofs/TreeRun.v — the invariants of TreeInv.v lifted to EVERY state of EVERY accepted event sequence (any length),
   plus the facts about how a run ends (C05) and about what a state's past guarantees for its future (C06, C19). *)
From Coq Require Import List Bool Arith ZArith Lia.
From HV Require Import Ord ListX Sprout Tree TreeLemmas TreeInv.
Import ListNotations.

Definition INV (c : cfg) (s : st) : Prop :=
  PcOK c s /\ CNT s /\ WFT c s /\ LL c s /\ ONCE c s /\ WD s /\ HIB c s.

Lemma PcOK_init c n : PcOK c (init n). Proof. exact I. Qed.
Lemma CNT_init n : CNT (init n). Proof. unfold CNT. simpl. lia. Qed.

Lemma INV_init c n : 1 <= height c -> INV c (init n).
Proof.
  intros H. split; [apply PcOK_init|]. split; [apply CNT_init|]. split; [apply WFT_init; assumption|]. split; [apply LL_init|].
  split; [apply ONCE_init|]. split; [apply WD_init|apply HIB_init].
Qed.

Lemma INV_step c s e s' : INV c s -> step c s e = Some s' -> INV c s'.
Proof.
  intros (P & C & W & L & O & D & Hb) H.
  split; [eapply PcOK_step; eauto|]. split; [eapply CNT_step; eauto|]. split; [eapply WFT_step; eauto|]. split; [eapply LL_step; eauto|].
  split; [eapply ONCE_step; eauto|]. split; [eapply WD_step; eauto|eapply HIB_step; eauto].
Qed.

(* from ANY state satisfying the invariants (not only the initial one): this is what a restored tree relies on (C19) *)
Lemma INV_run c evs : forall s s', INV c s -> run c s evs = Some s' -> INV c s'.
Proof.
  induction evs as [|e r IH]; intros s s' I H; simpl in H; [now injection H as <-|].
  destruct (step c s e) as [s1|] eqn:E; [|discriminate]. eapply IH; [|exact H]. eapply INV_step; eauto.
Qed.

(* every state the run passes through, not only the last one *)
Lemma run_app c evs1 evs2 s : run c s (evs1 ++ evs2) = match run c s evs1 with Some s1 => run c s1 evs2 | None => None end.
Proof. revert s; induction evs1 as [|e r IH]; intros s; simpl; [reflexivity|]. destruct (step c s e); auto. Qed.

Theorem INV_reachable c n evs1 evs2 s_end :
  1 <= height c -> run c (init n) (evs1 ++ evs2) = Some s_end ->
  exists s, run c (init n) evs1 = Some s /\ INV c s.
Proof.
  intros H R. rewrite run_app in R. destruct (run c (init n) evs1) as [s|] eqn:E; [|discriminate].
  exists s. split; [reflexivity|]. eapply INV_run; [apply INV_init; assumption|exact E].
Qed.

(* ---------------------------------------------------------------- C06: stopping is final, over any number of steps *)
Lemma frozen_rel_refl l : frozen_rel l l.
Proof. split; [lia|]. auto. Qed.
Lemma frozen_rel_trans l1 l2 l3 : frozen_rel l1 l2 -> frozen_rel l2 l3 -> frozen_rel l1 l3.
Proof.
  intros (L1 & H1) (L2 & H2). split; [lia|]. intros i Hi Hin. destruct (H1 i Hi Hin) as (A & B & C).
  destruct (H2 i ltac:(lia) A) as (A' & B' & C'). repeat split; congruence.
Qed.
Lemma frozen_run c evs : forall s s', INV c s -> run c s evs = Some s' -> frozen_rel (demes s) (demes s').
Proof.
  induction evs as [|e r IH]; intros s s' I H; simpl in H; [injection H as <-; apply frozen_rel_refl|].
  destruct (step c s e) as [s1|] eqn:E; [|discriminate].
  eapply frozen_rel_trans; [eapply frozen_step; [apply I|exact E] | eapply IH; [eapply INV_step; eauto|exact H]].
Qed.

(* ---------------------------------------------------------------- C05: how a run ends *)
(* PDone is entered only from the main loop's consult, with verdict true; nothing happens after it *)
Lemma done_only_at_boundary c s e s' : step c s e = Some s' -> pc s' = PDone -> pc s = PMain /\ e = EGsc true.
Proof.
  intros H D. step_cases H; try discriminate D; auto.
  all: try (rewrite begin_deme_pc in D; match type of D with match ?t with _ => _ end = _ => destruct t; discriminate D end).
  all: try (cbn in D; match type of D with (if ?v then _ else _) = _ => destruct v; discriminate D end).
Qed.
Lemma done_is_final c s e : pc s = PDone -> step c s e = None.
Proof. intros D. unfold step. rewrite D. destruct e; reflexivity. Qed.

(* the main loop performs a metaepoch only after a FALSE consult at the boundary, and that consult agrees with the
   configured condition wherever the model computes it *)
Lemma main_step_false c s s' v : pc s = PMain -> step c s (EGsc v) = Some s' ->
  consistent (gsc_eval (gsc c) (height c) s) v = true /\
  (v = true -> pc s' = PDone /\ mcount s' = mcount s /\ demes s' = demes s) /\
  (v = false -> mcount s' = S (mcount s)).
Proof.
  intros P H. unfold step in H. rewrite P in H. cbv zeta in H.
  destruct (negb (consistent _ v) || _) eqn:E; [discriminate|]. apply orb_false_elim in E as (E1 & E2). apply negb_false_iff in E1.
  split; [exact E1|]. destruct v; injection H as <-; split; intros; try discriminate; bd; auto.
Qed.

(* MetaepochLimit n: the counter never passes n, and the run can only end with exactly n metaepochs performed *)
Definition MLIM (n : nat) (s : st) : Prop := mcount s <= n.
Lemma MLIM_step c n s e s' : gsc c = GMetaLimit n -> MLIM n s -> step c s e = Some s' -> MLIM n s'.
Proof.
  intros G I H. unfold MLIM in *. destruct (pc s) eqn:P.
  - destruct e; try (unfold step in H; rewrite P in H; discriminate).
    destruct (main_step_false c s s' v P H) as (Cn & T & F). rewrite G in Cn. simpl in Cn.
    destruct v; [destruct (T eq_refl) as (_ & -> & _); exact I|]. rewrite (F eq_refl).
    apply Bool.eqb_prop in Cn. apply Nat.leb_gt in Cn. lia.
  - assert (mcount s' = mcount s) as ->; [|exact I]. step_cases H; kind_cases; bd; try congruence; reflexivity.
  - assert (mcount s' = mcount s) as ->; [|exact I]. step_cases H; bd; try congruence; reflexivity.
  - assert (mcount s' = mcount s) as ->; [|exact I]. step_cases H; bd; try congruence; reflexivity.
  - rewrite done_is_final in H by assumption. discriminate.
Qed.
Lemma MLIM_run c n evs : gsc c = GMetaLimit n -> forall s s', MLIM n s -> run c s evs = Some s' -> MLIM n s'.
Proof.
  intros G. induction evs as [|e r IH]; intros s s' I H; simpl in H; [now injection H as <-|].
  destruct (step c s e) as [s1|] eqn:E; [|discriminate]. eapply IH; [|exact H]. eapply MLIM_step; eauto.
Qed.

(* the last step of a finished run *)
Lemma run_snoc c evs e s : run c s (evs ++ [e]) = match run c s evs with Some s1 => step c s1 e | None => None end.
Proof. rewrite run_app. destruct (run c s evs); [simpl; destruct (step c _ e); reflexivity|reflexivity]. Qed.

Lemma run_done_last c evs : forall s s', pc s <> PDone -> run c s evs = Some s' -> pc s' = PDone ->
  exists evs0 s1, evs = evs0 ++ [EGsc true] /\ run c s evs0 = Some s1 /\ pc s1 = PMain /\ step c s1 (EGsc true) = Some s'.
Proof.
  induction evs as [|e r IH] using rev_ind; intros s s' N H D; [simpl in H; injection H as <-; contradiction|].
  rewrite run_snoc in H. destruct (run c s r) as [s1|] eqn:E; [|discriminate].
  destruct (done_only_at_boundary c s1 e s' H D) as (P & ->). exists r, s1. auto.
Qed.

Theorem metaepoch_limit_exact c n0 n evs s :
  gsc c = GMetaLimit n -> run c (init n0) evs = Some s -> pc s = PDone -> mcount s = n.
Proof.
  intros G R D. destruct (run_done_last c evs (init n0) s ltac:(discriminate) R D) as (evs0 & s1 & -> & R1 & P1 & S1).
  pose proof (MLIM_run c n evs0 G (init n0) s1 ltac:(unfold MLIM; simpl; lia) R1) as M. unfold MLIM in M.
  destruct (main_step_false c s1 s true P1 S1) as (Cn & T & _). destruct (T eq_refl) as (_ & -> & _).
  rewrite G in Cn. simpl in Cn. apply Bool.eqb_prop in Cn. apply Nat.leb_le in Cn. lia.
Qed.

Definition NOSTEP (s : st) : Prop := mcount s = 0 /\ pc s = PMain \/ mcount s = 0 /\ pc s = PDone.
Theorem dont_run_zero c n0 evs s : gsc c = GDontRun -> run c (init n0) evs = Some s -> mcount s = 0 /\ (evs = [] \/ evs = [EGsc true]).
Proof.
  intros G R. destruct evs as [|e r]; [simpl in R; injection R as <-; auto|].
  simpl in R. destruct (step c (init n0) e) as [s1|] eqn:E; [|discriminate].
  destruct e; try (unfold step in E; simpl in E; discriminate).
  destruct (main_step_false c (init n0) s1 v eq_refl E) as (Cn & T & F). rewrite G in Cn. simpl in Cn. destruct v; [|discriminate].
  destruct (T eq_refl) as (D & M & _). destruct r as [|e2 r2]; [simpl in R; injection R as <-; simpl in M; auto|].
  simpl in R. rewrite done_is_final in R by assumption. discriminate.
Qed.

(* when the run is over the condition has been observed, the counter equals the number of metaepochs performed,
   nothing was sprouted after the observation and no deme did more than one further engine iteration *)
Theorem run_end_spec c n0 evs s : 1 <= height c -> run c (init n0) evs = Some s -> pc s = PDone ->
  seen s = true /\ steps s = mcount s /\ born_after_seen s = 0 /\ (forall i, i < length (demes s) -> d_after (dnth i (demes s)) <= 1) /\
  consistent (gsc_eval (gsc c) (height c) s) true = true.
Proof.
  intros Hh R D. destruct (run_done_last c evs (init n0) s ltac:(discriminate) R D) as (evs0 & s1 & -> & R1 & P1 & S1).
  pose proof (INV_run c _ _ _ (INV_init c n0 Hh) R) as (_ & _ & _ & _ & _ & (W1 & W2 & W3 & W4) & _).
  assert (seen s = true) as Sn.
  { unfold step in S1. rewrite P1 in S1. cbv zeta in S1. destruct (negb _ || _); [discriminate|]. injection S1 as <-. reflexivity. }
  repeat split; auto. { apply W4; assumption. }
  destruct (main_step_false c s1 s true P1 S1) as (Cn & T & _). destruct (T eq_refl) as (_ & Em & Ed).
  (* the verdict was computed in s1, and s differs from s1 only in pc/seen *)
  assert (gsc_eval (gsc c) (height c) s = gsc_eval (gsc c) (height c) s1) as ->; [|exact Cn].
  generalize (gsc c). intros g. induction g; simpl; rewrite ?Em, ?Ed; try reflexivity.
  now rewrite IHg1, IHg2.
Qed.

(* ---------------------------------------------------------------- reachability *)
Definition reach (c : cfg) (n0 : nat) (s : st) : Prop := exists evs, run c (init n0) evs = Some s.
Lemma reach_INV c n0 s : 1 <= height c -> reach c n0 s -> INV c s.
Proof. intros H (evs & R). eapply INV_run; [apply INV_init; assumption|exact R]. Qed.
Lemma reach_step c n0 s e s' : reach c n0 s -> step c s e = Some s' -> reach c n0 s'.
Proof. intros (evs & R) H. exists (evs ++ [e]). rewrite run_snoc, R. exact H. Qed.

(* a concrete accepted run used for the non-vacuity examples: SEA root (2 generations per metaepoch) over CMA leaves,
   level limit 2, hibernation on; two metaepochs, a round that sprouts two demes, a round that sprouts none (the root goes
   to sleep), a leaf stopped by CMA-ES itself, then the global stop condition *)
Definition ex_cfg : cfg :=
  {| height := 2; kinds := [KPop; KCma]; ngens := [2; 1]; lscs := [LDontStop; LMetaLimit 3]; gsc := GOr (GMetaLimit 3) GOracle;
     hib_on := true; level_lim := Some 2; maximize := false |}.
Definition ex_events : list event :=
  [ EGsc false;                                               (* main loop: go *)
    EGen 7; EGsc false; EGen 6; EGsc false; ELsc false;       (* root: two generations *)
    EGsc false;                                               (* run_step: not done -> sprout *)
    ESprout [(0, [5; 3; 9]%Z)] [[true; true]] [11; 12];       (* three candidates, level limit keeps the two best, both pass *)
    EGsc false;
    EGen 4; EGsc false; ECma false; ELsc false; ECma false;   (* child 2 *)
    EGen 4; EGsc false; ECma true;                            (* child 1: CMA-ES stops itself *)
    EGen 8; EGsc false; EGen 8; EGsc false; ELsc false;       (* root *)
    EGsc false;
    ESprout [(0, [4]%Z)] [[false]] [];                        (* the only candidate is rejected by a distance filter: root sleeps *)
    EGsc false;
    EGen 4; EGsc true;                                        (* child 2 sees the global condition inside its metaepoch *)
    EGsc true; EGsc true ].
Definition ex_final : option st := run ex_cfg (init 10) ex_events.
Lemma ex_accepted : exists s, ex_final = Some s /\ pc s = PDone /\ mcount s = 3 /\ length (demes s) = 3 /\ clock s = 10 + 7 + 6 + 11 + 12 + 4 + 4 + 8 + 8 + 4.
Proof. vm_compute. eexists. split; [reflexivity|]. repeat split. Qed.

(* ---------------------------------------------------------------- C06 / C18: what a scheduled deme does, and why a deme stops *)
(* a scheduled deme's first event is an engine iteration (a generation, or one complete local search) *)
Lemma scheduled_deme_iterates c s e s' t d g : step c s e = Some s' -> (pc s = PDeme t d g SGen \/ pc s = PDeme t d g SLocal) ->
  (exists n, e = EGen n) \/ (exists n, e = ELocal n).
Proof.
  intros H [P|P]; unfold step in H; rewrite P in H; destruct e; try discriminate; eauto.
Qed.
Lemma begin_deme_first_sub c t s t' d g sub : pc (begin_deme c t s) = PDeme t' d g sub -> g = 0 /\ (sub = SGen \/ sub = SLocal).
Proof.
  rewrite begin_deme_pc. destruct t as [|x r]; [discriminate|]. intros [= <- <- <- <-]. split; [reflexivity|].
  unfold first_sub. destruct (kind_of c _); auto.
Qed.

(* an active deme becomes inactive in one step only for one of the stated causes: the global stop condition answered true at
   one of its consults, its local stop condition answered true, CMA-ES stopped itself, or its one-shot local search completed *)
Definition stop_cause (e : event) : Prop := e = EGsc true \/ e = ELsc true \/ e = ECma true \/ exists n, e = ELocal n.
Lemma deactivation_has_a_cause c s e s' i : step c s e = Some s' -> i < length (demes s) ->
  d_active (dnth i (demes s)) = true -> d_active (dnth i (demes s')) = false ->
  stop_cause e /\ exists t g sub, pc s = PDeme t i g sub.
Proof.
  intros H Hi Ha Hn. unfold stop_cause. step_cases H; kind_cases; bd.
  all: rewrite ?(proj1 (begin_deme_fields _ _ _)) in Hn; cbn [demes] in Hn.
  all: try (rewrite dnth_map in Hn by assumption; simpl in Hn; congruence).
  all: repeat match type of Hn with context [match kind_of ?cc ?l with _ => _ end] => destruct (kind_of cc l) end.
  all: repeat rewrite dnth_upd in Hn.
  all: repeat match type of Hn with context [if ?b then _ else _] => destruct b eqn:? end; simpl in Hn; try congruence.
  all: try solve [ split; [eauto 6|]; repeat match goal with Hb : (Nat.eqb ?a ?b && _)%bool = true |- _ => apply andb_prop in Hb as (Hb & _); apply Nat.eqb_eq in Hb; subst end; eauto ].
  (* sprouting never deactivates *)
  all: sprout_abs; exfalso.
  all: try (rewrite set_hibs_dnth in Hn by (rewrite do_sprout_length; lia)).
  all: rewrite do_sprout_prefix in Hn by assumption.
  all: try (destruct (existsb _ _); simpl in Hn); congruence.
Qed.
