(* Proofs/DriverCode.v — what the two ties give together: the run() TRANSLATED FROM THE CURRENT SOURCES (Gen/GenDriver.v), executed on any
   event stream, performs a run the small-step machine accepts.  Every theorem about all accepted runs is therefore a theorem about the
   translated code; the corollaries the properties use are stated here. *)
From Coq Require Import List Bool Arith ZArith Lia.
From HV Require Import Ord ListX Sprout Tree TreeLemmas TreeInv TreeRun DriverPrim Driver DriverFacts GenDriver GenEquivDriver.
Import ListNotations.

Lemma exec_gen_run c fuel s evs : exec (gen_tree_run c fuel) s evs = exec (run_tree c fuel) s evs.
Proof. unfold exec. now rewrite gen_tree_run_eq. Qed.

Theorem code_run_refines c fuel s evs s' rest :
  gens_ok c -> pc s = PMain -> exec (gen_tree_run c fuel) s evs = Some (tt, s', rest) ->
  exists used s'', evs = used ++ rest /\ run c s used = Some s'' /\ pc s'' = PDone /\ set_pc s'' PMain = set_pc s' PMain.
Proof. intros G P H. rewrite exec_gen_run in H. eapply run_tree_sim; eauto. Qed.

(* from the start of a run *)
Theorem code_run_from_init c fuel n evs s' rest :
  gens_ok c -> 1 <= height c -> exec (gen_tree_run c fuel) (init n) evs = Some (tt, s', rest) ->
  exists used s'', evs = used ++ rest /\ run c (init n) used = Some s'' /\ pc s'' = PDone /\ set_pc s'' PMain = set_pc s' PMain /\ INV c s'' /\
    (forall k, exists s_k, run c (init n) (firstn k used) = Some s_k /\ INV c s_k).
Proof.
  intros G H E. destruct (code_run_refines c fuel (init n) evs s' rest G eq_refl E) as (used & s'' & -> & R & P & Q).
  exists used, s''. split; [reflexivity|]. split; [exact R|]. split; [exact P|]. split; [exact Q|]. split.
  - eapply INV_run; [apply INV_init; exact H|exact R].
  - intros k. rewrite <- (firstn_skipn k used) in R. eapply INV_reachable; eauto.
Qed.

(* C05 on the translated code: when run() returns, the global condition has been observed true at a metaepoch boundary, the metaepoch counter
   equals the number of run_step calls, nothing was sprouted after the first true observation and no deme iterated more than once more *)
Theorem code_run_end c fuel n evs s' rest :
  gens_ok c -> 1 <= height c -> exec (gen_tree_run c fuel) (init n) evs = Some (tt, s', rest) ->
  seen s' = true /\ steps s' = mcount s' /\ born_after_seen s' = 0 /\ (forall i, i < length (demes s') -> d_after (dnth i (demes s')) <= 1).
Proof.
  intros G H E. destruct (code_run_from_init c fuel n evs s' rest G H E) as (used & s'' & _ & R & P & Q & _).
  destruct (run_end_spec c n used s'' H R P) as (A & B & C & D & _).
  assert (X : forall f : st -> nat, (forall s p, f (set_pc s p) = f s) -> f s' = f s'').
  { intros f Hf. rewrite <- (Hf s' PMain), <- Q. apply Hf. }
  assert (Es : seen s' = seen s'') by (change (seen s') with (seen (set_pc s' PMain)); rewrite <- Q; reflexivity).
  assert (Ed : demes s' = demes s'') by (change (demes s') with (demes (set_pc s' PMain)); rewrite <- Q; reflexivity).
  rewrite Es, Ed, (X steps), (X mcount), (X born_after_seen) by reflexivity. auto.
Qed.

(* C03 on the translated code: the counters add up to the evaluation requests made *)
Theorem code_run_counts c fuel n evs s' rest :
  gens_ok c -> 1 <= height c -> exec (gen_tree_run c fuel) (init n) evs = Some (tt, s', rest) -> total_evals (demes s') = clock s'.
Proof.
  intros G H E. destruct (code_run_from_init c fuel n evs s' rest G H E) as (used & s'' & _ & R & P & Q & I & _).
  destruct I as (_ & C & _). unfold CNT in C.
  change (demes s') with (demes (set_pc s' PMain)). change (clock s') with (clock (set_pc s' PMain)). rewrite <- Q. exact C.
Qed.

(* every moment of the translated run is a reachable state of the machine: the bridge through which the per-property theorems
   (stated for every reachable state) speak about the translated code *)
Definition code_moment (c : cfg) (fuel n : nat) (evs : list event) (s : st) : Prop :=
  exists s' rest used, exec (gen_tree_run c fuel) (init n) evs = Some (tt, s', rest) /\ evs = used ++ rest /\
                       exists k, run c (init n) (firstn k used) = Some s.
Theorem code_moment_reach c fuel n evs s : code_moment c fuel n evs s -> reach c n s.
Proof. intros (s' & rest & used & _ & _ & k & R). now exists (firstn k used). Qed.
Theorem code_moments_exist c fuel n evs s' rest :
  gens_ok c -> exec (gen_tree_run c fuel) (init n) evs = Some (tt, s', rest) ->
  exists used, evs = used ++ rest /\ forall k, exists s, run c (init n) (firstn k used) = Some s /\ code_moment c fuel n evs s.
Proof.
  intros G E. destruct (code_run_refines c fuel (init n) evs s' rest G eq_refl E) as (used & s'' & -> & R & _).
  exists used. split; [reflexivity|]. intros k.
  pose proof R as R'. rewrite <- (firstn_skipn k used), run_app in R'. destruct (run c (init n) (firstn k used)) as [sk|] eqn:Ek; [|discriminate].
  exists sk. split; [reflexivity|]. exists s', rest, used. split; [exact E|]. split; [reflexivity|]. now exists k.
Qed.

Theorem code_moment_INV c fuel n evs s : 1 <= height c -> code_moment c fuel n evs s -> INV c s.
Proof. intros H M. apply (reach_INV c n s H). eapply code_moment_reach; eauto. Qed.
Theorem code_moment_counts c fuel n evs s : 1 <= height c -> code_moment c fuel n evs s -> total_evals (demes s) = clock s.
Proof. intros H M. exact (proj1 (proj2 (code_moment_INV c fuel n evs s H M))). Qed.
Theorem code_moment_wf c fuel n evs s : 1 <= height c -> code_moment c fuel n evs s -> WFT c s.
Proof. intros H M. destruct (code_moment_INV c fuel n evs s H M) as (_ & _ & W & _). exact W. Qed.
Theorem code_moment_level_limit c fuel n evs s L : 1 <= height c -> code_moment c fuel n evs s -> level_lim c = Some L ->
  forall lv, 1 <= lv -> active_at (demes s) lv <= L.
Proof. intros H M HL. destruct (code_moment_INV c fuel n evs s H M) as (_ & _ & _ & I & _). exact (I L HL). Qed.
Theorem code_moment_once c fuel n evs s : 1 <= height c -> code_moment c fuel n evs s -> ONCE c s.
Proof. intros H M. destruct (code_moment_INV c fuel n evs s H M) as (_ & _ & _ & _ & O & _). exact O. Qed.
Theorem code_moment_wind_down c fuel n evs s : 1 <= height c -> code_moment c fuel n evs s -> WD s.
Proof. intros H M. destruct (code_moment_INV c fuel n evs s H M) as (_ & _ & _ & _ & _ & D & _). exact D. Qed.
Theorem code_moment_hibernation c fuel n evs s : 1 <= height c -> code_moment c fuel n evs s -> HIB c s.
Proof. intros H M. destruct (code_moment_INV c fuel n evs s H M) as (_ & _ & _ & _ & _ & _ & B). exact B. Qed.

(* C19: the translated run() resumed from ANY boundary state that satisfies the invariants (a restored snapshot) performs an accepted machine
   run, every state of which satisfies the invariants again *)
Theorem code_resume_keeps_invariants c fuel s evs s' rest :
  gens_ok c -> pc s = PMain -> INV c s -> exec (gen_tree_run c fuel) s evs = Some (tt, s', rest) ->
  exists used s'', evs = used ++ rest /\ run c s used = Some s'' /\ pc s'' = PDone /\ set_pc s'' PMain = set_pc s' PMain /\ INV c s'' /\
    (forall k s_k, run c s (firstn k used) = Some s_k -> INV c s_k).
Proof.
  intros G P I E. destruct (code_run_refines c fuel s evs s' rest G P E) as (used & s'' & -> & R & PD & Q).
  exists used, s''. split; [reflexivity|]. split; [exact R|]. split; [exact PD|]. split; [exact Q|]. split.
  - eapply INV_run; eauto.
  - intros k s_k Rk. eapply INV_run; eauto.
Qed.
