(* Proofs/SelectFacts.v — laws of the selection steps of Model/Select.v, for ALL populations, all tie patterns and any valid
   argsort permutation.  Used by C04 (best is best), C12 (elitism, one-to-one replacement), C13 (mirror symmetry). *)
From Coq Require Import ZArith List Bool Arith Lia Permutation Sorting.
From HV Require Import Ord ListX Select.
Import ListNotations.
Local Open Scope Z_scope.

Lemma better_mirror a b : better true a b = better false (- a) (- b).
Proof. reflexivity. Qed.
Lemma better_irrefl mx a : better mx a a = false.
Proof. unfold better. apply Z.ltb_irrefl. Qed.
Lemma better_false_le mx a b : better mx a b = false <-> good mx b <= good mx a.
Proof. unfold better. rewrite Z.ltb_ge. reflexivity. Qed.
Lemma neg_neg ks : neg (neg ks) = ks.
Proof. unfold neg. rewrite map_map. rewrite <- (map_id ks) at 2. apply map_ext. intros; lia. Qed.

(* ---------------------------------------------------------------- max(): the reported best *)
Lemma best_step_good mx acc k : good mx (best_step mx acc k) = Z.min (good mx acc) (good mx k).
Proof. unfold best_step, better. destruct (Z.ltb_spec (good mx k) (good mx acc)); lia. Qed.
Lemma best_step_in mx acc k : best_step mx acc k = acc \/ best_step mx acc k = k.
Proof. unfold best_step. destruct (better mx k acc); auto. Qed.
Lemma fold_best_in mx r : forall k, In (fold_left (best_step mx) r k) (k :: r).
Proof.
  induction r as [|x r IH]; intros k; simpl; [auto|]. destruct (IH (best_step mx k x)) as [E|I]; [|auto].
  rewrite <- E. destruct (best_step_in mx k x) as [->| ->]; auto.
Qed.
Lemma fold_best_le mx r : forall k, good mx (fold_left (best_step mx) r k) <= good mx k /\
  forall x, In x r -> good mx (fold_left (best_step mx) r k) <= good mx x.
Proof.
  induction r as [|y r IH]; intros k; simpl; [split; [lia|tauto]|].
  destruct (IH (best_step mx k y)) as (A & B). rewrite best_step_good in A. split; [lia|].
  intros x [->|Hx]; [lia|auto].
Qed.
(* the best individual is a member, and no member is strictly better than it in the problem's direction *)
Theorem best_of_spec mx ks b : best_of mx ks = Some b -> In b ks /\ forall x, In x ks -> better mx x b = false.
Proof.
  destruct ks as [|k r]; [discriminate|]. simpl. intros [= <-]. split; [apply fold_best_in|].
  intros x Hx. apply better_false_le. destruct (fold_best_le mx r k) as (A & B). destruct Hx as [->|Hx]; auto.
Qed.
Theorem best_of_some mx ks : ks <> [] -> exists b, best_of mx ks = Some b.
Proof. destruct ks; [congruence|]. intros _. eexists. reflexivity. Qed.
(* growing the collection never makes the best worse (C04: history is append-only) *)
Theorem best_of_app_monotone mx ks more b b' : best_of mx ks = Some b -> best_of mx (ks ++ more) = Some b' -> better mx b b' = false.
Proof.
  intros H H'. destruct (best_of_spec mx ks b H) as (I & _). destruct (best_of_spec mx _ b' H') as (_ & N). apply N, in_or_app; auto.
Qed.
Lemma fold_best_mirror r : forall k, fold_left (best_step false) (neg r) (- k) = - fold_left (best_step true) r k.
Proof.
  induction r as [|x r IH]; intros k; simpl; [reflexivity|]. rewrite <- IH. f_equal.
  unfold best_step. rewrite better_mirror. destruct (better false (- x) (- k)); reflexivity.
Qed.
Theorem best_of_mirror ks : best_of true ks = option_map Z.opp (best_of false (neg ks)).
Proof. destruct ks as [|k r]; simpl; [reflexivity|]. f_equal. fold (neg r). rewrite fold_best_mirror. lia. Qed.

(* ---------------------------------------------------------------- argsort oracle and top-k *)
Definition is_argsort (fs : list Z) (order : list nat) : Prop :=
  Permutation order (seq 0 (length fs)) /\ StronglySorted Z.le (map (at_ fs) order).

Lemma map_at_seq fs : map (at_ fs) (seq 0 (length fs)) = fs.
Proof.
  induction fs as [|x fs IH]; simpl; [reflexivity|]. f_equal. rewrite <- seq_shift, map_map. rewrite <- IH at 2. apply map_ext. reflexivity.
Qed.
Lemma argsort_perm fs order : is_argsort fs order -> Permutation fs (map (at_ fs) order).
Proof. intros (P & _). rewrite <- (map_at_seq fs) at 1. apply Permutation_map. now symmetry. Qed.
Lemma argsort_length fs order : is_argsort fs order -> length order = length fs.
Proof. intros (P & _). apply Permutation_length in P. now rewrite seq_length in P. Qed.
Lemma sorted_app_le (l1 l2 : list Z) : StronglySorted Z.le (l1 ++ l2) -> forall a b, In a l1 -> In b l2 -> a <= b.
Proof.
  induction l1 as [|x l1 IH]; simpl; intros S a b Ha Hb; [destruct Ha|]. inversion S as [|? ? S' F]; subst.
  destruct Ha as [->|Ha]; [|now apply IH]. rewrite Forall_forall in F. apply F, in_or_app. auto.
Qed.

Theorem topk_spec mx k fs order : is_argsort fs order ->
  length (topk mx k fs order) = Nat.min k (length fs) /\
  exists dropped, Permutation fs (topk mx k fs order ++ dropped) /\
                  forall a d, In a (topk mx k fs order) -> In d dropped -> better mx d a = false.
Proof.
  intros A. pose proof (argsort_perm fs order A) as P. pose proof (argsort_length fs order A) as L. destruct A as (_ & S).
  set (s := map (at_ fs) order) in *. unfold topk, topk_idx. destruct mx.
  - rewrite <- skipn_map. fold s. split; [rewrite skipn_length; unfold s; rewrite map_length; lia|].
    exists (firstn (length fs - k) s). split.
    + rewrite P at 1. rewrite <- (firstn_skipn (length fs - k) s) at 1. apply Permutation_app_comm.
    + intros a d Ha Hd. apply better_false_le. simpl. rewrite <- (firstn_skipn (length fs - k) s) in S.
      pose proof (sorted_app_le _ _ S d a Hd Ha). lia.
  - rewrite <- firstn_map. fold s. split; [rewrite firstn_length; unfold s; rewrite map_length; lia|].
    exists (skipn k s). split; [now rewrite firstn_skipn|].
    intros a d Ha Hd. apply better_false_le. simpl. rewrite <- (firstn_skipn k s) in S. exact (sorted_app_le _ _ S a d Ha Hd).
Qed.

(* ---------------------------------------------------------------- tournament *)
Theorem tournament_spec mx a b : let w := nth (tournament_pick mx a b) [a; b] 0 in better mx a w = false /\ better mx b w = false.
Proof.
  unfold tournament_pick. destruct (better mx b a) eqn:E; simpl; rewrite ?better_irrefl; split; auto.
  apply better_false_le. unfold better in E. apply Z.ltb_lt in E. lia.
Qed.
Theorem tournament_mirror a b : tournament_pick true a b = tournament_pick false (- a) (- b).
Proof. reflexivity. Qed.

(* ---------------------------------------------------------------- SEA: elitist selection *)
Lemma exists_best mx (l : list Z) : l <> [] -> exists m, In m l /\ forall x, In x l -> good mx m <= good mx x.
Proof.
  intros N. destruct (best_of_some mx l N) as (b & Hb). destruct (best_of_spec mx l b Hb) as (I & F). exists b. split; [exact I|].
  intros x Hx. now apply better_false_le, F.
Qed.
Theorem sea_elitist mx k_elites parents offspring order1 order2 :
  (1 <= k_elites)%nat -> parents <> [] -> length offspring = length parents ->
  is_argsort parents order1 -> is_argsort (offspring ++ topk mx k_elites parents order1) order2 ->
  let out := sea_select mx k_elites parents offspring order1 order2 in
  length out = length parents /\ exists o, In o out /\ forall p, In p parents -> better mx p o = false.
Proof.
  intros Hk Hne Hlen A1 A2 out. unfold sea_select in out.
  destruct (topk_spec mx k_elites parents order1 A1) as (L1 & d1 & P1 & B1).
  set (el := topk mx k_elites parents order1) in *.
  destruct (topk_spec mx (length parents) (offspring ++ el) order2 A2) as (L2 & d2 & P2 & B2). fold out in L2, P2, B2.
  assert (length parents <> 0)%nat as Hn by (destruct parents; [congruence|simpl; lia]).
  split; [rewrite L2, app_length; lia|].
  assert (el <> []) as Hel by (intros E; rewrite E in L1; simpl in L1; lia).
  destruct (exists_best mx el Hel) as (e & He & Hmin).
  assert (forall p, In p parents -> good mx e <= good mx p) as Hall.
  { intros p Hp. apply (Permutation_in _ P1), in_app_or in Hp. destruct Hp as [Hp|Hp]; [now apply Hmin|].
    pose proof (B1 e p He Hp) as X. now apply better_false_le in X. }
  assert (In e (out ++ d2)) as Hin by (apply (Permutation_in _ P2), in_or_app; auto).
  apply in_app_or in Hin. destruct Hin as [Ho|Hd].
  - exists e. split; [exact Ho|]. intros p Hp. apply better_false_le. now apply Hall.
  - assert (out <> []) as Hout by (intros E; rewrite E in L2; simpl in L2; rewrite app_length in L2; lia).
    destruct out as [|o out']; [congruence|]. exists o. split; [now left|]. intros p Hp. apply better_false_le.
    pose proof (B2 o e ltac:(now left) Hd) as X. apply better_false_le in X. specialize (Hall p Hp). lia.
Qed.

(* ---------------------------------------------------------------- DE / SHADE: one-to-one replacement *)
Lemma de_select_perm mx ts : forall ps, length ts = length ps -> Permutation (de_select mx ts ps) (de_winners mx ts ps).
Proof.
  unfold de_select. induction ts as [|t ts IH]; intros [|p ps] L; simpl in *; try discriminate; [constructor|].
  injection L as L. specialize (IH ps L). destruct (de_take mx t p); simpl.
  - now constructor.
  - rewrite <- Permutation_middle. now constructor.
Qed.
Lemma de_winners_length mx ts : forall ps, length ts = length ps -> length (de_winners mx ts ps) = length ps.
Proof. induction ts as [|t ts IH]; intros [|p ps] L; simpl in *; try discriminate; auto. Qed.
Theorem de_select_length mx ts ps : length ts = length ps -> length (de_select mx ts ps) = length ps.
Proof. intros L. rewrite (Permutation_length (de_select_perm mx ts ps L)). now apply de_winners_length. Qed.
Lemma Forall2_weaken {A B} (P Q : A -> B -> Prop) l l' : (forall a b, P a b -> Q a b) -> Forall2 P l l' -> Forall2 Q l l'.
Proof. intros H F. induction F; constructor; auto. Qed.
Lemma de_winners_pointwise mx ts : forall ps, length ts = length ps ->
  Forall2 (fun w p => good mx w <= good mx p /\ (w = p \/ In w ts)) (de_winners mx ts ps) ps.
Proof.
  induction ts as [|t ts IH]; intros [|p ps] L; simpl in *; try discriminate; constructor.
  - unfold de_take. destruct mx; simpl.
    + destruct (Z.leb_spec p t); split; auto; lia.
    + destruct (Z.leb_spec t p); split; auto; lia.
  - injection L as L. eapply Forall2_weaken; [|exact (IH ps L)]. simpl. intros a b (H1 & [H2|H2]); auto.
Qed.

Definition count_le (v : Z) (l : list Z) : nat := length (filter (fun g => g <=? v) l).
Lemma count_le_perm v l l' : Permutation l l' -> count_le v l = count_le v l'.
Proof. intros P. unfold count_le. now apply Permutation_filter_length. Qed.
Lemma count_le_pointwise v ws ps : Forall2 (fun w p => w <= p) ws ps -> (count_le v ps <= count_le v ws)%nat.
Proof.
  unfold count_le. induction 1 as [|w p ws ps H F IH]; simpl; [lia|].
  destruct (Z.leb_spec p v), (Z.leb_spec w v); simpl; lia.
Qed.
(* for every threshold, at least as many individuals are that good after the step as before *)
Theorem de_no_rank_gets_worse mx ts ps v : length ts = length ps ->
  (count_le v (map (good mx) ps) <= count_le v (map (good mx) (de_select mx ts ps)))%nat.
Proof.
  intros L. rewrite (count_le_perm v _ _ (Permutation_map (good mx) (de_select_perm mx ts ps L))).
  apply count_le_pointwise. pose proof (de_winners_pointwise mx ts ps L) as F.
  clear L. induction F as [|w p ws ps' (H & _) F IH]; simpl; constructor; auto.
Qed.

(* ... which is the same as: the k-th best never gets worse, for every k *)
Lemma count_le_firstn (s : list Z) (c : nat) v : (c <= length s)%nat -> (forall x, In x (firstn c s) -> x <= v) -> (c <= count_le v s)%nat.
Proof.
  intros Hc H. unfold count_le. rewrite <- (firstn_skipn c s), filter_app, app_length.
  assert (filter (fun g => g <=? v) (firstn c s) = firstn c s) as ->.
  { clear Hc. induction (firstn c s) as [|x l IH]; simpl; [reflexivity|]. destruct (Z.leb_spec x v) as [_|Hx].
    - f_equal. apply IH. intros y Hy. apply H. now right.
    - specialize (H x (or_introl eq_refl)). lia. }
  rewrite firstn_length. lia.
Qed.
Lemma count_le_skipn (s : list Z) (c : nat) v : (forall x, In x (skipn c s) -> v < x) -> (count_le v s <= c)%nat.
Proof.
  intros H. unfold count_le. rewrite <- (firstn_skipn c s), filter_app, app_length.
  rewrite (filter_none _ (skipn c s)); [|intros a Ha; apply Z.leb_gt; now apply H].
  pose proof (filter_length_le (fun g => g <=? v) (firstn c s)) as L. rewrite firstn_length in L. simpl. lia.
Qed.
Lemma sorted_firstn_le (s : list Z) (c : nat) : StronglySorted Z.le s -> (c < length s)%nat -> forall x, In x (firstn (S c) s) -> x <= nth c s 0.
Proof.
  revert s. induction c as [|c IH]; intros s Hs Hc x Hx; destruct s as [|y s]; simpl in Hc; try lia.
  - simpl in Hx. destruct Hx as [Hx|Hx]; [subst; simpl; lia|destruct Hx].
  - inversion Hs as [|? ? Hs' F]; subst. change (firstn (S (S c)) (y :: s)) with (y :: firstn (S c) s) in Hx.
    change (nth (S c) (y :: s) 0) with (nth c s 0). destruct Hx as [<-|Hx]; [|apply IH; auto; lia].
    rewrite Forall_forall in F. apply F, nth_In. lia.
Qed.
Theorem sorted_dominance (a b : list Z) : length a = length b -> (forall v, (count_le v b <= count_le v a)%nat) ->
  forall k, (k < length a)%nat -> nth k (sort_good a) 0 <= nth k (sort_good b) 0.
Proof.
  intros L C k Hk. set (v := nth k (sort_good b) 0).
  destruct (Z.le_gt_cases (nth k (sort_good a) 0) v) as [|G]; [assumption|exfalso].
  assert (S k <= count_le v b)%nat as Hb.
  { rewrite (count_le_perm v _ _ (sort_good_perm b)). apply count_le_firstn; [rewrite sort_good_length; lia|].
    apply sorted_firstn_le; [apply sort_good_sorted|rewrite sort_good_length; lia]. }
  assert (count_le v a <= k)%nat as Ha.
  { rewrite (count_le_perm v _ _ (sort_good_perm a)). apply count_le_skipn. intros x Hx.
    pose proof (sorted_skipn_ge (sort_good a) k (sort_good_sorted a) ltac:(rewrite sort_good_length; lia) x Hx). lia. }
  specialize (C v). lia.
Qed.
Theorem de_kth_best_never_worse mx ts ps k : length ts = length ps -> (k < length ps)%nat ->
  nth k (sort_good (map (good mx) (de_select mx ts ps))) 0 <= nth k (sort_good (map (good mx) ps)) 0.
Proof.
  intros L Hk. apply sorted_dominance.
  - rewrite !map_length. now apply de_select_length.
  - intros v. now apply de_no_rank_gets_worse.
  - rewrite map_length, de_select_length by assumption. exact Hk.
Qed.
(* every survivor is the parent at its index or a trial *)
Theorem de_select_members mx ts ps x : length ts = length ps -> In x (de_select mx ts ps) -> In x ts \/ In x ps.
Proof.
  intros L Hx. apply (Permutation_in _ (de_select_perm mx ts ps L)) in Hx.
  pose proof (de_winners_pointwise mx ts ps L) as F. revert Hx. clear L. induction F as [|w p ws ps' (_ & H) F IH]; simpl; [tauto|].
  intros [<-|Hx]; [destruct H as [->|H]; auto|]. destruct (IH Hx); auto.
Qed.

Lemma pick_map {A B} (f : A -> B) m : forall l, pick m (map f l) = map f (pick m l).
Proof. induction m as [|b m IH]; intros [|x l]; simpl; auto. destruct b; simpl; now rewrite IH. Qed.
Lemma de_mask_mirror ts : forall ps, de_mask true ts ps = de_mask false (neg ts) (neg ps).
Proof.
  induction ts as [|t ts IH]; intros [|p ps]; simpl; auto. rewrite IH. f_equal. unfold de_take.
  destruct (Z.leb_spec p t), (Z.leb_spec (- t) (- p)); auto; lia.
Qed.
Theorem de_select_mirror ts ps : de_select true ts ps = neg (de_select false (neg ts) (neg ps)).
Proof.
  unfold de_select. rewrite <- de_mask_mirror. unfold neg. rewrite !pick_map, <- map_app, map_map.
  rewrite <- (map_id (_ ++ _)) at 1. apply map_ext. intros; lia.
Qed.

(* ---------------------------------------------------------------- top-k keeps the k best, as a multiset: direction symmetry *)
Lemma sorted_perm_eq (l1 : list Z) : forall l2, StronglySorted Z.le l1 -> StronglySorted Z.le l2 -> Permutation l1 l2 -> l1 = l2.
Proof.
  induction l1 as [|x l1 IH]; intros l2 S1 S2 P.
  - apply Permutation_nil in P. now subst.
  - destruct l2 as [|y l2]; [apply Permutation_sym, Permutation_nil in P; discriminate|].
    inversion S1 as [|? ? S1' F1]; inversion S2 as [|? ? S2' F2]; subst. rewrite Forall_forall in F1, F2.
    assert (x = y) as ->.
    { assert (In x (y :: l2)) as I1 by (apply (Permutation_in _ P); now left).
      assert (In y (x :: l1)) as I2 by (apply (Permutation_in _ (Permutation_sym P)); now left).
      destruct I1 as [->|I1]; [reflexivity|]. destruct I2 as [->|I2]; [reflexivity|].
      specialize (F1 y I2). specialize (F2 x I1). lia. }
    f_equal. apply IH; auto. now apply Permutation_cons_inv in P.
Qed.
Lemma sort_good_unique (l s : list Z) : StronglySorted Z.le s -> Permutation l s -> sort_good l = s.
Proof. intros S P. apply sorted_perm_eq; [apply sort_good_sorted|exact S|]. rewrite <- P. symmetry. apply sort_good_perm. Qed.
Lemma sorted_snoc (r : list Z) z : StronglySorted Z.le r -> (forall y, In y r -> y <= z) -> StronglySorted Z.le (r ++ [z]).
Proof.
  induction r as [|a r IH]; simpl; intros S B; [repeat constructor|]. inversion S as [|? ? Sr Fa]; subst. constructor.
  - apply IH; [exact Sr|intros y Hy; apply B; now right].
  - rewrite Forall_forall in *. intros y Hy. apply in_app_or in Hy as [Hy|[<-|[]]]; [now apply Fa|]. apply B. now left.
Qed.
Lemma sorted_rev_opp (s : list Z) : StronglySorted Z.le s -> StronglySorted Z.le (rev (map Z.opp s)).
Proof.
  induction s as [|x s IH]; simpl; intros S; [constructor|]. inversion S as [|? ? S' F]; subst. rewrite Forall_forall in F.
  apply sorted_snoc; [now apply IH|]. intros y Hy. apply in_rev, in_map_iff in Hy as (z & <- & Hz). specialize (F z Hz). lia.
Qed.
Lemma sorted_skipn (s : list Z) : forall c, StronglySorted Z.le s -> StronglySorted Z.le (skipn c s).
Proof.
  induction s as [|x s IH]; intros [|c] S; simpl; auto. inversion S; subst. now apply IH.
Qed.
Lemma firstn_incl (s : list Z) : forall c y, In y (firstn c s) -> In y s.
Proof. induction s as [|z s IH]; intros [|c] y; simpl; try tauto. intros [->|H]; auto. right. eapply IH; eauto. Qed.
Lemma sorted_firstn (s : list Z) : forall c, StronglySorted Z.le s -> StronglySorted Z.le (firstn c s).
Proof.
  induction s as [|x s IH]; intros [|c] S; simpl; try constructor.
  - inversion S; subst. now apply IH.
  - inversion S as [|? ? S' F]; subst. rewrite Forall_forall in *. intros y Hy. apply F. eapply firstn_incl; eauto.
Qed.
Lemma map_good_false l : map (good false) l = l.
Proof. rewrite <- (map_id l) at 2. apply map_ext. reflexivity. Qed.

(* as a multiset of goodness values, top-k is exactly the k best, whatever the direction and the argsort's tie order *)
Theorem topk_is_k_best mx k fs order : is_argsort fs order ->
  sort_good (map (good mx) (topk mx k fs order)) = firstn k (sort_good (map (good mx) fs)).
Proof.
  intros A. pose proof (argsort_perm fs order A) as P. pose proof (argsort_length fs order A) as L. destruct A as (_ & S).
  set (s := map (at_ fs) order) in *. assert (length s = length fs) as Ls by (unfold s; now rewrite map_length).
  unfold topk, topk_idx. destruct mx.
  - rewrite <- skipn_map. fold s. change (map (good true)) with (map Z.opp).
    assert (sort_good (map Z.opp fs) = rev (map Z.opp s)) as ->.
    { apply sort_good_unique; [now apply sorted_rev_opp|]. rewrite <- Permutation_rev. now apply Permutation_map. }
    rewrite firstn_rev, map_length, Ls, skipn_map.
    apply sort_good_unique; [apply sorted_rev_opp; now apply sorted_skipn|apply Permutation_rev].
  - rewrite <- firstn_map. fold s. rewrite !map_good_false.
    rewrite (sort_good_unique fs s S P). apply sort_good_unique; [now apply sorted_firstn|reflexivity].
Qed.
Theorem topk_mirror k fs o1 o2 : is_argsort fs o1 -> is_argsort (neg fs) o2 ->
  Permutation (neg (topk true k fs o1)) (topk false k (neg fs) o2).
Proof.
  intros A1 A2. pose proof (topk_is_k_best true k fs o1 A1) as E1. pose proof (topk_is_k_best false k (neg fs) o2 A2) as E2.
  change (map (good true)) with neg in E1. rewrite !map_good_false in E2. unfold neg in E2 at 2. fold (neg fs) in E2. rewrite <- E1 in E2.
  rewrite (sort_good_perm (neg (topk true k fs o1))), (sort_good_perm (topk false k (neg fs) o2)). now rewrite E2.
Qed.

(* growing a collection (any order) never makes its best worse *)
Theorem best_incl_monotone mx ks ks' b b' : incl ks ks' -> best_of mx ks = Some b -> best_of mx ks' = Some b' -> better mx b b' = false.
Proof. intros Hi H H'. destruct (best_of_spec mx ks b H) as (I & _). destruct (best_of_spec mx ks' b' H') as (_ & N). now apply N, Hi. Qed.

(* MWEA: with k >= 1 winners per election the repeated selection always delivers exactly the population size *)
Theorem mwea_keeps_size size k : (1 <= k)%nat -> mwea_size size k = size.
Proof.
  intros Hk. unfold mwea_size, mwea_elections. pose proof (Nat.div_mod size k ltac:(lia)) as D. pose proof (Nat.mod_upper_bound size k ltac:(lia)) as M.
  destruct (Nat.ltb_spec size ((size / k + 1) * k)) as [_|H]; [reflexivity|]. exfalso. nia.
Qed.
