(* Proofs/GenEquivFar.v — FarEnough / NBC_FarEnough TRANSLATED from the current pyhms/sprout/sprout_filters.py (Gen/GenFar.v) = the model far_filter per parent *)
From Coq Require Import List Bool Arith ZArith Lia Permutation.
From HV Require Import Ord ListX Sprout SproutFacts FilterFacts Tree TreeLemmas DriverPrim SproutPrim DriverFacts GenEquivDriver GenEquivStops FilterDict.
Import ListNotations.

From HV Require Import GenFar Far FarFacts.

(* ---------------------------------------------------------------- FarEnough / NBC_FarEnough (distances are oracles) *)
Lemma update_keysK (f : nat -> list Z -> list Z) : forall todo cm, NoDup todo -> NoDup (cm_keys cm) ->
  fold_left (fun acc d => cm_set acc d (f d (cm_get acc d))) todo cm =
  map (fun pk => (fst pk, if memb (fst pk) todo then f (fst pk) (snd pk) else snd pk)) cm.
Proof.
  induction todo as [|d todo IH]; intros cm Nt Nc.
  - cbn. rewrite <- (map_id cm) at 1. apply map_ext. now intros [].
  - inversion Nt as [|? ? Nd Nt']; subst. cbn [fold_left].
    assert (E1 : cm_set cm d (f d (cm_get cm d)) = map (fun pk => (fst pk, (fun k v => if Nat.eqb k d then f k v else v) (fst pk) (snd pk))) cm).
    { unfold cm_set. apply map_ext_in. intros pk Hpk. destruct (Nat.eqb_spec (fst pk) d) as [<-|_]; [|now destruct pk].
      now rewrite (cm_get_in cm pk Nc Hpk). }
    rewrite E1, IH; [|exact Nt'|unfold cm_keys in *; rewrite map_map; exact Nc]. rewrite map_map. apply map_ext. intros pk. cbn [fst snd memb existsb].
    rewrite (Nat.eqb_sym (fst pk) d). destruct (Nat.eqb_spec d (fst pk)) as [<-|_]; cbn [orb]; [|reflexivity].
    assert (M : memb d todo = false).
    { destruct (memb d todo) eqn:M; [|reflexivity]. apply existsb_exists in M as (x & Hx & Ex). apply Nat.eqb_eq in Ex. subst. contradiction. }
    now rewrite M.
Qed.
Lemma all_keys_memb cm pk : In pk cm -> memb (fst pk) (cm_keys cm) = true.
Proof. intros H. apply existsb_exists. exists (fst pk). split; [now apply in_map|apply Nat.eqb_refl]. Qed.

Section DistanceFilters.
  Variables (dist : Z -> nat -> Z) (has_centroid : nat -> bool) (nbc_thr : nat -> Z).
  Definition act_of (ds : list deme) (sib : nat) : bool := d_active (dnth sib ds).

  (* FarEnough: per parent, the model far_filter against the ACTIVE demes of the level below, current state *)
  Theorem FarEnough_ok c fuel thr cm s : NoDup (cm_keys cm) ->
    answers (gen_FarEnough dist c fuel thr cm) s
            (map (fun pk => (fst pk, far_filter dist (act_of (demes (ms s))) true thr (level_ids (demes (ms s)) (lvl_at (demes (ms s)) (fst pk) + 1)) (snd pk))) cm).
  Proof.
    intros N evs. unfold gen_FarEnough, returned. dunf.
    rewrite (forl_pure (fun acc d m => cm_set acc d (far_filter dist (act_of (demes m)) true thr (level_ids (demes m) (lvl_at (demes m) d + 1)) (cm_get acc d)))).
    - rewrite (update_keysK (fun d v => far_filter dist (act_of (demes (ms s))) true thr (level_ids (demes (ms s)) (lvl_at (demes (ms s)) d + 1)) v) (cm_keys cm) cm N N).
      cbn beta iota. f_equal. f_equal. f_equal. apply map_ext_in. intros pk Hpk. now rewrite (all_keys_memb cm pk Hpk).
    - intros acc d s0 e0. unfold gen_FarEnough_forl1. dunf.
      rewrite (forl_fold (fun cs sib => filter (fun ind => Z.ltb thr (dist ind sib)) cs)).
      + cbn beta iota. f_equal. f_equal. f_equal. f_equal. unfold far_filter, far_enough, considered, act_of, lvl_at. f_equal.
        apply filter_ext. intros sib. now rewrite orb_false_r.
      + intros cs sib s1 e1. unfold gen_FarEnough_forl2. dunf. reflexivity.
  Qed.

  (* NBC_FarEnough: the threshold is per parent; a deme without a centroid rejects every candidate *)
  Definition dist_or (d : nat) (c0 : Z) (sib : nat) : Z := if has_centroid sib then dist c0 sib else nbc_thr d.
  Theorem NBC_FarEnough_ok c fuel only_active cm s : NoDup (cm_keys cm) ->
    answers (gen_NBC_FarEnough dist has_centroid nbc_thr c fuel only_active cm) s
            (map (fun pk => (fst pk, far_filter (dist_or (fst pk)) (act_of (demes (ms s))) only_active (nbc_thr (fst pk))
                                               (level_ids (demes (ms s)) (lvl_at (demes (ms s)) (fst pk) + 1)) (snd pk))) cm).
  Proof.
    intros N evs. unfold gen_NBC_FarEnough, returned. dunf.
    rewrite (forl_pure (fun acc d m => cm_set acc d (far_filter (dist_or d) (act_of (demes m)) only_active (nbc_thr d) (level_ids (demes m) (lvl_at (demes m) d + 1)) (cm_get acc d)))).
    - rewrite (update_keysK (fun d v => far_filter (dist_or d) (act_of (demes (ms s))) only_active (nbc_thr d) (level_ids (demes (ms s)) (lvl_at (demes (ms s)) d + 1)) v) (cm_keys cm) cm N N).
      cbn beta iota. f_equal. f_equal. f_equal. apply map_ext_in. intros pk Hpk. now rewrite (all_keys_memb cm pk Hpk).
    - intros acc d s0 e0. unfold gen_NBC_FarEnough_forl1. dunf.
      rewrite (forl_fold (fun cs sib => filter (fun ind => has_centroid sib && Z.ltb (nbc_thr d) (dist ind sib)) cs)).
      + cbn beta iota. f_equal. f_equal. f_equal. f_equal. unfold far_filter, far_enough, considered, act_of, lvl_at.
        (* however the source writes "active, or all demes are to be considered" *)
        repeat match goal with
               | |- context [filter ?p (level_ids ?dd ?ll)] =>
                   lazymatch p with
                   | (fun s1 => d_active (dnth s1 _) || negb only_active) => fail
                   | _ => rewrite (filter_ext p (fun s1 => d_active (dnth s1 (demes (ms s0))) || negb only_active))
                            by (intros x; destruct (d_active (dnth x (demes (ms s0)))), only_active; reflexivity)
                   end
               end.
        generalize (cm_get acc d). generalize (filter (fun s1 => d_active (dnth s1 (demes (ms s0))) || negb only_active) (level_ids (demes (ms s0)) (d_lvl (dnth d (demes (ms s0))) + 1))).
        intros sibs. induction sibs as [|sib r IH]; intros cs; [reflexivity|]. cbn [fold_left]. rewrite <- IH. f_equal.
        apply filter_ext. intros ind. unfold dist_or. destruct (has_centroid sib); cbn [andb]; [reflexivity|now rewrite Z.ltb_irrefl].
      + intros cs sib s1 e1. unfold gen_NBC_FarEnough_forl2. dunf. reflexivity.
  Qed.
End DistanceFilters.

(* what C09 states, read off the translated FarEnough: whatever it lets through is strictly farther than the threshold from the (current)
   centroid of every ACTIVE deme on the level below its parent *)
Theorem FarEnough_sound (dist : Z -> nat -> Z) c fuel thr cm s out p ks k sib :
  NoDup (cm_keys cm) -> (forall evs, gen_FarEnough dist c fuel thr cm s evs = Some (out, s, evs)) -> In (p, ks) out -> In k ks ->
  In sib (level_ids (demes (ms s)) (lvl_at (demes (ms s)) p + 1)) -> d_active (dnth sib (demes (ms s))) = true -> (thr < dist k sib)%Z.
Proof.
  intros N H Hin Hk Hs Ha. pose proof (FarEnough_ok dist c fuel thr cm s N []) as E. rewrite (H []) in E. injection E as ->.
  apply in_map_iff in Hin as (pk & E & _). injection E as <- <-.
  apply (far_filter_spec dist (act_of (demes (ms s))) true thr _ (snd pk) k) in Hk as (_ & B). apply (B sib Hs). now left.
Qed.
