(* Proofs/TreeInv.v — invariants of the HMS machine, for every accepted event sequence (any configuration, any number
   of metaepochs, demes, generations; all verdict / evaluation-count / candidate streams). *)
From Coq Require Import List Bool Arith ZArith Lia.
From HV Require Import Ord ListX Sprout Tree TreeLemmas.
Import ListNotations.

(* ---- projections of the state builders ---- *)
Lemma begin_deme_fields c t s :
  demes (begin_deme c t s) = demes s /\ mcount (begin_deme c t s) = mcount s /\ seen (begin_deme c t s) = seen s /\
  steps (begin_deme c t s) = steps s /\ clock (begin_deme c t s) = clock s /\ born_after_seen (begin_deme c t s) = born_after_seen s /\
  last_round (begin_deme c t s) = last_round s.
Proof. unfold begin_deme. destruct t; simpl; auto 10. Qed.
Lemma begin_deme_pc c t s :
  pc (begin_deme c t s) = match t with [] => PStepGsc | d :: t' => PDeme t' d 0 (first_sub (kind_of c (d_lvl (dnth d (demes s))))) end.
Proof. unfold begin_deme. destruct t; reflexivity. Qed.

Ltac bd := repeat match goal with
  | |- context [demes (begin_deme ?c ?t ?s)] => rewrite (proj1 (begin_deme_fields c t s))
  | |- context [mcount (begin_deme ?c ?t ?s)] => rewrite (proj1 (proj2 (begin_deme_fields c t s)))
  | |- context [seen (begin_deme ?c ?t ?s)] => rewrite (proj1 (proj2 (proj2 (begin_deme_fields c t s))))
  | |- context [steps (begin_deme ?c ?t ?s)] => rewrite (proj1 (proj2 (proj2 (proj2 (begin_deme_fields c t s)))))
  | |- context [clock (begin_deme ?c ?t ?s)] => rewrite (proj1 (proj2 (proj2 (proj2 (proj2 (begin_deme_fields c t s))))))
  | |- context [born_after_seen (begin_deme ?c ?t ?s)] => rewrite (proj1 (proj2 (proj2 (proj2 (proj2 (proj2 (begin_deme_fields c t s)))))))
  | |- context [last_round (begin_deme ?c ?t ?s)] => rewrite (proj2 (proj2 (proj2 (proj2 (proj2 (proj2 (begin_deme_fields c t s)))))))
  | |- context [pc (begin_deme ?c ?t ?s)] => rewrite (begin_deme_pc c t s)
  end; unfold finish, set_pc, set_demes, with_state in *; cbn [demes mcount pc seen steps clock born_after_seen last_round] in *.

(* case analysis of one accepted step: leaves one goal per branch of [step] with s' explicit *)
Ltac step_cases H :=
  unfold step in H; cbv zeta in H;
  repeat match type of H with
  | match ?x with _ => _ end = Some _ => destruct x eqn:?; try discriminate H
  | (if ?b then _ else _) = Some _ => destruct b eqn:?; try discriminate H
  end;
  try (injection H as <-); bd.

(* ================================================================ sprouting facts *)
Lemma sprout_one_length par lvl m ks inits ds : length (fst (sprout_one par lvl m ks inits ds)) = length ds + length ks.
Proof. revert inits ds; induction ks as [|k ks IH]; intros inits ds; simpl; [lia|]. rewrite IH, app_length. simpl. lia. Qed.
Lemma sprout_one_prefix par lvl m ks inits ds i : i < length ds -> dnth i (fst (sprout_one par lvl m ks inits ds)) = dnth i ds.
Proof.
  revert inits ds; induction ks as [|k ks IH]; intros inits ds Hi; simpl; [reflexivity|].
  rewrite IH by (rewrite app_length; simpl; lia). now apply dnth_app_l.
Qed.
Lemma sprout_one_new par lvl m ks inits ds i :
  length ds <= i < length ds + length ks ->
  let d := dnth i (fst (sprout_one par lvl m ks inits ds)) in
  d_lvl d = lvl /\ d_par d = Some par /\ d_started d = m /\ d_active d = true /\ d_hib d = false /\ d_meta d = 0 /\
  d_meta0 d = 0 /\ d_should d = false /\ d_after d = 0.
Proof.
  revert inits ds; induction ks as [|k ks IH]; intros inits ds Hi; simpl in *; [lia|].
  destruct (Nat.eq_dec i (length ds)) as [->|N].
  - rewrite sprout_one_prefix by (rewrite app_length; simpl; lia). rewrite dnth_app_r. simpl. auto 10.
  - apply IH. rewrite app_length. simpl. lia.
Qed.
Lemma sprout_one_evals par lvl m ks inits ds :
  length ks <= length inits ->
  total_evals (fst (sprout_one par lvl m ks inits ds)) + fold_right Nat.add 0 (snd (sprout_one par lvl m ks inits ds))
  = total_evals ds + fold_right Nat.add 0 inits /\ length (snd (sprout_one par lvl m ks inits ds)) = length inits - length ks.
Proof.
  revert inits ds; induction ks as [|k ks IH]; intros inits ds H; simpl in *; [split; lia|].
  destruct inits as [|n inits]; simpl in *; [lia|]. destruct (IH inits (ds ++ [new_deme lvl par m n])) as [E1 E2]; [lia|].
  rewrite E1, E2, total_evals_app. simpl. split; lia.
Qed.

Lemma do_sprout_length m seeds inits lvl_of ds : length (do_sprout m seeds inits lvl_of ds) = length ds + total_seeds seeds.
Proof.
  revert inits ds; induction seeds as [|[p ks] r IH]; intros inits ds; simpl; [lia|].
  destruct (sprout_one p (S (lvl_of p)) m ks inits ds) as [ds' inits'] eqn:E. rewrite IH.
  pose proof (sprout_one_length p (S (lvl_of p)) m ks inits ds) as L. rewrite E in L. simpl in L. lia.
Qed.
Lemma do_sprout_prefix m seeds inits lvl_of ds i : i < length ds -> dnth i (do_sprout m seeds inits lvl_of ds) = dnth i ds.
Proof.
  revert inits ds; induction seeds as [|[p ks] r IH]; intros inits ds Hi; simpl; [reflexivity|].
  destruct (sprout_one p (S (lvl_of p)) m ks inits ds) as [ds' inits'] eqn:E.
  pose proof (sprout_one_length p (S (lvl_of p)) m ks inits ds) as L. rewrite E in L. simpl in L.
  rewrite IH by lia. pose proof (sprout_one_prefix p (S (lvl_of p)) m ks inits ds i Hi) as P. now rewrite E in P.
Qed.
Lemma do_sprout_evals m seeds inits lvl_of ds :
  total_seeds seeds <= length inits ->
  total_evals (do_sprout m seeds inits lvl_of ds) = total_evals ds + fold_right Nat.add 0 (firstn (total_seeds seeds) inits).
Proof.
  revert inits ds; induction seeds as [|[p ks] r IH]; intros inits ds H; simpl in *; [lia|].
  destruct (sprout_one p (S (lvl_of p)) m ks inits ds) as [ds' inits'] eqn:E.
  destruct (sprout_one_evals p (S (lvl_of p)) m ks inits ds) as [E1 E2]; [lia|]. rewrite E in E1, E2. simpl in E1, E2.
  rewrite IH by lia.
  assert (inits' = skipn (length ks) inits) as ->.
  { clear -E. revert inits ds E. induction ks as [|k ks IHk]; intros inits ds E; simpl in *; [now injection E as _ <-|].
    destruct inits as [|n inits]; simpl in *.
    - specialize (IHk [] _ E). now rewrite skipn_nil in IHk.
    - now apply IHk in E. }
  assert (fold_right Nat.add 0 inits = fold_right Nat.add 0 (firstn (length ks) inits) + fold_right Nat.add 0 (skipn (length ks) inits)) as S1.
  { rewrite <- (firstn_skipn (length ks) inits) at 1. rewrite fold_right_app. generalize (fold_right Nat.add 0 (skipn (length ks) inits)).
    induction (firstn (length ks) inits); simpl; intros; [lia|]. rewrite IHl. lia. }
  assert (firstn (length ks + total_seeds r) inits = firstn (length ks) inits ++ firstn (total_seeds r) (skipn (length ks) inits)) as ->.
  { rewrite <- (firstn_skipn (length ks) inits) at 1. rewrite firstn_app, firstn_length, firstn_firstn.
    replace (Init.Nat.min (length ks + total_seeds r) (length ks)) with (length ks) by lia.
    replace (length ks + total_seeds r - Init.Nat.min (length ks) (length inits)) with (total_seeds r) by lia. reflexivity. }
  rewrite fold_right_app.
  assert (forall a b, fold_right Nat.add b a = fold_right Nat.add 0 a + b) as FA.
  { intros a b. induction a; simpl; lia. }
  rewrite (FA (firstn (length ks) inits)). lia.
Qed.

Lemma set_hibs_length i parts seeds ds : length (set_hibs i parts seeds ds) = length ds.
Proof. revert i; induction ds; intros i; simpl; auto. Qed.
Lemma set_hibs_dnth i parts seeds ds j : j < length ds ->
  dnth j (set_hibs i parts seeds ds) = if existsb (Nat.eqb (i + j)) parts then set_hib (negb (has_seeds seeds (i + j))) (dnth j ds) else dnth j ds.
Proof.
  revert i j; induction ds as [|d r IH]; intros i [|j] H; simpl in *; try lia.
  - now rewrite Nat.add_0_r.
  - change (dnth j (set_hibs (S i) parts seeds r) = if existsb (Nat.eqb (i + S j)) parts then set_hib (negb (has_seeds seeds (i + S j))) (dnth j r) else dnth j r).
    rewrite IH by lia. now replace (S i + j) with (i + S j) by lia.
Qed.
Lemma total_evals_set_hibs i parts seeds ds : total_evals (set_hibs i parts seeds ds) = total_evals ds.
Proof. revert i; induction ds as [|d r IH]; intros i; simpl; auto. rewrite IH. destruct (existsb _ parts); reflexivity. Qed.

(* ================================================================ Inv0: the control point is well-formed *)
Definition okd (c : cfg) (l : list deme) (x : nat) : Prop :=
  x < length l /\ d_active (dnth x l) = true /\ d_should (dnth x l) = true /\ (hib_on c = true -> d_hib (dnth x l) = false).
Definition PcOK (c : cfg) (s : st) : Prop :=
  match pc s with
  | PDeme t d g sub => NoDup (d :: t) /\ Forall (okd c (demes s)) (d :: t)
  | PSprout => seen s = false
  | _ => True
  end.

Definition keeps_ctl (f : deme -> deme) : Prop :=
  forall d, d_active (f d) = d_active d /\ d_should (f d) = d_should d /\ d_hib (f d) = d_hib d.
Lemma keeps_add n k : keeps_ctl (add_evals n k). Proof. intros d; simpl; auto. Qed.
Lemma keeps_append : keeps_ctl append_meta. Proof. intros d; simpl; auto. Qed.
Lemma keeps_comp f g : keeps_ctl f -> keeps_ctl g -> keeps_ctl (fun d => f (g d)).
Proof. intros Hf Hg d. destruct (Hf (g d)) as (-> & -> & ->). apply Hg. Qed.

Lemma okd_upd_keep c l i f x : keeps_ctl f -> okd c l x -> okd c (upd i f l) x.
Proof.
  intros Hf (H1 & H2 & H3 & H4). unfold okd. rewrite upd_length, dnth_upd.
  destruct (Nat.eqb i x && (i <? length l)); [destruct (Hf (dnth x l)) as (-> & -> & ->)|]; auto.
Qed.
Lemma okd_upd_other c l i f x : i <> x -> okd c l x -> okd c (upd i f l) x.
Proof. intros N (H1 & H2 & H3 & H4). unfold okd. rewrite upd_length, dnth_upd_other; auto. Qed.
Lemma Forall_okd_keep c l i f t : keeps_ctl f -> Forall (okd c l) t -> Forall (okd c (upd i f l)) t.
Proof. intros Hf. apply Forall_impl. intros x. now apply okd_upd_keep. Qed.
Lemma Forall_okd_other c l i f t : ~ In i t -> Forall (okd c l) t -> Forall (okd c (upd i f l)) t.
Proof.
  intros Hn H. rewrite Forall_forall in *. intros x Hx. apply okd_upd_other; [|now apply H]. intros ->. contradiction.
Qed.

Lemma PcOK_begin c t s : NoDup t -> Forall (okd c (demes s)) t -> PcOK c (begin_deme c t s).
Proof. intros Hn Hf. unfold PcOK. rewrite begin_deme_pc. destruct t as [|n t]; [exact Logic.I|]. rewrite (proj1 (begin_deme_fields c (n :: t) s)). split; assumption. Qed.

Lemma okd_mark c l x : x < length l -> d_should (dnth x (map (mark_step (hib_on c)) l)) = true -> okd c (map (mark_step (hib_on c)) l) x.
Proof.
  intros Hx. unfold okd. rewrite map_length, dnth_map by assumption. simpl. intros E.
  apply andb_prop in E as (E1 & E2). repeat split; auto.
  - now rewrite E1, E2.
  - intros Hh. rewrite Hh in E2. simpl in E2. now destruct (d_hib (dnth x l)).
Qed.

Ltac kind_cases := repeat match goal with
  | |- context [match kind_of ?c ?l with _ => _ end] => destruct (kind_of c l) eqn:?
  end.

(* the sprouting branch: name the seeds, split the acceptance condition *)
Ltac sprout_abs :=
  match goal with Hb : context [mask_cmap ?x ?post] |- _ => set (seeds := mask_cmap x post) in * end;
  match goal with Hb : (_ || _ || _)%bool = false |- _ =>
    apply orb_false_elim in Hb as (Hb1 & Hseeds); apply orb_false_elim in Hb1 as (Hvalid & Hpost);
    apply negb_false_iff in Hvalid; apply negb_false_iff, Nat.eqb_eq in Hpost; apply negb_false_iff, Nat.eqb_eq in Hseeds end.

Lemma PcOK_step c s e s' : PcOK c s -> step c s e = Some s' -> PcOK c s'.
Proof.
  intros I H. unfold PcOK in I. step_cases H; try exact Logic.I.
  all: try (destruct I as (Hn & Hf); inversion Hn as [|? ? Hni Hnt]; subst; inversion Hf as [|? ? Hd Ht]; subst).
  all: try (apply PcOK_begin; [assumption|]; cbn [demes]).
  (* PMain, false: start of a metaepoch *)
  1: { apply PcOK_begin; cbn [demes].
       - apply NoDup_rev, level_order_NoDup.
       - rewrite Forall_forall. intros x Hx. apply in_rev in Hx. apply level_order_spec in Hx as (H1 & _ & H3).
         rewrite map_length in H1. now apply okd_mark. }
  all: kind_cases.
  all: unfold PcOK; cbn [pc demes seen].
  all: try (split; [assumption|]).
  all: repeat (first [ apply Forall_okd_other; [assumption|]
                     | apply Forall_okd_keep; [first [apply keeps_append | apply keeps_add]|] ]).
  all: try assumption.
  all: try (constructor; assumption).
  (* PStepGsc -> PSprout: the consult returned false, hence nothing had been seen *)
  match goal with Hb : (_ || _)%bool = false |- _ => apply orb_false_elim in Hb as (_ & Hc) end.
  destruct v; [exact Logic.I|]. simpl in Hc. rewrite andb_true_r in Hc. now rewrite Hc.
Qed.

(* ================================================================ Inv1 (C03): the tree's total is the sum over its demes and equals the clock *)
Definition CNT (s : st) : Prop := total_evals (demes s) = clock s.

Lemma ev_append d : d_evals (append_meta d) = d_evals d. Proof. reflexivity. Qed.
Lemma ev_deact d : d_evals (deactivate d) = d_evals d. Proof. reflexivity. Qed.
Lemma ev_mark h d : d_evals (mark_step h d) = d_evals d. Proof. reflexivity. Qed.

Lemma CNT_step c s e s' : PcOK c s -> CNT s -> step c s e = Some s' -> CNT s'.
Proof.
  intros P I H. unfold CNT in *. unfold PcOK in P. step_cases H; kind_cases; bd; cbn [demes clock]; auto.
  all: try (destruct P as (_ & Pf); inversion Pf as [|? ? (Hd & _) _]; subst).
  all: rewrite ?(total_evals_upd_same _ deactivate), ?(total_evals_upd_same _ append_meta), ?total_evals_upd_add,
               ?(total_evals_map (mark_step _)) by (assumption || reflexivity); auto; try lia.
  (* sprouting *)
  sprout_abs. destruct (hib_on c); rewrite ?total_evals_set_hibs, do_sprout_evals by lia; rewrite <- Hseeds, firstn_all; lia.
Qed.

(* ================================================================ structure-preserving updates *)
Definition same_struct (l l' : list deme) : Prop :=
  length l' = length l /\ forall i, d_lvl (dnth i l') = d_lvl (dnth i l) /\ d_par (dnth i l') = d_par (dnth i l) /\ d_started (dnth i l') = d_started (dnth i l).
Definition keeps_struct (f : deme -> deme) : Prop := forall d, d_lvl (f d) = d_lvl d /\ d_par (f d) = d_par d /\ d_started (f d) = d_started d.
Lemma ks_add n k : keeps_struct (add_evals n k). Proof. intros d; simpl; auto. Qed.
Lemma ks_append : keeps_struct append_meta. Proof. intros d; simpl; auto. Qed.
Lemma ks_deact : keeps_struct deactivate. Proof. intros d; simpl; auto. Qed.
Lemma ks_mark h : keeps_struct (mark_step h). Proof. intros d; simpl; auto. Qed.
Lemma ks_hib b : keeps_struct (set_hib b). Proof. intros d; simpl; auto. Qed.
Lemma same_struct_refl l : same_struct l l. Proof. split; auto. Qed.
Lemma same_struct_trans l1 l2 l3 : same_struct l1 l2 -> same_struct l2 l3 -> same_struct l1 l3.
Proof. intros (L1 & H1) (L2 & H2). split; [lia|]. intros i. destruct (H1 i) as (A & B & C), (H2 i) as (A' & B' & C'). repeat split; congruence. Qed.
Lemma same_struct_upd i f l : keeps_struct f -> same_struct l (upd i f l).
Proof.
  intros Hf. split; [apply upd_length|]. intros j. rewrite dnth_upd.
  destruct (Nat.eqb i j && (i <? length l)); [apply Hf|auto].
Qed.
Lemma same_struct_map f l : keeps_struct f -> same_struct l (map f l).
Proof.
  intros Hf. split; [apply map_length|]. intros j. destruct (Nat.ltb_spec j (length l)) as [Hj|Hj].
  - rewrite dnth_map by assumption. apply Hf.
  - unfold dnth. rewrite !nth_overflow; rewrite ?map_length; auto.
Qed.
Lemma same_struct_set_hibs parts seeds l : same_struct l (set_hibs 0 parts seeds l).
Proof.
  split; [apply set_hibs_length|]. intros j. destruct (Nat.ltb_spec j (length l)) as [Hj|Hj].
  - rewrite set_hibs_dnth by assumption. destruct (existsb _ parts); [apply ks_hib|auto].
  - unfold dnth. rewrite !nth_overflow; rewrite ?set_hibs_length; auto.
Qed.
#[global] Hint Resolve same_struct_refl same_struct_upd same_struct_map same_struct_set_hibs ks_add ks_append ks_deact ks_mark ks_hib : tree.
Ltac struct_tac := solve [repeat first [ apply same_struct_refl | eapply same_struct_trans; [|apply same_struct_upd; auto with tree] | apply same_struct_upd; auto with tree
                                | apply same_struct_map; auto with tree ]].

(* what _do_sprout creates *)
Lemma do_sprout_new m seeds inits lvl_of ds i :
  length ds <= i < length ds + total_seeds seeds ->
  exists p, In p (map fst seeds) /\
    let d := dnth i (do_sprout m seeds inits lvl_of ds) in
    d_lvl d = S (lvl_of p) /\ d_par d = Some p /\ d_started d = m /\ d_active d = true /\ d_hib d = false /\ d_meta d = 0 /\
    d_meta0 d = 0 /\ d_should d = false /\ d_after d = 0.
Proof.
  revert inits ds; induction seeds as [|[p ks] r IH]; intros inits ds Hi; simpl in *; [lia|].
  destruct (sprout_one p (S (lvl_of p)) m ks inits ds) as [ds' inits'] eqn:E.
  pose proof (sprout_one_length p (S (lvl_of p)) m ks inits ds) as L. rewrite E in L. simpl in L.
  destruct (Nat.ltb_spec i (length ds + length ks)) as [Hlt|Hge].
  - exists p. split; [now left|]. rewrite do_sprout_prefix by lia.
    pose proof (sprout_one_new p (S (lvl_of p)) m ks inits ds i (conj (proj1 Hi) Hlt)) as N. now rewrite E in N.
  - destruct (IH inits' ds') as (q & Hq & Hd); [lia|]. exists q. split; [now right|assumption].
Qed.

Lemma level_limit_fst mx L lvl_of act c : map fst (level_limit mx L lvl_of act c) = map fst c.
Proof. unfold level_limit. rewrite map_map. reflexivity. Qed.
Lemma mask_cmap_fst_in c ms p : In p (map fst (mask_cmap c ms)) -> In p (map fst c).
Proof. revert ms; induction c as [|[q ks] c IH]; intros [|m ms]; simpl; auto; try tauto. intros [->|H]; auto. right. eauto. Qed.
Lemma seeds_parent_valid c ds (cands : cmap) p : seeds_valid c ds cands = true -> In p (map fst cands) ->
  p < length ds /\ S (d_lvl (dnth p ds)) < height c.
Proof.
  unfold seeds_valid. rewrite forallb_forall. intros H Hin. apply in_map_iff in Hin as (pk & <- & Hpk).
  specialize (H pk Hpk). apply andb_prop in H as (H12 & H3). apply andb_prop in H12 as (H1 & H2). apply Nat.ltb_lt in H1, H2. auto.
Qed.
Lemma seeds_parent_ran c ds (cands : cmap) p : seeds_valid c ds cands = true -> In p (map fst cands) -> 1 <= d_meta (dnth p ds).
Proof.
  unfold seeds_valid. rewrite forallb_forall. intros H Hin. apply in_map_iff in Hin as (pk & <- & Hpk).
  specialize (H pk Hpk). apply andb_prop in H as (_ & H3). now apply Nat.leb_le in H3.
Qed.

(* ================================================================ Inv2 (C07): the demes form a well-formed tree of the configured height *)
Definition WFT (c : cfg) (s : st) : Prop :=
  1 <= length (demes s) /\
  forall i, i < length (demes s) ->
    let d := dnth i (demes s) in
    d_lvl d < height c /\ d_started d <= mcount s /\
    match d_par d with
    | None => i = 0 /\ d_lvl d = 0
    | Some p => 0 < i /\ p < i /\ d_lvl d = S (d_lvl (dnth p (demes s))) /\ d_started (dnth p (demes s)) <= d_started d
    end.

Lemma WFT_same c s s' : WFT c s -> same_struct (demes s) (demes s') -> mcount s <= mcount s' -> WFT c s'.
Proof.
  intros (L & H) (EL & ES) Hm. split; [lia|]. intros i Hi. rewrite EL in Hi. specialize (H i Hi). cbv zeta in *.
  destruct (ES i) as (-> & -> & ->). destruct H as (H1 & H2 & H3). split; [assumption|]. split; [lia|].
  destruct (d_par (dnth i (demes s))) as [p|]; auto. destruct (ES p) as (-> & _ & ->). assumption.
Qed.

Lemma WFT_init c n : 1 <= height c -> WFT c (init n).
Proof. intros H. split; simpl; [lia|]. intros [|i] Hi; [|lia]. simpl. repeat split; lia. Qed.

Lemma WFT_step c s e s' : WFT c s -> step c s e = Some s' -> WFT c s'.
Proof.
  intros I H. step_cases H; kind_cases; bd.
  all: try solve [eapply WFT_same; [exact I| bd; cbn [demes]; struct_tac | bd; cbn [mcount]; lia]].
  (* sprouting *)
  sprout_abs.
  set (ds1 := do_sprout (mcount s) seeds inits (fun i => d_lvl (dnth i (demes s))) (demes s)).
  assert (WFT c (with_state s (mcount s) ds1 PMain (seen s) (steps s) (clock s) (born_after_seen s) (last_round s))) as W1.
  { destruct I as (L & HI). unfold WFT, with_state. cbn [demes mcount]. subst ds1. rewrite do_sprout_length. split; [lia|].
    intros i Hi. destruct (Nat.ltb_spec i (length (demes s))) as [Hold|Hnew].
    - rewrite do_sprout_prefix by assumption. specialize (HI i Hold). cbv zeta in HI. destruct HI as (H1 & H2 & H3).
      split; [assumption|]. split; [assumption|]. destruct (d_par (dnth i (demes s))) as [p|]; auto.
      rewrite do_sprout_prefix by lia. assumption.
    - destruct (do_sprout_new (mcount s) seeds inits (fun i => d_lvl (dnth i (demes s))) (demes s) i) as (p & Hp & Hd); [lia|].
      cbv zeta in Hd. destruct Hd as (E1 & E2 & E3 & _). rewrite E1, E2, E3.
      assert (In p (map fst cands)) as Hpc.
      { subst seeds. apply mask_cmap_fst_in in Hp. destruct (level_lim c); [now rewrite level_limit_fst in Hp|assumption]. }
      destruct (seeds_parent_valid _ _ _ _ Hvalid Hpc) as (Hp1 & Hp2).
      split; [assumption|]. split; [lia|]. rewrite do_sprout_prefix by assumption.
      destruct (HI p Hp1) as (_ & Hs & _). repeat split; try lia. }
  destruct (hib_on c); [|exact W1].
  eapply WFT_same; [exact W1| unfold with_state; cbn [demes]; apply same_struct_set_hibs | unfold with_state; cbn [mcount]; lia].
Qed.

(* ================================================================ Inv3 (C08): the level limit is never exceeded *)
From HV Require Import SproutFacts.
Definition LL (c : cfg) (s : st) : Prop := forall L, level_lim c = Some L -> forall lv, 1 <= lv -> active_at (demes s) lv <= L.

Definition no_activate (f : deme -> deme) : Prop := forall d, d_lvl (f d) = d_lvl d /\ (d_active (f d) = true -> d_active d = true).
Lemma na_add n k : no_activate (add_evals n k). Proof. intros d; simpl; auto. Qed.
Lemma na_append : no_activate append_meta. Proof. intros d; simpl; auto. Qed.
Lemma na_deact : no_activate deactivate. Proof. intros d; simpl; split; auto; discriminate. Qed.
Lemma active_at_upd_le i f l lv : no_activate f -> active_at (upd i f l) lv <= active_at l lv.
Proof.
  intros Hf. unfold active_at. apply count_upd_le. intros d H. destruct (Hf d) as (E & A). rewrite E in H.
  apply andb_prop in H as (H1 & H2). now rewrite H1, (A H2).
Qed.
Lemma active_at_mark h l lv : active_at (map (mark_step h) l) lv = active_at l lv.
Proof. unfold active_at. now apply count_map_eq. Qed.
Lemma count_set_hibs p i parts seeds l : (forall b d, p (set_hib b d) = p d) -> count p (set_hibs i parts seeds l) = count p l.
Proof.
  intros Hp. unfold count. revert i; induction l as [|d r IH]; intros i; simpl; auto.
  destruct (existsb _ parts); rewrite ?Hp; destruct (p d); simpl; now rewrite IH.
Qed.
Lemma active_at_set_hibs i parts seeds l lv : active_at (set_hibs i parts seeds l) lv = active_at l lv.
Proof. unfold active_at. now apply count_set_hibs. Qed.
Lemma active_at_sprout_one par lvl m ks inits ds lv :
  active_at (fst (sprout_one par lvl m ks inits ds)) lv = active_at ds lv + (if Nat.eqb lvl lv then length ks else 0).
Proof.
  revert inits ds; induction ks as [|k ks IH]; intros inits ds; simpl; [destruct (Nat.eqb lvl lv); lia|].
  rewrite IH. unfold active_at at 1. rewrite count_app. fold (active_at ds lv). unfold count. simpl.
  destruct (Nat.eqb lvl lv); simpl; lia.
Qed.
Lemma active_at_do_sprout m seeds inits lvl_of ds l :
  active_at (do_sprout m seeds inits lvl_of ds) (S l) = active_at ds (S l) + length (level_keys lvl_of l seeds).
Proof.
  revert inits ds; induction seeds as [|[p ks] r IH]; intros inits ds; simpl; [lia|].
  destruct (sprout_one p (S (lvl_of p)) m ks inits ds) as [ds' inits'] eqn:E. rewrite IH.
  pose proof (active_at_sprout_one p (S (lvl_of p)) m ks inits ds (S l)) as A. rewrite E in A. simpl fst in A. rewrite A.
  unfold level_keys. simpl. destruct (Nat.eqb (lvl_of p) l); rewrite ?app_length; simpl; lia.
Qed.

Lemma count_lvl_sprout_one par lvl m ks inits ds lv :
  count (fun d => Nat.eqb (d_lvl d) lv) (fst (sprout_one par lvl m ks inits ds))
  = count (fun d => Nat.eqb (d_lvl d) lv) ds + (if Nat.eqb lvl lv then length ks else 0).
Proof.
  revert inits ds; induction ks as [|k ks IH]; intros inits ds; simpl; [destruct (Nat.eqb lvl lv); lia|].
  rewrite IH, count_app. unfold count at 2. simpl. destruct (Nat.eqb lvl lv); simpl; lia.
Qed.
Lemma count_lvl_do_sprout m seeds inits lvl_of ds l :
  count (fun d => Nat.eqb (d_lvl d) (S l)) (do_sprout m seeds inits lvl_of ds)
  = count (fun d => Nat.eqb (d_lvl d) (S l)) ds + length (level_keys lvl_of l seeds).
Proof.
  revert inits ds; induction seeds as [|[p ks] r IH]; intros inits ds; simpl; [lia|].
  destruct (sprout_one p (S (lvl_of p)) m ks inits ds) as [ds' inits'] eqn:E. rewrite IH.
  pose proof (count_lvl_sprout_one p (S (lvl_of p)) m ks inits ds (S l)) as A. rewrite E in A. simpl fst in A. rewrite A.
  unfold level_keys. simpl. destruct (Nat.eqb (lvl_of p) l); rewrite ?app_length; simpl; lia.
Qed.

Lemma LL_init c n : LL c (init n).
Proof. intros L _ lv Hlv. unfold active_at, count. simpl. destruct lv; [lia|]. simpl. lia. Qed.

Lemma LL_step c s e s' : LL c s -> step c s e = Some s' -> LL c s'.
Proof.
  intros I H L HL lv Hlv. specialize (I L HL lv Hlv). unfold step in H. rewrite HL in H. step_cases H; kind_cases; bd; cbn [demes]; auto.
  all: try solve [ repeat (etransitivity; [apply active_at_upd_le; first [apply na_deact | apply na_append | apply na_add]|]); assumption ].
  - now rewrite active_at_mark.
  - (* sprouting *)
    sprout_abs. destruct lv as [|l]; [lia|].
    assert (active_at (do_sprout (mcount s) seeds inits (fun i => d_lvl (dnth i (demes s))) (demes s)) (S l) <= L) as B.
    { rewrite active_at_do_sprout. subst seeds.
      pose proof (level_keys_mask (fun i => d_lvl (dnth i (demes s))) l
                    (level_limit (maximize c) L (fun i => d_lvl (dnth i (demes s))) (active_at (demes s)) cands) post) as M.
      pose proof (level_limit_count (maximize c) L (fun i => d_lvl (dnth i (demes s))) (active_at (demes s)) cands l I) as C. lia. }
    destruct (hib_on c); [now rewrite active_at_set_hibs|assumption].
Qed.

(* a sprouting round never creates more demes on a level than the limit minus the demes active there *)
Lemma round_bound c s cands post inits s' L l :
  LL c s -> level_lim c = Some L -> step c s (ESprout cands post inits) = Some s' ->
  count (fun d => Nat.eqb (d_lvl d) (S l)) (demes s') - count (fun d => Nat.eqb (d_lvl d) (S l)) (demes s) <= L - active_at (demes s) (S l).
Proof.
  intros I HL H. specialize (I L HL (S l) ltac:(lia)). unfold step in H. rewrite HL in H. step_cases H; bd; cbn [demes].
  sprout_abs.
  assert (forall ds, count (fun d => Nat.eqb (d_lvl d) (S l)) (set_hibs 0 (ids (fun d : deme => d_active d && (S (d_lvl d) <? height c)) (demes s)) seeds ds)
                   = count (fun d => Nat.eqb (d_lvl d) (S l)) ds) as SH by (intros ds; now apply count_set_hibs).
  pose proof (count_lvl_do_sprout (mcount s) seeds inits (fun i => d_lvl (dnth i (demes s))) (demes s) l) as DS.
  subst seeds.
  pose proof (level_keys_mask (fun i => d_lvl (dnth i (demes s))) l
                (level_limit (maximize c) L (fun i => d_lvl (dnth i (demes s))) (active_at (demes s)) cands) post) as M.
  pose proof (level_limit_count (maximize c) L (fun i => d_lvl (dnth i (demes s))) (active_at (demes s)) cands l I) as C.
  destruct (hib_on c); rewrite ?SH, DS; lia.
Qed.

(* ================================================================ Inv4 (C06): stopping is final; an inactive deme is frozen *)
Definition frozen_rel (l l' : list deme) : Prop :=
  length l <= length l' /\
  forall i, i < length l -> d_active (dnth i l) = false ->
    d_active (dnth i l') = false /\ d_evals (dnth i l') = d_evals (dnth i l) /\ d_meta (dnth i l') = d_meta (dnth i l).

Lemma frozen_step c s e s' : PcOK c s -> step c s e = Some s' -> frozen_rel (demes s) (demes s').
Proof.
  intros P H. unfold PcOK in P. step_cases H; kind_cases; bd; cbn [demes].
  all: try (destruct P as (_ & Pf); inversion Pf as [|? ? (Hd & Ha & _) _]; subst).
  all: try solve [ split; [rewrite ?upd_length; lia|]; intros i Hi Hin; destruct (Nat.eq_dec i d) as [->|N];
                   [congruence | rewrite !dnth_upd_other by auto; auto] ].
  all: try solve [ split; [lia|]; auto ].
  - split; [rewrite map_length; lia|]. intros i Hi Hin. rewrite dnth_map by assumption. simpl. auto.
  - sprout_abs. assert (forall i, i < length (demes s) ->
        dnth i (do_sprout (mcount s) seeds inits (fun i => d_lvl (dnth i (demes s))) (demes s)) = dnth i (demes s)) as Pre
      by (intros; now apply do_sprout_prefix).
    destruct (hib_on c).
    + split; [rewrite set_hibs_length, do_sprout_length; lia|]. intros i Hi Hin.
      rewrite set_hibs_dnth by (rewrite do_sprout_length; lia). rewrite Pre by assumption.
      destruct (existsb _ _); simpl; auto.
    + split; [rewrite do_sprout_length; lia|]. intros i Hi Hin. rewrite Pre by assumption. auto.
Qed.

(* ================================================================ Inv5 (C06): every deme that was active and awake advances by exactly one metaepoch *)
Definition appended (k : dkind) (sub : dsub) : bool :=
  match k, sub with
  | KSampler, SGen => false | KSampler, _ => true
  | KPop, SLsc | KCma, SLsc | KCma, SCma2 => true
  | _, _ => false
  end.
Definition sub_ok (k : dkind) (sub : dsub) : bool :=
  match k, sub with
  | KLocal, SLocal => true | KLocal, _ => false
  | _, SLocal => false
  | KPop, (SCma | SCma2) | KSampler, (SCma | SCma2) => false
  | _, _ => true
  end.
Definition once_cur (c : cfg) (ds : list deme) (t : list nat) (d : nat) (sub : dsub) : Prop :=
  sub_ok (kind_of c (d_lvl (dnth d ds))) sub = true /\
  forall i, i < length ds ->
    (In i t -> d_meta (dnth i ds) = d_meta0 (dnth i ds)) /\
    (i = d -> d_meta (dnth i ds) = d_meta0 (dnth i ds) + b2n (appended (kind_of c (d_lvl (dnth i ds))) sub)) /\
    (~ In i t -> i <> d -> d_meta (dnth i ds) = d_meta0 (dnth i ds) + b2n (d_should (dnth i ds))).
Definition once_rest (ds : list deme) : Prop :=
  forall i, i < length ds -> d_meta (dnth i ds) = d_meta0 (dnth i ds) + b2n (d_should (dnth i ds)).
Definition ONCE (c : cfg) (s : st) : Prop :=
  match pc s with PDeme t d g sub => once_cur c (demes s) t d sub | _ => once_rest (demes s) end.

(* the running deme finished (its record now says meta = meta0 + 1) : the next one starts *)
Lemma once_finish c ds ds' t d sub s :
  NoDup (d :: t) -> Forall (okd c ds) (d :: t) -> once_cur c ds t d sub ->
  length ds' = length ds -> (forall i, i <> d -> dnth i ds' = dnth i ds) ->
  d_meta (dnth d ds') = d_meta0 (dnth d ds') + 1 -> d_should (dnth d ds') = true ->
  demes s = ds' -> ONCE c (begin_deme c t s).
Proof.
  intros Hn Hf (Hs & Ho) HL Hoth Hm Hsh Hds. unfold ONCE. rewrite begin_deme_pc. inversion Hn as [|? ? Hni Hnt]; subst.
  destruct t as [|d' t'].
  - rewrite (proj1 (begin_deme_fields c [] s)). intros i Hi. rewrite HL in Hi.
    destruct (Nat.eq_dec i d) as [->|N]; [rewrite Hm, Hsh; reflexivity|].
    rewrite Hoth by assumption. apply (Ho i Hi); auto.
  - rewrite (proj1 (begin_deme_fields c (d' :: t') s)).
    assert (d' <> d) as Nd by (intros ->; apply Hni; now left).
    inversion Hnt as [|? ? Hni' _]; subst. split.
    + rewrite Hoth by assumption. destruct (kind_of c (d_lvl (dnth d' ds))); reflexivity.
    + intros i Hi. rewrite HL in Hi. repeat split.
      * intros Hin. assert (i <> d) by (intros ->; apply Hni; now right). rewrite Hoth by assumption. apply (Ho i Hi). now right.
      * intros ->. rewrite Hoth by assumption. destruct (Ho d' Hi) as (A & _). rewrite A by now left.
        destruct (kind_of c (d_lvl (dnth d' ds))); simpl; lia.
      * intros Hnin Nid'. destruct (Nat.eq_dec i d) as [->|N]; [rewrite Hm, Hsh; reflexivity|].
        rewrite Hoth by assumption. apply (Ho i Hi); auto. intros [->|Hin]; auto.
Qed.

(* the running deme stays the running deme: its record changed as [sub -> sub'] prescribes *)
Lemma once_stay c ds ds' t d sub sub' :
  once_cur c ds t d sub -> d < length ds -> ~ In d t ->
  length ds' = length ds -> (forall i, i <> d -> dnth i ds' = dnth i ds) ->
  d_lvl (dnth d ds') = d_lvl (dnth d ds) -> d_meta0 (dnth d ds') = d_meta0 (dnth d ds) ->
  sub_ok (kind_of c (d_lvl (dnth d ds))) sub' = true ->
  d_meta (dnth d ds') + b2n (appended (kind_of c (d_lvl (dnth d ds))) sub) = d_meta (dnth d ds) + b2n (appended (kind_of c (d_lvl (dnth d ds))) sub') ->
  once_cur c ds' t d sub'.
Proof.
  intros (Hs & Ho) Hd Hnin HL Hoth Hl H0 Hs' Hm. split; [now rewrite Hl|]. intros i Hi. rewrite HL in Hi.
  destruct (Nat.eq_dec i d) as [->|N].
  - destruct (Ho d Hi) as (A & B & C). repeat split; try tauto.
    intros _. rewrite Hl, H0. specialize (B eq_refl). lia.
  - rewrite Hoth by assumption. destruct (Ho i Hi) as (A & B & C). repeat split; auto. intros ->. contradiction.
Qed.

Ltac upd_d := repeat rewrite dnth_upd_same by (rewrite ?upd_length; assumption).
Ltac side_upd :=
  first [ solve [rewrite ?upd_length; reflexivity]
        | solve [let i := fresh "i" in let Hne := fresh "Hne" in intros i Hne; rewrite ?dnth_upd_other by auto; reflexivity] ].

Lemma ONCE_init c n : ONCE c (init n).
Proof. unfold ONCE, once_rest. simpl. intros [|i] Hi; [reflexivity|lia]. Qed.

Lemma ONCE_step c s e s' : WFT c s -> PcOK c s -> ONCE c s -> step c s e = Some s' -> ONCE c s'.
Proof.
  intros W P I H. unfold PcOK in P. unfold ONCE in I. step_cases H; kind_cases; bd.
  all: try (destruct P as (Hn & Hf); pose proof Hn as Hn'; inversion Hn' as [|? ? Hni Hnt]; subst;
            pose proof Hf as Hf'; inversion Hf' as [|? ? (Hd & Ha & Hsh & Hh) Ht]; subst).
  all: try (lazymatch goal with
            | Hk : kind_of _ _ = _ |- _ => idtac
            | I : once_cur ?c ?ds _ ?d _ |- _ => destruct (kind_of c (d_lvl (dnth d ds))) eqn:?
            end).
  (* a deme finishes *)
  all: try solve [ eapply once_finish; [exact Hn | exact Hf | exact I | | | | | reflexivity]; cbn [demes]; try side_upd;
                   upd_d; simpl; auto;
                   destruct I as (Hsub & Ho); destruct (Ho d Hd) as (_ & B & _); specialize (B eq_refl);
                   match goal with Hk : kind_of _ _ = _ |- _ => rewrite Hk in B, Hsub end; simpl in B, Hsub; try discriminate; lia ].
  (* the running deme moves to its next control point *)
  all: try solve [ unfold ONCE; cbn [pc demes]; eapply once_stay; [exact I | exact Hd | exact Hni | | | | | | ]; try side_upd; upd_d; simpl; auto;
                   destruct I as (Hsub & Ho);
                   match goal with Hk : kind_of _ _ = _ |- _ => rewrite Hk in *; simpl in *; try discriminate; try reflexivity; try lia end ].
  all: try solve [ unfold ONCE; cbn [pc demes]; exact I ].
  - (* a metaepoch begins *)
    destruct W as (_ & W). unfold ONCE. rewrite begin_deme_pc. set (ds' := map (mark_step (hib_on c)) (demes s)).
    assert (forall i, i < length (demes s) -> dnth i ds' = mark_step (hib_on c) (dnth i (demes s))) as M by (intros; now apply dnth_map).
    assert (length ds' = length (demes s)) as L' by apply map_length.
    assert (forall i, i < length (demes s) -> d_should (dnth i ds') = true -> In i (rev (level_order (height c) d_should ds'))) as Hin.
    { intros i Hi Hs. apply in_rev. rewrite rev_involutive. apply level_order_spec. rewrite L'. repeat split; auto.
      rewrite M by assumption. simpl. apply (W i Hi). }
    destruct (rev (level_order (height c) d_should ds')) as [|d t] eqn:E.
    + rewrite (proj1 (begin_deme_fields c [] _)). cbn [demes]. intros i Hi. rewrite L' in Hi.
      destruct (d_should (dnth i ds')) eqn:Hs; [destruct (Hin i Hi Hs)|]. rewrite M by assumption. simpl. lia.
    + rewrite (proj1 (begin_deme_fields c (d :: t) _)). cbn [demes]. split.
      * destruct (kind_of c (d_lvl (dnth d ds'))); reflexivity.
      * intros i Hi. rewrite L' in Hi. repeat split.
        -- intros _. rewrite M by assumption. simpl. lia.
        -- intros ->. rewrite M by assumption. simpl. destruct (kind_of c _); simpl; lia.
        -- intros Hnin Hne. destruct (d_should (dnth i ds')) eqn:Hs.
           ++ destruct (Hin i Hi Hs) as [->|Hx]; [contradiction|contradiction].
           ++ rewrite M in * by assumption. simpl in *. lia.
  - unfold ONCE. cbn [pc demes]. destruct v; exact I.
  - (* sprouting *)
    sprout_abs. unfold ONCE. cbn [pc demes].
    set (ds1 := do_sprout (mcount s) seeds inits (fun i => d_lvl (dnth i (demes s))) (demes s)).
    assert (once_rest ds1) as R1.
    { intros i Hi. subst ds1. rewrite do_sprout_length in Hi. destruct (Nat.ltb_spec i (length (demes s))) as [Hold|Hnew].
      - rewrite do_sprout_prefix by assumption. now apply I.
      - destruct (do_sprout_new (mcount s) seeds inits (fun i => d_lvl (dnth i (demes s))) (demes s) i) as (p & _ & Hd); [lia|].
        cbv zeta in Hd. destruct Hd as (_ & _ & _ & _ & _ & -> & -> & -> & _). reflexivity. }
    destruct (hib_on c); [|exact R1]. intros i Hi. rewrite set_hibs_length in Hi. rewrite set_hibs_dnth by assumption.
    destruct (existsb _ _); [simpl|]; now apply R1.
Qed.

(* ================================================================ Inv6 (C05): bounded wind-down once the global stop condition was observed true *)
Definition WD (s : st) : Prop :=
  steps s = mcount s /\ born_after_seen s = 0 /\
  (seen s = false -> forall i, i < length (demes s) -> d_after (dnth i (demes s)) = 0) /\
  (seen s = true ->
     (forall i, i < length (demes s) -> d_after (dnth i (demes s)) <= 1) /\
     match pc s with
     | PDeme t d g sub => (forall x, In x t -> d_after (dnth x (demes s)) = 0) /\
                          match sub with SGen | SLocal => d_after (dnth d (demes s)) = 0 | SGsc => True | _ => False end
     | PSprout => False
     | _ => True
     end).

Definition keeps_after (f : deme -> deme) : Prop := forall d, d_after (f d) = d_after d.
Lemma ka_append : keeps_after append_meta. Proof. intros d; reflexivity. Qed.
Lemma ka_deact : keeps_after deactivate. Proof. intros d; reflexivity. Qed.
Lemma ka_mark h : keeps_after (mark_step h). Proof. intros d; reflexivity. Qed.
Lemma ka_add0 n : keeps_after (add_evals n 0). Proof. intros d; simpl; lia. Qed.
Lemma after_upd_keep i f l j : keeps_after f -> d_after (dnth j (upd i f l)) = d_after (dnth j l).
Proof. intros Hf. rewrite dnth_upd. destruct (_ && _); auto. Qed.

(* after a finished deme, the next one (if any) has not iterated since the condition was seen *)
Lemma WD_finish c t s0 :
  steps s0 = mcount s0 -> born_after_seen s0 = 0 ->
  (seen s0 = false -> forall i, i < length (demes s0) -> d_after (dnth i (demes s0)) = 0) ->
  (seen s0 = true -> (forall i, i < length (demes s0) -> d_after (dnth i (demes s0)) <= 1) /\ (forall x, In x t -> d_after (dnth x (demes s0)) = 0)) ->
  WD (begin_deme c t s0).
Proof.
  intros H1 H2 H3 H4. unfold WD. rewrite begin_deme_pc. destruct (begin_deme_fields c t s0) as (-> & -> & -> & -> & _ & -> & _).
  repeat split; auto; try (now apply H4).
  destruct t as [|d' t']; [exact Logic.I|]. destruct (H4 H) as (_ & Hz). split.
  - intros x Hx. apply Hz. now right.
  - specialize (Hz d' (or_introl eq_refl)). destruct (kind_of c _); simpl; exact Hz.
Qed.

Lemma WD_init n : WD (init n).
Proof. unfold WD. simpl. repeat split; auto; try discriminate. intros _ [|i] Hi; [reflexivity|lia]. Qed.

Lemma WD_step c s e s' : PcOK c s -> WD s -> step c s e = Some s' -> WD s'.
Proof.
  intros P (W1 & W2 & W3 & W4) H. unfold PcOK in P. destruct (seen s) eqn:Hseen.
  - (* the condition has been seen *)
    destruct (W4 eq_refl) as (Wle & Wpc). clear W3 W4.
    unfold step in H. rewrite Hseen in H. step_cases H; kind_cases; bd; rewrite ?Hseen in *.
    all: try (destruct P as (Hn & Hf); inversion Hn as [|? ? Hni Hnt]; subst; inversion Hf as [|? ? (Hd & _) Ht]; subst).
    all: try (destruct Wpc as (Wt & Wd)); try contradiction.
    all: try match goal with Hb : (_ || true && negb false)%bool = false |- _ => rewrite orb_true_r in Hb; discriminate end.
    all: try solve [ unfold WD; cbn [steps mcount born_after_seen seen demes pc]; repeat split; auto; discriminate ].
    all: try solve [ apply WD_finish; cbn [steps mcount born_after_seen seen demes]; auto; try discriminate; intros _; split;
                     [ intros i Hi; rewrite ?upd_length in Hi; rewrite ?after_upd_keep by (apply ka_append || apply ka_deact); auto
                     | intros x Hx; rewrite ?after_upd_keep by (apply ka_append || apply ka_deact); auto ] ].
    all: try match goal with |- WD (begin_deme _ _ _) => apply WD_finish; cbn [steps mcount born_after_seen seen demes]; auto; try discriminate; intros _; split end.
    all: try (unfold WD; cbn [steps mcount born_after_seen seen demes pc]; split; [assumption|]; split; [assumption|]; split; [discriminate|]; intros _; split; [|split; [|exact Logic.I]]).
    all: try (intros i Hi; rewrite ?upd_length in Hi; repeat (rewrite after_upd_keep by (apply ka_append || apply ka_deact));
              rewrite dnth_upd; destruct (Nat.eqb_spec d i) as [<-|Ne]; simpl; [destruct (d <? length (demes s)); simpl; rewrite ?Wd; auto; lia | auto]).
    all: try (intros x Hx; repeat (rewrite after_upd_keep by (apply ka_append || apply ka_deact));
              rewrite dnth_upd_other by (intros Exd; rewrite Exd in *; contradiction); auto).
    (* PStepGsc *)
    match goal with Hb : (_ || true && negb ?v)%bool = false |- _ => destruct v; [|rewrite orb_true_r in Hb; discriminate] end.
    unfold WD; cbn [steps mcount born_after_seen seen demes pc]. repeat split; auto. discriminate.
  - (* nothing seen yet: every counter is zero and stays zero, whatever happens, until a consult returns true *)
    specialize (W3 eq_refl). clear W4.
    unfold step in H. rewrite Hseen in H. step_cases H; kind_cases; bd; rewrite ?Hseen in *; cbn [orb andb b2n] in *.
    all: try (destruct P as (Hn & Hf); inversion Hn as [|? ? Hni Hnt]; subst; inversion Hf as [|? ? (Hd & _) Ht]; subst).
    all: try match goal with v : bool |- _ => destruct v end; cbn [orb] in *.
    all: try match goal with |- WD (begin_deme _ _ _) => apply WD_finish; cbn [steps mcount born_after_seen seen demes]; auto; try lia end.
    all: try (unfold WD; cbn [steps mcount born_after_seen seen demes pc]; split; [auto; lia|]; split; [auto; lia|]; split).
    all: try discriminate.
    all: try (intros _).
    all: try match goal with |- _ /\ _ => split end.
    all: try exact Logic.I.
    all: try (intros i Hi; rewrite ?upd_length, ?map_length in Hi;
              repeat (rewrite after_upd_keep by (apply ka_append || apply ka_deact || apply ka_add0)); try (rewrite dnth_map by assumption; simpl);
              rewrite ?W3 by assumption; auto).
    all: try (intros x Hx; repeat (rewrite after_upd_keep by (apply ka_append || apply ka_deact || apply ka_add0));
              apply W3; rewrite Forall_forall in Ht; apply (Ht x Hx)).
    all: try (apply W3; match goal with Ht : Forall _ ?t, Hx : In _ ?t |- _ => rewrite Forall_forall in Ht; apply (Ht _ Hx) end).
    (* sprouting: the new demes start with a zero counter *)
    sprout_abs. assert (d_after (dnth i (do_sprout (mcount s) seeds inits (fun i => d_lvl (dnth i (demes s))) (demes s))) = 0) as Z.
    { destruct (Nat.ltb_spec i (length (demes s))) as [Hold|Hnew]; [rewrite do_sprout_prefix by assumption; now apply W3|].
      destruct (hib_on c); rewrite ?set_hibs_length, do_sprout_length in Hi;
      (destruct (do_sprout_new (mcount s) seeds inits (fun i => d_lvl (dnth i (demes s))) (demes s) i) as (p & _ & Hd); [lia|]);
      cbv zeta in Hd; now destruct Hd as (_ & _ & _ & _ & _ & _ & _ & _ & ->). }
    destruct (hib_on c); [|exact Z]. rewrite set_hibs_length in Hi. rewrite set_hibs_dnth by assumption.
    destruct (existsb _ _); [simpl|]; exact Z.
Qed.

(* ================================================================ Inv7 (C18): hibernation *)
Definition mem (i : nat) (l : list nat) : bool := existsb (Nat.eqb i) l.
Definition HIB (c : cfg) (s : st) : Prop :=
  (hib_on c = false -> forall i, i < length (demes s) -> d_hib (dnth i (demes s)) = false) /\
  (hib_on c = true -> forall i, i < length (demes s) ->
     let d := dnth i (demes s) in
     (d_active d = true -> S (d_lvl d) < height c -> d_hib d = mem i (fst (last_round s)) && negb (mem i (snd (last_round s)))) /\
     (d_hib d = true -> d_hibmark d = (d_evals d, d_meta d))).

Lemma mem_spec i l : mem i l = true <-> In i l.
Proof. unfold mem. rewrite existsb_exists. split; [intros (x & Hx & E); apply Nat.eqb_eq in E; now subst | intros H; exists i; split; auto; apply Nat.eqb_refl]. Qed.
Lemma mem_sprouted seeds i : mem i (map fst (filter (fun pk : nat * list Z => negb (Nat.eqb (length (snd pk)) 0)) seeds)) = has_seeds seeds i.
Proof.
  unfold mem, has_seeds. induction seeds as [|[p ks] r IH]; simpl; [reflexivity|].
  destruct (Nat.eqb (length ks) 0) eqn:E; simpl; rewrite IH.
  - now rewrite andb_false_r.
  - rewrite andb_true_r. now rewrite (Nat.eqb_sym i p).
Qed.

Definition keeps_hib (f : deme -> deme) : Prop :=
  forall d, d_hib (f d) = d_hib d /\ d_hibmark (f d) = d_hibmark d /\ d_lvl (f d) = d_lvl d /\ (d_active (f d) = true -> d_active d = true).
Lemma kh_add n k : keeps_hib (add_evals n k). Proof. intros d; simpl; auto. Qed.
Lemma kh_append : keeps_hib append_meta. Proof. intros d; simpl; auto. Qed.
Lemma kh_deact : keeps_hib deactivate. Proof. intros d; simpl; repeat split; auto; discriminate. Qed.

(* an update of the RUNNING deme (which is awake when hibernation is on) keeps the invariant *)
Lemma HIB_upd c s ds' d f :
  HIB c s -> keeps_hib f -> d < length (demes s) -> (hib_on c = true -> d_hib (dnth d (demes s)) = false) ->
  ds' = upd d f (demes s) ->
  HIB c (with_state s (mcount s) ds' (pc s) (seen s) (steps s) (clock s) (born_after_seen s) (last_round s)).
Proof.
  intros (H0 & H1) Hf Hd Hh ->. unfold HIB, with_state. cbn [demes last_round]. rewrite upd_length. split.
  - intros Hoff i Hi. rewrite dnth_upd. destruct (_ && _); [destruct (Hf (dnth i (demes s))) as (-> & _)|]; auto.
  - intros Hon i Hi. rewrite dnth_upd. destruct (Nat.eqb_spec d i) as [<-|N]; simpl; [|now apply H1].
    destruct (d <? length (demes s)); [|now apply H1]. destruct (Hf (dnth d (demes s))) as (E1 & E2 & E3 & E4).
    cbv zeta. rewrite E1, E3. destruct (H1 Hon d Hd) as (A & B). split; [intros Ha; apply A; auto|]. rewrite (Hh Hon). discriminate.
Qed.

Lemma HIB_init c n : HIB c (init n).
Proof. unfold HIB. simpl. split; intros _ [|i] Hi; try lia; simpl; auto. split; [reflexivity|discriminate]. Qed.

Definition hib_fields (s s' : st) : Prop := demes s' = demes s /\ last_round s' = last_round s.
Lemma HIB_same c s s' : HIB c s -> hib_fields s s' -> HIB c s'.
Proof. intros H (E1 & E2). unfold HIB. now rewrite E1, E2. Qed.

Definition HIBd (c : cfg) (ds : list deme) (lr : list nat * list nat) : Prop :=
  (hib_on c = false -> forall i, i < length ds -> d_hib (dnth i ds) = false) /\
  (hib_on c = true -> forall i, i < length ds ->
     let d := dnth i ds in
     (d_active d = true -> S (d_lvl d) < height c -> d_hib d = mem i (fst lr) && negb (mem i (snd lr))) /\
     (d_hib d = true -> d_hibmark d = (d_evals d, d_meta d))).
Lemma HIB_HIBd c s : HIB c s <-> HIBd c (demes s) (last_round s).
Proof. reflexivity. Qed.

Lemma upd_upd i f g l : upd i f (upd i g l) = upd i (fun d => f (g d)) l.
Proof. revert i; induction l as [|d r IH]; intros [|i]; simpl; auto. now rewrite IH. Qed.
Lemma kh_comp f g : keeps_hib f -> keeps_hib g -> keeps_hib (fun d => f (g d)).
Proof.
  intros Hf Hg d. destruct (Hf (g d)) as (-> & -> & -> & A), (Hg d) as (-> & -> & -> & B). repeat split; auto.
Qed.
Lemma HIBd_upd c ds lr d f :
  HIBd c ds lr -> keeps_hib f -> d < length ds -> (hib_on c = true -> d_hib (dnth d ds) = false) -> HIBd c (upd d f ds) lr.
Proof.
  intros (H0 & H1) Hf Hd Hh. unfold HIBd. rewrite upd_length. split.
  - intros Hoff i Hi. rewrite dnth_upd. destruct (_ && _); [destruct (Hf (dnth i ds)) as (-> & _)|]; auto.
  - intros Hon i Hi. rewrite dnth_upd. destruct (Nat.eqb_spec d i) as [<-|N]; simpl; [|now apply H1].
    destruct (d <? length ds); [|now apply H1]. destruct (Hf (dnth d ds)) as (E1 & E2 & E3 & E4).
    cbv zeta. rewrite E1, E3. destruct (H1 Hon d Hd) as (A & B). split; [intros Ha; apply A; auto|]. rewrite (Hh Hon). discriminate.
Qed.
Lemma HIBd_mark c ds lr : HIBd c ds lr -> HIBd c (map (mark_step (hib_on c)) ds) lr.
Proof.
  intros (H0 & H1). unfold HIBd. rewrite map_length. split.
  - intros Hoff i Hi. rewrite dnth_map by assumption. simpl. auto.
  - intros Hon i Hi. rewrite dnth_map by assumption. simpl. now apply H1.
Qed.

Lemma HIB_step c s e s' : PcOK c s -> HIB c s -> step c s e = Some s' -> HIB c s'.
Proof.
  intros P I H. unfold PcOK in P. rewrite HIB_HIBd in *. step_cases H; kind_cases; bd; cbn [demes last_round]; auto.
  all: try (destruct P as (_ & Pf); inversion Pf as [|? ? (Hd & _ & _ & Hh) _]; subst).
  all: rewrite ?upd_upd.
  all: try solve [ apply HIBd_upd; auto; repeat (first [apply kh_add | apply kh_append | apply kh_deact | apply kh_comp]) ].
  - now apply HIBd_mark.
  - (* sprouting *)
    sprout_abs. destruct I as (I0 & I1).
    set (ds0 := demes s) in *. set (lvl_of := fun i => d_lvl (dnth i ds0)).
    set (ds1 := do_sprout (mcount s) seeds inits lvl_of ds0).
    assert (length ds1 = length ds0 + total_seeds seeds) as L1 by apply do_sprout_length.
    assert (forall i, i < length ds0 -> dnth i ds1 = dnth i ds0) as Pre by (intros; now apply do_sprout_prefix).
    assert (forall i, length ds0 <= i < length ds1 -> d_hib (dnth i ds1) = false /\ d_active (dnth i ds1) = true) as New.
    { intros i Hi. destruct (do_sprout_new (mcount s) seeds inits lvl_of ds0 i) as (p & _ & Hd); [lia|]. cbv zeta in Hd. tauto. }
    destruct (hib_on c) eqn:Hon.
    + unfold HIBd; rewrite Hon. split; [discriminate|]. intros _ i Hi. rewrite set_hibs_length in Hi. rewrite set_hibs_dnth by assumption. cbn [fst snd Nat.add].
      set (parts := ids (fun d => d_active d && (S (d_lvl d) <? height c)) ds0).
      destruct (Nat.ltb_spec i (length ds0)) as [Hold|Hnew].
      * rewrite Pre by assumption. destruct (I1 eq_refl i Hold) as (A & B). fold (mem i parts). rewrite mem_sprouted.
        destruct (mem i parts) eqn:Hm.
        -- cbv zeta. simpl. split; [reflexivity|]. destruct (has_seeds seeds i); simpl; [discriminate|].
           intros _. destruct (d_hib (dnth i ds0)) eqn:Hh; simpl; [now apply B|reflexivity].
        -- split; [|exact B]. intros Ha Hl. exfalso. assert (In i parts) as Hin; [|apply mem_spec in Hin; congruence].
           apply ids_spec. split; [assumption|]. rewrite Ha. simpl. now apply Nat.ltb_lt.
      * destruct (New i (conj Hnew Hi)) as (Nh & Na).
        assert (mem i parts = false) as Hm.
        { destruct (mem i parts) eqn:E; [|reflexivity]. apply mem_spec, ids_spec in E as (E & _). lia. }
        fold (mem i parts). rewrite Hm. cbv zeta. rewrite Nh. split; [reflexivity|discriminate].
    + unfold HIBd; rewrite Hon. split; [|discriminate]. intros _ i Hi. fold ds1 in Hi |- *. destruct (Nat.ltb_spec i (length ds0)) as [Hold|Hnew].
      * rewrite Pre by assumption. now apply I0.
      * apply New. lia.
Qed.
