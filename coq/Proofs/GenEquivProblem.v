(* Proofs/GenEquivProblem.v — the evaluate methods regenerated from /repo's problem.py are the model's steps. *)
From Coq Require Import ZArith List Bool Lia ZifyBool String.
From HV Require Import F64 WMonad Problem GenProblem.
Open Scope Z_scope.

Section Equiv.
  Context {G I : Type} (ops : inner_ops G I).
  Ltac crush := intros; unfold StatsGatheringProblem_evaluate, PrecisionCutoffProblem_evaluate, EvalCutoffProblem_evaluate,
    EvalCountingProblem_evaluate, ProblemWrapper_evaluate, m_step, refuses, local, sentinel, bind, ret, get_self,
    get_inner, call_inner, set_n_evals, set_eta, set_hit_precision, push_durations, tick, upd, inner_maximize, bump, with_dur, with_hit, prec_test in *;
    cbn [w_self w_inner n_evals eval_cutoff global_optima precision eta hit_precision durations fst snd];
    repeat (match goal with
    | |- context [i_eval ?o ?x ?i] => destruct (i_eval o x i) as [? ?] eqn:?; cbn [w_self w_inner n_evals eval_cutoff global_optima precision eta hit_precision durations fst snd]
    | |- context [if ?c then _ else _] => destruct c eqn:?; cbn [w_self w_inner n_evals eval_cutoff global_optima precision eta hit_precision durations fst snd]
    end); try reflexivity; try lia; try congruence.

  Lemma wrapper_eq x w : ProblemWrapper_evaluate ops x w = m_step ops KWrapper x w.
  Proof. timeout 60 crush. Qed.
  Lemma counting_eq x w : EvalCountingProblem_evaluate ops x w = m_step ops KCounting x w.
  Proof. timeout 60 crush. Qed.
  Lemma cutoff_eq x w : EvalCutoffProblem_evaluate ops x w = m_step ops KCutoff x w.
  Proof. timeout 60 crush. Qed.
  Lemma precision_eq x w : PrecisionCutoffProblem_evaluate ops x w = m_step ops KPrecision x w.
  Proof. timeout 60 crush. Qed.
  Lemma stats_eq x w : StatsGatheringProblem_evaluate ops x w = m_step ops KStats x w.
  Proof. timeout 60 crush. Qed.
End Equiv.

Lemma worse_than_eq mx a c : FunctionProblem_worse_than mx a c = worse_than mx a c.
Proof. unfold FunctionProblem_worse_than, worse_than, nan_coin. destruct (fis_nan a), (fis_nan c), mx; reflexivity. Qed.
Lemma equivalent_eq a c : Problem_equivalent a c = feq a c.
Proof. reflexivity. Qed.
Lemma delegation_intact :
  ProblemWrapper_worse_than_delegates = true /\ ProblemWrapper_bounds_delegates = true /\
  ProblemWrapper_maximize_delegates = true /\ wrapper_overrides = nil /\ get_function_problem_unwraps = true.
Proof. repeat split; reflexivity. Qed.

(* ---- a whole stack evaluated with the GENERATED evaluate methods is the model's eval_stack ---- *)
Section GenStack.
  Context {G : Type} (f : G -> F).
  Definition gen_step {I} (ops : inner_ops G I) (k : kind) (x : G) : W F :=
    match k with
    | KWrapper => ProblemWrapper_evaluate ops x | KCounting => EvalCountingProblem_evaluate ops x
    | KCutoff => EvalCutoffProblem_evaluate ops x | KPrecision => PrecisionCutoffProblem_evaluate ops x
    | KStats => StatsGatheringProblem_evaluate ops x
    end.
  Fixpoint gen_eval_stack (st : stack) (x : G) (b : base G) : F * (stack * base G) :=
    match st with
    | nil => (f x, (nil, {| b_max := b_max b; b_calls := b_calls b ++ (x :: nil) |}))
    | (k, s) :: rest =>
        let ops := {| i_eval := fun x' (i : stack * base G) => gen_eval_stack rest x' (snd i);
                      i_max := fun (i : stack * base G) => b_max (snd i) |} in
        let '(v, w') := gen_step ops k x {| w_self := s; w_inner := (rest, b) |} in
        (v, ((k, w_self w') :: fst (w_inner w'), snd (w_inner w')))
    end.
  Lemma gen_step_eq {I} (ops : inner_ops G I) k x w : gen_step ops k x w = m_step ops k x w.
  Proof. destruct k; simpl; [apply wrapper_eq|apply counting_eq|apply cutoff_eq|apply precision_eq|apply stats_eq]. Qed.
  Lemma m_step_ext {I} (o1 o2 : inner_ops G I) k x w :
    (forall x i, i_eval o1 x i = i_eval o2 x i) -> (forall i, i_max o1 i = i_max o2 i) -> m_step o1 k x w = m_step o2 k x w.
  Proof. intros H1 H2. unfold m_step. now rewrite H1, H2. Qed.
  Lemma gen_eval_stack_eq st x b : gen_eval_stack st x b = eval_stack f st x b.
  Proof.
    revert x b; induction st as [|[k s] rest IH]; intros x b; [reflexivity|].
    cbn [gen_eval_stack eval_stack]. rewrite gen_step_eq.
    erewrite m_step_ext; [reflexivity| |]; cbn [i_eval i_max]; intros; [apply IH|reflexivity].
  Qed.
End GenStack.
