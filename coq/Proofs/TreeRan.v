(* Proofs/TreeRan.v — a deme that has children has run at least one metaepoch (needed by C20: every displayed deme's ancestors
   are displayed), and metaepoch counters never decrease.  Every accepted event stream. *)
From Coq Require Import List Bool Arith ZArith Lia.
From HV Require Import Ord ListX Sprout SproutFacts Tree TreeLemmas TreeInv TreeRun.
Import ListNotations.

Definition mono_rel (l l' : list deme) : Prop :=
  length l' = length l /\ forall i, d_par (dnth i l') = d_par (dnth i l) /\ d_meta (dnth i l) <= d_meta (dnth i l').
Definition keeps_mono (f : deme -> deme) : Prop := forall d, d_par (f d) = d_par d /\ d_meta d <= d_meta (f d).
Lemma km_add n k : keeps_mono (add_evals n k). Proof. intros d; simpl; auto. Qed.
Lemma km_append : keeps_mono append_meta. Proof. intros d; simpl; auto. Qed.
Lemma km_deact : keeps_mono deactivate. Proof. intros d; simpl; auto. Qed.
Lemma km_mark h : keeps_mono (mark_step h). Proof. intros d; simpl; auto. Qed.
Lemma km_hib b : keeps_mono (set_hib b). Proof. intros d; simpl; auto. Qed.
Lemma mono_refl l : mono_rel l l. Proof. split; auto. Qed.
Lemma mono_trans l1 l2 l3 : mono_rel l1 l2 -> mono_rel l2 l3 -> mono_rel l1 l3.
Proof. intros (L1 & H1) (L2 & H2). split; [lia|]. intros i. destruct (H1 i) as (A & B), (H2 i) as (A' & B'). split; [congruence|lia]. Qed.
Lemma mono_upd i f l : keeps_mono f -> mono_rel l (upd i f l).
Proof. intros Hf. split; [apply upd_length|]. intros j. rewrite dnth_upd. destruct (Nat.eqb i j && (i <? length l)); [apply Hf|auto]. Qed.
Lemma mono_map f l : keeps_mono f -> mono_rel l (map f l).
Proof.
  intros Hf. split; [apply map_length|]. intros j. destruct (Nat.ltb_spec j (length l)) as [Hj|Hj].
  - rewrite dnth_map by assumption. apply Hf.
  - unfold dnth. rewrite !nth_overflow; rewrite ?map_length; auto.
Qed.
Lemma mono_set_hibs parts seeds l : mono_rel l (set_hibs 0 parts seeds l).
Proof.
  split; [apply set_hibs_length|]. intros j. destruct (Nat.ltb_spec j (length l)) as [Hj|Hj].
  - rewrite set_hibs_dnth by assumption. destruct (existsb _ parts); [apply km_hib|auto].
  - unfold dnth. rewrite !nth_overflow; rewrite ?set_hibs_length; auto.
Qed.
#[global] Hint Resolve mono_refl mono_upd mono_map mono_set_hibs km_add km_append km_deact km_mark km_hib : tree.
Ltac mono_tac := solve [repeat first [ apply mono_refl | eapply mono_trans; [|apply mono_upd; auto with tree] | apply mono_upd; auto with tree | apply mono_map; auto with tree ]].

Definition RAN (s : st) : Prop :=
  forall i, i < length (demes s) -> match d_par (dnth i (demes s)) with Some p => p < length (demes s) /\ 1 <= d_meta (dnth p (demes s)) | None => True end.
Lemma RAN_mono s s' : RAN s -> mono_rel (demes s) (demes s') -> RAN s'.
Proof.
  intros R (L & H) i Hi. rewrite L in Hi. specialize (R i Hi). destruct (H i) as (-> & _). destruct (d_par (dnth i (demes s))) as [p|]; auto.
  destruct R as (A & B). destruct (H p) as (_ & C). split; lia.
Qed.
Lemma RAN_init n : RAN (init n).
Proof. intros [|i] Hi; simpl in *; [exact I|lia]. Qed.
Lemma RAN_step c s e s' : RAN s -> step c s e = Some s' -> RAN s'.
Proof.
  intros I H. step_cases H; kind_cases; bd.
  all: try solve [eapply RAN_mono; [exact I| bd; cbn [demes]; mono_tac]].
  sprout_abs.
  set (ds1 := do_sprout (mcount s) seeds inits (fun i => d_lvl (dnth i (demes s))) (demes s)).
  assert (RAN (with_state s (mcount s) ds1 PMain (seen s) (steps s) (clock s) (born_after_seen s) (last_round s))) as W1.
  { unfold RAN, with_state. cbn [demes]. subst ds1. rewrite do_sprout_length. intros i Hi.
    destruct (Nat.ltb_spec i (length (demes s))) as [Hold|Hnew].
    - rewrite do_sprout_prefix by assumption. specialize (I i Hold). destruct (d_par (dnth i (demes s))) as [p|]; auto.
      destruct I as (A & B). rewrite do_sprout_prefix by assumption. split; [lia|exact B].
    - destruct (do_sprout_new (mcount s) seeds inits (fun i => d_lvl (dnth i (demes s))) (demes s) i) as (p & Hp & Hd); [lia|].
      cbv zeta in Hd. destruct Hd as (_ & E2 & _). rewrite E2.
      assert (In p (map fst cands)) as Hpc.
      { subst seeds. apply mask_cmap_fst_in in Hp. destruct (level_lim c); [now rewrite level_limit_fst in Hp|assumption]. }
      destruct (seeds_parent_valid _ _ _ _ Hvalid Hpc) as (Hp1 & _). pose proof (seeds_parent_ran _ _ _ _ Hvalid Hpc) as Hr.
      rewrite do_sprout_prefix by assumption. split; [lia|exact Hr]. }
  destruct (hib_on c); [|exact W1].
  eapply RAN_mono; [exact W1| unfold with_state; cbn [demes]; apply mono_set_hibs].
Qed.
Lemma RAN_run c evs : forall s s', RAN s -> run c s evs = Some s' -> RAN s'.
Proof.
  induction evs as [|e r IH]; intros s s' I H; simpl in H; [now injection H as <-|].
  destruct (step c s e) as [s1|] eqn:E; [|discriminate]. eapply IH; [|exact H]. eapply RAN_step; eauto.
Qed.
Theorem parents_have_run c n0 s : reach c n0 s -> RAN s.
Proof. intros (evs & R). eapply RAN_run; [apply RAN_init|exact R]. Qed.
