(* Proofs/GenEquivStopsPrecision.v — SingularProblemPrecisionReached translated from /repo's CURRENT pyhms/stop_conditions/gsc.py
   (Gen/GenStopsPrecision.v) answers the `hit_precision` flag of the PrecisionCutoffProblem it was constructed with; with the wrapper model of
   Model/Problem.v (itself tied to problem.py by Gen/GenProblem.v): after the wrapper has forwarded the values vs, the condition holds exactly
   when it held before or one of vs lies within the precision of the global optimum — and once true it stays true. *)
From Coq Require Import ZArith List Bool.
From HV Require Import F64 WMonad Problem ProblemFacts GenStopsPrecision.
Import ListNotations.

Theorem SingularProblemPrecisionReached_reads_flag w : gen_SingularProblemPrecisionReached w = hit_precision w.
Proof. unfold gen_SingularProblemPrecisionReached. destruct (hit_precision w); reflexivity. Qed.

Theorem SingularProblemPrecisionReached_after vs w :
  gen_SingularProblemPrecisionReached (fold_left (local KPrecision) vs w)
  = gen_SingularProblemPrecisionReached w || existsb (prec_test w) vs.
Proof. rewrite !SingularProblemPrecisionReached_reads_flag. exact (proj1 (precision_fold vs w)). Qed.

Theorem SingularProblemPrecisionReached_latches vs w :
  gen_SingularProblemPrecisionReached w = true -> gen_SingularProblemPrecisionReached (fold_left (local KPrecision) vs w) = true.
Proof. intros H. rewrite SingularProblemPrecisionReached_after, H. reflexivity. Qed.
