(* Proofs/BoundsFacts.v — facts about bound repair on ALL binary64 values (C17, C01). *)
From Coq Require Import ZArith Bool Lia Reals.
From Flocq Require Import Core.Core IEEE754.BinarySingleNaN.
From HV Require Import F64 Bounds F64Facts.

(* ---- np.clip lands in the box for every non-NaN input ---- *)
Lemma np_maximum_nn (x lo : f64) : fis_nan x = false -> np_maximum x lo = if fle lo x then x else lo.
Proof. intros H. unfold np_maximum. now rewrite H, orb_false_r. Qed.
Lemma np_minimum_nn (y hi : f64) : fis_nan y = false -> np_minimum y hi = if fle y hi then y else hi.
Proof. intros H. unfold np_minimum. now rewrite H, orb_false_r. Qed.

Lemma np_clip_in_box (x lo hi : f64) :
  fle lo hi = true -> fis_nan x = false -> in_box1 (np_clip x lo hi) lo hi = true.
Proof.
  intros Hb Hx.
  pose proof (fle_not_nan_l _ _ Hb) as Nlo. pose proof (fle_not_nan_r _ _ Hb) as Nhi.
  unfold in_box1, np_clip. rewrite (np_maximum_nn _ _ Hx).
  destruct (fle lo x) eqn:E1.
  - rewrite (np_minimum_nn _ _ Hx). destruct (fle x hi) eqn:E2.
    + now rewrite E1, E2.
    + now rewrite Hb, fle_refl.
  - rewrite (np_minimum_nn _ _ Nlo), Hb. now rewrite fle_refl, Hb.
Qed.

Lemma np_clip_nan_iff (x lo hi : f64) :
  fle lo hi = true -> fis_nan (np_clip x lo hi) = fis_nan x.
Proof.
  intros Hb. pose proof (fle_not_nan_l _ _ Hb) as Nlo. pose proof (fle_not_nan_r _ _ Hb) as Nhi.
  destruct (fis_nan x) eqn:Hx.
  - unfold np_clip, np_maximum, np_minimum. rewrite Hx, orb_true_r. now rewrite Hx, orb_true_r.
  - unfold np_clip. rewrite (np_maximum_nn _ _ Hx). destruct (fle lo x) eqn:E1.
    + rewrite (np_minimum_nn _ _ Hx). now destruct (fle x hi).
    + rewrite (np_minimum_nn _ _ Nlo). now destruct (fle lo hi).
Qed.

Lemma np_clip_id_inside (x lo hi : f64) : in_box1 x lo hi = true -> np_clip x lo hi = x.
Proof.
  unfold in_box1, np_clip, np_maximum, np_minimum. intros H. apply andb_prop in H as [H1 H2].
  rewrite H1. simpl. now rewrite H2.
Qed.

Lemma inside_in_box1 x lo hi : inside x lo hi = in_box1 x lo hi.
Proof. reflexivity. Qed.

(* ---- C17: every method lands in the box (unless the raw repair produced NaN), fixes in-box points ---- *)
Lemma apply_bounds_in_box (m : method) (x lo hi : f64) :
  fle lo hi = true -> fis_nan (apply_bounds m x lo hi) = false ->
  in_box1 (apply_bounds m x lo hi) lo hi = true.
Proof.
  intros Hb. destruct m; simpl; unfold clip, reflect, toroidal, np_where.
  - rewrite np_clip_nan_iff by assumption. now apply np_clip_in_box.
  - rewrite inside_in_box1. destruct (in_box1 x lo hi) eqn:E; [easy|].
    rewrite np_clip_nan_iff by assumption. now apply np_clip_in_box.
  - rewrite inside_in_box1. destruct (in_box1 x lo hi) eqn:E; [easy|].
    rewrite np_clip_nan_iff by assumption. now apply np_clip_in_box.
Qed.

Lemma apply_bounds_fixes_inside (m : method) (x lo hi : f64) :
  in_box1 x lo hi = true -> apply_bounds m x lo hi = x.
Proof.
  intros H. destruct m; simpl; unfold clip, reflect, toroidal, np_where.
  - now apply np_clip_id_inside.
  - now rewrite inside_in_box1, H.
  - now rewrite inside_in_box1, H.
Qed.

(* clip moves to the nearest face *)
Lemma clip_below (x lo hi : f64) : fle lo hi = true -> flt x lo = true -> clip x lo hi = lo.
Proof.
  intros Hb Hl. unfold clip, np_clip, np_maximum, np_minimum.
  destruct (flt_fle_false _ _ Hl) as (E & N & _).
  rewrite E, N. simpl. now rewrite Hb.
Qed.
Lemma clip_above (x lo hi : f64) : fle lo hi = true -> flt hi x = true -> clip x lo hi = hi.
Proof.
  intros Hb Hl. unfold clip, np_clip, np_maximum, np_minimum.
  destruct (flt_fle_false _ _ Hl) as (E & _ & N).
  assert (fle lo x = true) as E1.
  { apply fle_trans with hi; [assumption|]. apply fle_total; auto. now apply fle_not_nan_r in Hb. }
  rewrite E1. simpl. now rewrite E, N.
Qed.

(* ---- D1 on the pinned tree: witnesses, computed inside Coq ---- *)
Lemma reflect_pinned_leaves_box :
  exists x lo hi, flt lo hi = true /\ in_box1 x lo hi = true /\ fle (reflect_pinned x lo hi) hi = false.
Proof.
  exists (of_bits 0x3FC999999999999A), (of_bits 0xBFB999999999999A), (of_bits 0x3FC999999999999A).
  vm_compute. auto.
Qed.
Lemma toroidal_pinned_moves_face :
  exists x lo hi, flt lo hi = true /\ in_box1 x lo hi = true /\ feq (toroidal_pinned x lo hi) x = false.
Proof.
  exists (of_bits 0x3FC999999999999A), (of_bits 0xBFB999999999999A), (of_bits 0x3FC999999999999A).
  vm_compute. auto.
Qed.
Lemma toroidal_pinned_leaves_box :
  exists x lo hi, flt lo hi = true /\ fis_finite x = true /\ fle (toroidal_pinned x lo hi) hi = false.
Proof.
  exists (of_bits 0xBFB999999999999B), (of_bits 0xBFB999999999999A), (of_bits 0x3FC999999999999A).
  vm_compute. auto.
Qed.
